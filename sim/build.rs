fn main() {
    // Export the binary's own symbols so that libc symbols looked up with dlsym (getrandom) resolve
    // to the simulator's interposers.
    println!("cargo:rustc-link-arg-bins=-rdynamic");
}
