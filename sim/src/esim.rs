//! Whole-engine simulation (E-sim): the real router, session engine, tool runner, built-in tools,
//! task engine and continuity store on one current-thread tokio runtime (real time), talking to a
//! scripted in-process HTTP/1.1 provider stub over loop-back TCP. The simulator controls inputs,
//! provider behaviour (every byte and chunk boundary), faults and gates; it does not control every
//! task switch, so the oracles used with it are properties of the final log and of recorded
//! requests (schedule-insensitive).

use std::path::{Path, PathBuf};
use std::sync::{Arc, Mutex};
use std::time::{Duration, Instant};

use axum::body::Body;
use axum::http::Request;
use http_body_util::BodyExt;
use serde::{Deserialize, Serialize};
use serde_json::{json, Value};
use tokio::io::{AsyncReadExt, AsyncWriteExt};
use tower::ServiceExt;

use crate::prng::Rng;

// ---------------------------------------------------------------------------------------------
// panics of engine tasks (a panicking tokio task dies silently; the hook records it)

static PANICS: Mutex<Vec<String>> = Mutex::new(Vec::new());

pub fn note_panic(info: &std::panic::PanicHookInfo<'_>) {
    let msg = if let Some(s) = info.payload().downcast_ref::<&str>() {
        s.to_string()
    } else if let Some(s) = info.payload().downcast_ref::<String>() {
        s.clone()
    } else {
        "panic".to_string()
    };
    let loc = info.location().map(|l| format!("{}:{}", l.file(), l.line())).unwrap_or_default();
    if let Ok(mut g) = PANICS.lock() {
        if g.len() < 64 {
            g.push(format!("{loc}: {msg}"));
        }
    }
}

pub fn panics_take() -> Vec<String> {
    PANICS.lock().map(|mut g| std::mem::take(&mut *g)).unwrap_or_default()
}

// ---------------------------------------------------------------------------------------------
// provider script

#[derive(Clone, Debug, Serialize, Deserialize, PartialEq)]
pub enum ArgMode {
    /// arguments carried by the output_item events themselves
    Inline,
    /// arguments streamed as n function_call_arguments.delta events
    Deltas(u32),
    /// arguments carried by a function_call_arguments.done event
    DoneEvent,
}

#[derive(Clone, Debug, Serialize, Deserialize, PartialEq)]
pub enum SseEv {
    Created { id: String },
    TextDelta { text: String },
    FnCall {
        output_index: u64,
        item_id: Option<String>,
        call_id: Option<String>,
        name: String,
        args: String,
        mode: ArgMode,
        /// send only `output_item.added` (the call is never completed)
        never_done: bool,
        /// the done item omits call_id (it was given on `added`)
        omit_call_id_on_done: bool,
    },
    Completed { id: String },
    InvalidJson,
    SchemaInvalid,
    Raw { event: Option<String>, data: String },
}

#[derive(Clone, Debug, Serialize, Deserialize, PartialEq)]
pub enum DoneMode {
    Present,
    Missing,
    Twice,
}

#[derive(Clone, Debug, Serialize, Deserialize, PartialEq)]
pub enum Chunking {
    Whole,
    PerEvent,
    Bytes(u32),
    Seeded(u64),
}

#[derive(Clone, Debug, Serialize, Deserialize, PartialEq)]
pub enum Resp {
    Sse {
        events: Vec<SseEv>,
        /// interleave the events of different calls instead of sending them call by call
        interleave: bool,
        done: DoneMode,
        chunking: Chunking,
        /// close the connection after this many body bytes
        drop_after: Option<u32>,
        crlf: bool,
    },
    HttpError { status: u16, echo_request: bool, body: String },
    EmptyBody,
    Garbage,
    CloseWithoutResponse,
}

fn response_object(id: &str, status: &str) -> Value {
    json!({"background": false, "completed_at": null, "created_at": 0, "error": null, "frequency_penalty": 0, "id": id, "incomplete_details": null, "instructions": null, "max_output_tokens": null, "max_tool_calls": null, "metadata": {}, "model": "scripted", "object": "response", "output": [], "parallel_tool_calls": false, "presence_penalty": 0, "previous_response_id": null, "prompt_cache_key": null, "reasoning": null, "safety_identifier": null, "service_tier": "", "status": status, "store": false, "temperature": 0, "text": {"format": {"type": "text"}}, "tool_choice": "auto", "tools": [], "top_logprobs": 0, "top_p": 0, "truncation": "auto", "usage": null, "user": null})
}

/// Render one scripted event as one or more SSE events (name, data).
fn render_ev(ev: &SseEv, seqno: &mut u64) -> Vec<(Option<String>, String)> {
    let mut out = Vec::new();
    let mut next = || {
        *seqno += 1;
        *seqno
    };
    match ev {
        SseEv::Created { id } => out.push((Some("response.created".into()), json!({"type": "response.created", "sequence_number": next(), "response": response_object(id, "in_progress")}).to_string())),
        SseEv::Completed { id } => out.push((Some("response.completed".into()), json!({"type": "response.completed", "sequence_number": next(), "response": response_object(id, "completed")}).to_string())),
        SseEv::TextDelta { text } => out.push((Some("response.output_text.delta".into()), json!({"type": "response.output_text.delta", "sequence_number": next(), "item_id": "msg_1", "output_index": 0, "content_index": 0, "delta": text, "logprobs": []}).to_string())),
        SseEv::InvalidJson => out.push((Some("response.output_text.delta".into()), "{\"type\": \"response.output_text.delta\", broken".into())),
        SseEv::SchemaInvalid => out.push((Some("response.output_text.delta".into()), json!({"type": "response.output_text.delta", "delta": 42}).to_string())),
        SseEv::Raw { event, data } => out.push((event.clone(), data.clone())),
        SseEv::FnCall { output_index, item_id, call_id, name, args, mode, never_done, omit_call_id_on_done } => {
            let item = |arguments: &str, status: &str, with_call_id: bool| {
                let mut m = serde_json::Map::new();
                m.insert("type".into(), json!("function_call"));
                if let Some(i) = item_id {
                    m.insert("id".into(), json!(i));
                }
                if with_call_id {
                    if let Some(c) = call_id {
                        m.insert("call_id".into(), json!(c));
                    }
                }
                m.insert("name".into(), json!(name));
                m.insert("arguments".into(), json!(arguments));
                m.insert("status".into(), json!(status));
                Value::Object(m)
            };
            let ref_id = item_id.clone().or_else(|| call_id.clone()).unwrap_or_default();
            let inline = matches!(mode, ArgMode::Inline);
            // output_index == u64::MAX in the script means: the provider omits the field
            let with_index = |mut v: Value| -> String {
                if *output_index == u64::MAX {
                    if let Some(o) = v.as_object_mut() {
                        o.remove("output_index");
                    }
                }
                v.to_string()
            };
            out.push((Some("response.output_item.added".into()), with_index(json!({"type": "response.output_item.added", "sequence_number": next(), "output_index": output_index, "item": item(if inline { args } else { "" }, "in_progress", true)}))));
            match mode {
                ArgMode::Inline => {}
                ArgMode::Deltas(n) => {
                    let n = (*n).max(1) as usize;
                    let chars: Vec<char> = args.chars().collect();
                    let per = chars.len().div_ceil(n).max(1);
                    for part in chars.chunks(per) {
                        let d: String = part.iter().collect();
                        out.push((Some("response.function_call_arguments.delta".into()), with_index(json!({"type": "response.function_call_arguments.delta", "sequence_number": next(), "item_id": ref_id, "output_index": output_index, "delta": d}))));
                    }
                }
                ArgMode::DoneEvent => out.push((Some("response.function_call_arguments.done".into()), with_index(json!({"type": "response.function_call_arguments.done", "sequence_number": next(), "item_id": ref_id, "output_index": output_index, "arguments": args})))),
            }
            if !never_done {
                out.push((Some("response.output_item.done".into()), with_index(json!({"type": "response.output_item.done", "sequence_number": next(), "output_index": output_index, "item": item(if inline { args } else { "" }, "completed", !omit_call_id_on_done)}))));
            }
        }
    }
    out
}

/// In a scripted text this character is sent as the single byte 0xFF (invalid UTF-8).
pub const INVALID_BYTE_MARK: char = '\u{e0ff}';

/// Adds a text delta that carries an invalid byte to one of the script's event-stream responses
/// (before its last event, so further events follow it in the same response).
pub fn inject_invalid_byte(script: &mut [Resp], rng: &mut Rng) -> bool {
    let idx: Vec<usize> = script.iter().enumerate().filter(|(_, r)| matches!(r, Resp::Sse { events, .. } if !events.is_empty())).map(|(i, _)| i).collect();
    if idx.is_empty() {
        return false;
    }
    let k = idx[rng.usize_below(idx.len())];
    if let Resp::Sse { events, .. } = &mut script[k] {
        let at = events.len() - 1;
        let text = match rng.below(3) {
            0 => format!("bad{INVALID_BYTE_MARK}byte "),
            1 => format!("{INVALID_BYTE_MARK}"),
            _ => format!("é{INVALID_BYTE_MARK}{INVALID_BYTE_MARK}日本 "),
        };
        events.insert(at, SseEv::TextDelta { text });
    }
    true
}

/// Insert 1-3 events of a kind a decoder may be tempted to treat specially (keep-alive pings, an
/// in-progress notice, a vendor extension, an empty object) into one scripted SSE response, at
/// seeded positions. Returns false when the script has no SSE response.
pub fn inject_odd_events(script: &mut [Resp], rng: &mut Rng) -> bool {
    let idx: Vec<usize> = script.iter().enumerate().filter(|(_, r)| matches!(r, Resp::Sse { events, .. } if !events.is_empty())).map(|(i, _)| i).collect();
    if idx.is_empty() {
        return false;
    }
    let k = idx[rng.usize_below(idx.len())];
    if let Resp::Sse { events, .. } = &mut script[k] {
        for _ in 0..rng.range(1, 3) {
            let at = rng.usize_below(events.len() + 1);
            let ev = match rng.below(5) {
                0 | 1 => SseEv::Raw { event: None, data: serde_json::json!({"type": "ping"}).to_string() },
                2 => SseEv::Raw { event: Some("ping".into()), data: serde_json::json!({"type": "ping", "cost": 0}).to_string() },
                3 => SseEv::Raw { event: Some("keepalive".into()), data: "{}".into() },
                _ => SseEv::Raw { event: None, data: serde_json::json!({"type": "x.vendor.extension", "anything": [1, 2, 3]}).to_string() },
            };
            events.insert(at, ev);
        }
    }
    true
}

pub fn render_sse(events: &[SseEv], interleave: bool, done: &DoneMode, crlf: bool) -> (Vec<u8>, Vec<usize>) {
    let nl = if crlf { "\r\n" } else { "\n" };
    let mut seqno = 0u64;
    let mut groups: Vec<Vec<(Option<String>, String)>> = events.iter().map(|e| render_ev(e, &mut seqno)).collect();
    let mut flat: Vec<(Option<String>, String)> = Vec::new();
    if interleave {
        // round-robin over the multi-event groups (function calls), single events stay in place
        loop {
            let mut any = false;
            for g in groups.iter_mut() {
                if !g.is_empty() {
                    flat.push(g.remove(0));
                    any = true;
                }
            }
            if !any {
                break;
            }
        }
    } else {
        for g in groups {
            flat.extend(g);
        }
    }
    let mut bytes = Vec::new();
    let mut boundaries = Vec::new();
    let push = |bytes: &mut Vec<u8>, name: &Option<String>, data: &str| {
        if let Some(n) = name {
            bytes.extend_from_slice(format!("event: {n}{nl}").as_bytes());
        }
        // scripts are text; the private-use character INVALID_BYTE_MARK stands for one byte that is
        // invalid anywhere in UTF-8 and is replaced by it on the wire
        let line = format!("data: {data}{nl}{nl}");
        let mark = INVALID_BYTE_MARK.to_string();
        let mut rest = line.as_str();
        while let Some(pos) = rest.find(&mark) {
            bytes.extend_from_slice(rest[..pos].as_bytes());
            bytes.push(0xFF);
            rest = &rest[pos + mark.len()..];
        }
        bytes.extend_from_slice(rest.as_bytes());
    };
    for (n, d) in &flat {
        push(&mut bytes, n, d);
        boundaries.push(bytes.len());
    }
    match done {
        DoneMode::Present => push(&mut bytes, &None, "[DONE]"),
        DoneMode::Twice => {
            push(&mut bytes, &None, "[DONE]");
            push(&mut bytes, &None, "[DONE]");
        }
        DoneMode::Missing => {}
    }
    boundaries.push(bytes.len());
    (bytes, boundaries)
}

fn split_chunks(bytes: &[u8], boundaries: &[usize], chunking: &Chunking) -> Vec<Vec<u8>> {
    let mut cuts: Vec<usize> = match chunking {
        Chunking::Whole => vec![],
        Chunking::PerEvent => boundaries.to_vec(),
        Chunking::Bytes(n) => (1..).map(|k| k * (*n).max(1) as usize).take_while(|c| *c < bytes.len()).collect(),
        Chunking::Seeded(seed) => {
            let mut rng = Rng::new(*seed);
            let k = rng.range(1, 12);
            (0..k).map(|_| rng.range(1, bytes.len().max(2) as u64 - 1) as usize).collect()
        }
    };
    cuts.sort();
    cuts.dedup();
    let mut out = Vec::new();
    let mut prev = 0;
    for c in cuts {
        if c > prev && c < bytes.len() {
            out.push(bytes[prev..c].to_vec());
            prev = c;
        }
    }
    if prev < bytes.len() || out.is_empty() {
        out.push(bytes[prev..].to_vec());
    }
    out
}

// ---------------------------------------------------------------------------------------------
// provider stub

#[derive(Clone, Debug)]
pub struct Recorded {
    pub index: usize,
    pub headers: Vec<(String, String)>,
    pub body: Vec<u8>,
    pub json: Option<Value>,
}

pub struct Provider {
    pub addr: std::net::SocketAddr,
    pub requests: Arc<Mutex<Vec<Recorded>>>,
}

async fn read_request(sock: &mut tokio::net::TcpStream) -> Option<(Vec<(String, String)>, Vec<u8>)> {
    let mut buf: Vec<u8> = Vec::new();
    let mut tmp = [0u8; 8192];
    let header_end;
    loop {
        let n = sock.read(&mut tmp).await.ok()?;
        if n == 0 {
            return None;
        }
        buf.extend_from_slice(&tmp[..n]);
        if let Some(p) = buf.windows(4).position(|w| w == b"\r\n\r\n") {
            header_end = p + 4;
            break;
        }
        if buf.len() > 1 << 20 {
            return None;
        }
    }
    let head = String::from_utf8_lossy(&buf[..header_end]).to_string();
    let mut headers = Vec::new();
    let mut content_length = 0usize;
    for line in head.split("\r\n").skip(1) {
        if let Some((k, v)) = line.split_once(':') {
            let (k, v) = (k.trim().to_ascii_lowercase(), v.trim().to_string());
            if k == "content-length" {
                content_length = v.parse().unwrap_or(0);
            }
            headers.push((k, v));
        }
    }
    let mut body = buf[header_end..].to_vec();
    while body.len() < content_length {
        let n = sock.read(&mut tmp).await.ok()?;
        if n == 0 {
            break;
        }
        body.extend_from_slice(&tmp[..n]);
    }
    Some((headers, body))
}

/// Per-run scripts for scenarios with parallel runs: when set, a request is answered by
/// `TAGGED[k][i]` where k comes from the last `RUN<k>` tag in the request body (initial request,
/// i = 0) or from `previous_response_id = "resp_<k>_<i-1>"` (follow-ups).
pub static TAGGED: Mutex<Option<Vec<Vec<Resp>>>> = Mutex::new(None);

fn tagged_response(body: &[u8], json: &Option<Value>) -> Option<Resp> {
    let g = TAGGED.lock().ok()?;
    let scripts = g.as_ref()?;
    let fallback = Resp::Sse { events: vec![SseEv::Created { id: "resp_x".into() }, SseEv::TextDelta { text: "ok".into() }, SseEv::Completed { id: "resp_x".into() }], interleave: false, done: DoneMode::Present, chunking: Chunking::Whole, drop_after: None, crlf: false };
    if let Some(prev) = json.as_ref().and_then(|j| j.get("previous_response_id")).and_then(|p| p.as_str()) {
        let mut it = prev.trim_start_matches("resp_").split('_');
        let k: usize = it.next()?.parse().ok()?;
        let i: usize = it.next()?.parse().ok()?;
        return Some(scripts.get(k).and_then(|s| s.get(i + 1)).cloned().unwrap_or(fallback));
    }
    let text = String::from_utf8_lossy(body);
    let pos = text.rfind("RUN")?;
    let digits: String = text[pos + 3..].chars().take_while(|c| c.is_ascii_digit()).collect();
    let k: usize = digits.parse().ok()?;
    Some(scripts.get(k).and_then(|s| s.first()).cloned().unwrap_or(fallback))
}

async fn serve_one(mut sock: tokio::net::TcpStream, resp: Resp, rec: Arc<Mutex<Vec<Recorded>>>, index: usize) {
    let Some((headers, body)) = read_request(&mut sock).await else {
        return;
    };
    let json = serde_json::from_slice::<Value>(&body).ok();
    let resp = tagged_response(&body, &json).unwrap_or(resp);
    rec.lock().unwrap().push(Recorded { index, headers, body: body.clone(), json });
    match resp {
        Resp::CloseWithoutResponse => {}
        Resp::HttpError { status, echo_request, body: b } => {
            let payload = if echo_request { format!("{b} request was: {}", String::from_utf8_lossy(&body)) } else { b };
            let _ = sock.write_all(format!("HTTP/1.1 {status} Scripted\r\ncontent-type: application/json\r\ncontent-length: {}\r\nconnection: close\r\n\r\n", payload.len()).as_bytes()).await;
            let _ = sock.write_all(payload.as_bytes()).await;
        }
        Resp::EmptyBody => {
            let _ = sock.write_all(b"HTTP/1.1 200 OK\r\ncontent-type: text/event-stream\r\ncontent-length: 0\r\nconnection: close\r\n\r\n").await;
        }
        Resp::Garbage => {
            let g = b"\x00\x01 this is not an event stream \xff\xfe\n\n{]";
            let _ = sock.write_all(format!("HTTP/1.1 200 OK\r\ncontent-type: text/event-stream\r\ncontent-length: {}\r\nconnection: close\r\n\r\n", g.len()).as_bytes()).await;
            let _ = sock.write_all(g).await;
        }
        Resp::Sse { events, interleave, done, chunking, drop_after, crlf } => {
            let (bytes, boundaries) = render_sse(&events, interleave, &done, crlf);
            let chunks = split_chunks(&bytes, &boundaries, &chunking);
            let _ = sock.write_all(b"HTTP/1.1 200 OK\r\ncontent-type: text/event-stream\r\ntransfer-encoding: chunked\r\nconnection: close\r\nx-request-id: req-scripted\r\n\r\n").await;
            let mut sent = 0usize;
            let mut dropped = false;
            for c in chunks {
                let mut c = c;
                if let Some(d) = drop_after {
                    let d = d as usize;
                    if sent + c.len() > d {
                        c.truncate(d.saturating_sub(sent));
                        dropped = true;
                    }
                }
                if !c.is_empty() {
                    let _ = sock.write_all(format!("{:x}\r\n", c.len()).as_bytes()).await;
                    let _ = sock.write_all(&c).await;
                    let _ = sock.write_all(b"\r\n").await;
                    let _ = sock.flush().await;
                    sent += c.len();
                }
                if dropped {
                    break;
                }
                tokio::task::yield_now().await;
            }
            if !dropped {
                let _ = sock.write_all(b"0\r\n\r\n").await;
            }
        }
    }
    let _ = sock.shutdown().await;
}

/// Start the stub on the current runtime. Request i is answered with `script[min(i, len-1)]`.
pub async fn start_provider(script: Vec<Resp>) -> Result<Provider, String> {
    let listener = tokio::net::TcpListener::bind("127.0.0.1:0").await.map_err(|e| format!("bind: {e}"))?;
    let addr = listener.local_addr().map_err(|e| e.to_string())?;
    let requests: Arc<Mutex<Vec<Recorded>>> = Arc::new(Mutex::new(Vec::new()));
    let rec = requests.clone();
    tokio::spawn(async move {
        let mut index = 0usize;
        loop {
            let Ok((sock, _)) = listener.accept().await else {
                break;
            };
            let resp = if script.is_empty() { Resp::EmptyBody } else { script[index.min(script.len() - 1)].clone() };
            tokio::spawn(serve_one(sock, resp, rec.clone(), index));
            index += 1;
        }
    });
    Ok(Provider { addr, requests })
}

// ---------------------------------------------------------------------------------------------
// engine

#[derive(Clone, Debug, Serialize, Deserialize, PartialEq)]
pub struct ProviderCfg {
    /// value as accepted by RIP_OPENRESPONSES_TOOL_CHOICE ("auto", "none", "required", "function:<name>", JSON)
    pub tool_choice: String,
    pub stateless_history: bool,
    pub parallel_tool_calls: bool,
    pub api_key: Option<String>,
    pub headers: Vec<(String, String)>,
    pub followup_user_message: Option<String>,
}

impl Default for ProviderCfg {
    fn default() -> Self {
        ProviderCfg { tool_choice: "auto".into(), stateless_history: false, parallel_tool_calls: false, api_key: None, headers: vec![], followup_user_message: None }
    }
}

/// 0 = current-thread runtime (default); n > 0 = multi-thread runtime with n workers for the next
/// `Engine::new`.
pub static WORKER_THREADS: std::sync::atomic::AtomicUsize = std::sync::atomic::AtomicUsize::new(0);

pub struct Engine {
    pub rt: tokio::runtime::Runtime,
    pub app: axum::Router,
    pub provider: Provider,
    pub data: PathBuf,
    pub ws: PathBuf,
}

pub fn isolate_process_env(scratch: &Path) {
    // nothing from the invoking user's environment may configure the engine
    for (k, _) in std::env::vars() {
        if k.starts_with("RIP_") || k.starts_with("OPENAI_") || k.starts_with("OPENROUTER_") {
            std::env::remove_var(k);
        }
    }
    std::env::set_var("HOME", scratch.join("home"));
    std::env::set_var("XDG_CONFIG_HOME", scratch.join("home/.config"));
}

impl Engine {
    /// Engine whose provider configuration comes from whatever `prepare` puts into the process
    /// environment and config files (it receives the scratch root, workspace and stub address);
    /// `make_cfg` then produces the engine-level configuration the way the daemon binary does.
    pub fn new_with(root: &Path, script: Vec<Resp>, prepare: impl FnOnce(&Path, &Path, &std::net::SocketAddr), make_cfg: impl FnOnce() -> Option<ripd::verif_api::OpenResponsesConfig>) -> Result<Engine, String> {
        let _ = std::fs::remove_dir_all(root);
        let data = root.join("data");
        let ws = root.join("ws");
        std::fs::create_dir_all(&data).map_err(|e| e.to_string())?;
        std::fs::create_dir_all(&ws).map_err(|e| e.to_string())?;
        isolate_process_env(root);
        // the daemon's workspace root is its working directory; tools without an explicit cwd run there
        std::env::set_current_dir(&ws).map_err(|e| format!("chdir: {e}"))?;
        let rt = tokio::runtime::Builder::new_current_thread().enable_all().build().map_err(|e| format!("runtime: {e}"))?;
        let provider = rt.block_on(start_provider(script))?;
        prepare(root, &ws, &provider.addr);
        let or = make_cfg();
        let (d2, w2) = (data.clone(), ws.clone());
        let app = rt.block_on(async move { ripd::verif_api::build_router(d2, w2, or, false) });
        Ok(Engine { rt, app, provider, data, ws })
    }

    /// GET an SSE endpoint and return what arrives until the stream goes quiet for `idle_ms`.
    pub fn read_stream(&self, uri: &str, idle_ms: u64) -> Result<(u16, Vec<u8>), String> {
        let app = self.app.clone();
        let req = Request::builder().method("GET").uri(uri).body(Body::empty()).map_err(|e| e.to_string())?;
        self.rt.block_on(async move {
            let resp = app.oneshot(req).await.map_err(|e| e.to_string())?;
            let status = resp.status().as_u16();
            let mut body = resp.into_body();
            let mut out = Vec::new();
            loop {
                match tokio::time::timeout(Duration::from_millis(idle_ms), body.frame()).await {
                    Err(_) => break,
                    Ok(None) => break,
                    Ok(Some(Err(e))) => return Err(e.to_string()),
                    Ok(Some(Ok(f))) => {
                        if let Some(d) = f.data_ref() {
                            out.extend_from_slice(d);
                        }
                    }
                }
                if out.len() > 32 << 20 {
                    break;
                }
            }
            Ok((status, out))
        })
    }

    pub fn new(root: &Path, cfg: &ProviderCfg, script: Vec<Resp>, with_provider: bool) -> Result<Engine, String> {
        let _ = std::fs::remove_dir_all(root);
        let data = root.join("data");
        let ws = root.join("ws");
        std::fs::create_dir_all(&data).map_err(|e| e.to_string())?;
        std::fs::create_dir_all(&ws).map_err(|e| e.to_string())?;
        isolate_process_env(root);
        // the daemon's workspace root is its working directory; tools without an explicit cwd run there
        std::env::set_current_dir(&ws).map_err(|e| format!("chdir: {e}"))?;
        let rt = if WORKER_THREADS.load(std::sync::atomic::Ordering::SeqCst) > 0 {
            tokio::runtime::Builder::new_multi_thread().worker_threads(WORKER_THREADS.load(std::sync::atomic::Ordering::SeqCst)).enable_all().build().map_err(|e| format!("runtime: {e}"))?
        } else {
            tokio::runtime::Builder::new_current_thread().enable_all().build().map_err(|e| format!("runtime: {e}"))?
        };
        let provider = rt.block_on(start_provider(script))?;
        let or = if with_provider {
            let tc = ripd::verif_api::parse_tool_choice(&cfg.tool_choice).map_err(|e| format!("tool_choice: {e}"))?;
            Some(ripd::verif_api::OpenResponsesConfig {
                endpoint: format!("http://{}/v1/responses", provider.addr),
                api_key: cfg.api_key.clone(),
                model: Some("scripted-model".into()),
                headers: cfg.headers.clone(),
                tool_choice: tc,
                followup_user_message: cfg.followup_user_message.clone(),
                stateless_history: cfg.stateless_history,
                parallel_tool_calls: cfg.parallel_tool_calls,
            })
        } else {
            None
        };
        let (d2, w2) = (data.clone(), ws.clone());
        let app = rt.block_on(async move { ripd::verif_api::build_router(d2, w2, or, false) });
        Ok(Engine { rt, app, provider, data, ws })
    }

    pub fn call(&self, method: &str, uri: &str, body: Option<Value>) -> Result<(u16, Vec<u8>), String> {
        let app = self.app.clone();
        let req = Request::builder().method(method).uri(uri).header("content-type", "application/json").body(match body {
            Some(b) => Body::from(b.to_string()),
            None => Body::empty(),
        });
        let req = req.map_err(|e| e.to_string())?;
        self.rt.block_on(async move {
            let resp = app.oneshot(req).await.map_err(|e| e.to_string())?;
            let status = resp.status().as_u16();
            let bytes = tokio::time::timeout(Duration::from_secs(20), resp.into_body().collect()).await.map_err(|_| "response body timed out".to_string())?.map_err(|e| e.to_string())?.to_bytes().to_vec();
            Ok((status, bytes))
        })
    }

    pub fn call_json(&self, method: &str, uri: &str, body: Option<Value>) -> Result<(u16, Value), String> {
        let (s, b) = self.call(method, uri, body)?;
        Ok((s, serde_json::from_slice(&b).unwrap_or(Value::Null)))
    }

    /// Let the runtime run until `pred` holds over the parsed truth log, or the cap expires.
    pub fn wait_until(&self, cap: Duration, mut pred: impl FnMut(&crate::model::Truth) -> bool) -> Result<crate::model::Truth, String> {
        let start = Instant::now();
        let path = self.data.join("events.jsonl");
        self.rt.block_on(async {
            loop {
                if let Ok(t) = crate::model::parse_truth_file(&path) {
                    if pred(&t) {
                        return Ok(t);
                    }
                }
                if start.elapsed() > cap {
                    return Err(format!("quiescence not reached within {:?}", cap));
                }
                tokio::time::sleep(Duration::from_millis(3)).await;
            }
        })
    }

    pub fn settle(&self, ms: u64) {
        self.rt.block_on(async { tokio::time::sleep(Duration::from_millis(ms)).await });
    }

    pub fn requests(&self) -> Vec<Recorded> {
        self.provider.requests.lock().unwrap().clone()
    }
}

// ---------------------------------------------------------------------------------------------
// async gates: the simulator's control over the guarded `rip_kernel::verif::yield_async` points
// (session/task emitters, stream handlers). A task that visits a point can be held there — it
// keeps returning Pending, so every other task of the runtime runs — until a deadline, or until
// the harness releases it.

/// Tuning knobs of the code under test (rip_kernel::verif::knob): the simulator answers a
/// scenario's value for a named constant instead of the built-in one.
pub mod knobs {
    use std::sync::atomic::{AtomicUsize, Ordering};

    static EVENT_CHANNEL_CAPACITY: AtomicUsize = AtomicUsize::new(0);
    static ASKED: AtomicUsize = AtomicUsize::new(0);

    fn answer(name: &'static str, default: usize) -> usize {
        if name == "event_channel_capacity" {
            let v = EVENT_CHANNEL_CAPACITY.load(Ordering::SeqCst);
            if v > 0 {
                ASKED.fetch_add(1, Ordering::SeqCst);
                return v;
            }
        }
        default
    }

    /// 0 = built-in value
    pub fn set_event_channel_capacity(v: usize) {
        EVENT_CHANNEL_CAPACITY.store(v, Ordering::SeqCst);
        ASKED.store(0, Ordering::SeqCst);
        if v > 0 {
            rip_kernel::verif::set_knobs(answer);
        } else {
            rip_kernel::verif::clear_knobs();
        }
    }

    /// how many channels were built with the scenario's capacity since it was set
    pub fn channels_built() -> usize {
        ASKED.load(Ordering::SeqCst)
    }
}

pub mod gates {
    use std::collections::{BTreeMap, HashMap};
    use std::sync::Mutex;
    use std::time::{Duration, Instant};

    use crate::prng::Rng;

    #[derive(Clone, Debug, serde::Serialize, serde::Deserialize, PartialEq)]
    pub enum Release {
        /// held until `release_all` / `release_point` (safety cap applies)
        Manual,
        /// held for this many milliseconds of real time
        AfterMs(u64),
    }

    #[derive(Clone, Debug, serde::Serialize, serde::Deserialize, PartialEq)]
    pub struct HoldRule {
        /// point name prefix
        pub point: String,
        /// hold the n-th visit (0-based) of a matching point
        pub nth: u64,
        pub release: Release,
    }

    #[derive(Clone, Debug, Default, serde::Serialize, serde::Deserialize, PartialEq)]
    pub struct Plan {
        pub rules: Vec<HoldRule>,
        /// additionally hold any visit with probability num/den for 0..=max_ms
        pub random: Option<(u64, u64, u64, u64)>, // seed, num, den, max_ms
    }

    struct Hold {
        point: &'static str,
        until: Option<Instant>,
        cap: Instant,
        by_rule: bool,
    }

    struct State {
        plan: Plan,
        rng: Rng,
        visits: BTreeMap<&'static str, u64>,
        prefix_visits: Vec<u64>,
        holds: HashMap<String, Hold>,
        held_total: BTreeMap<&'static str, u64>,
        released: bool,
    }

    static STATE: Mutex<Option<State>> = Mutex::new(None);

    fn noop_name(_: &'static str) {}
    fn noop_addr(_: usize) {}

    /// Synchronous scheduling point (e.g. the entry of a `subscribe()`): the calling OS thread is
    /// parked here while held; the other worker threads of the runtime keep running.
    fn sync_visit(name: &'static str) {
        let key = format!("sync-{:?}", std::thread::current().id());
        loop {
            let n = visit(name, key.clone());
            if n == 0 {
                return;
            }
            std::thread::sleep(Duration::from_micros(200));
        }
    }
    fn blocked(_: usize) {
        std::thread::yield_now();
    }

    pub static ASYNC_HOOKS: rip_kernel::verif::Hooks = rip_kernel::verif::Hooks { yield_point: sync_visit, before_lock: noop_addr, lock_blocked: blocked, lock_released: noop_addr, tick: noop_name, async_yields: on_visit };

    pub fn install(plan: Plan) {
        let seed = plan.random.map(|r| r.0).unwrap_or(1);
        let n = plan.rules.len();
        *STATE.lock().unwrap() = Some(State { plan, rng: Rng::new(seed), visits: BTreeMap::new(), prefix_visits: vec![0; n], holds: HashMap::new(), held_total: BTreeMap::new(), released: false });
        rip_kernel::verif::set_hooks(&ASYNC_HOOKS);
    }

    /// Returns (visits per point, holds per point).
    pub fn uninstall() -> (BTreeMap<String, u64>, BTreeMap<String, u64>) {
        rip_kernel::verif::clear_hooks();
        let st = STATE.lock().unwrap().take();
        match st {
            Some(s) => (s.visits.iter().map(|(k, v)| (k.to_string(), *v)).collect(), s.held_total.iter().map(|(k, v)| (k.to_string(), *v)).collect()),
            None => (BTreeMap::new(), BTreeMap::new()),
        }
    }

    fn task_key() -> String {
        match tokio::task::try_id() {
            Some(id) => format!("{id}"),
            None => "root".to_string(),
        }
    }

    fn on_visit(name: &'static str) -> u32 {
        visit(name, task_key())
    }

    fn visit(name: &'static str, key: String) -> u32 {
        let Ok(mut g) = STATE.lock() else {
            return 0;
        };
        let Some(st) = g.as_mut() else {
            return 0;
        };
        let now = Instant::now();
        if let Some(h) = st.holds.get(&key) {
            let done = st.released && h.until.is_none() || h.until.map(|u| now >= u).unwrap_or(false) || now >= h.cap;
            if done {
                st.holds.remove(&key);
                return 0;
            }
            drop(g);
            // the held task re-arms its waker at once; do not spin the core at full speed
            std::thread::sleep(Duration::from_micros(60));
            return 1;
        }
        *st.visits.entry(name).or_insert(0) += 1;
        let mut hold: Option<Option<Instant>> = None;
        for (i, r) in st.plan.rules.iter().enumerate() {
            if name.starts_with(r.point.as_str()) {
                let k = st.prefix_visits[i];
                st.prefix_visits[i] += 1;
                if k == r.nth && hold.is_none() {
                    hold = Some(match r.release {
                        Release::Manual => None,
                        Release::AfterMs(ms) => Some(now + Duration::from_millis(ms)),
                    });
                }
            }
        }
        let by_rule = hold.is_some();
        if hold.is_none() {
            if let Some((_, num, den, max_ms)) = st.plan.random {
                if st.rng.chance(num, den) {
                    let ms = st.rng.range(0, max_ms);
                    hold = Some(Some(now + Duration::from_millis(ms)));
                }
            }
        }
        match hold {
            None => 0,
            Some(until) => {
                if until.is_none() && st.released {
                    return 0;
                }
                *st.held_total.entry(name).or_insert(0) += 1;
                st.holds.insert(key, Hold { point: name, until, cap: now + Duration::from_secs(5), by_rule });
                1
            }
        }
    }

    /// Number of tasks currently held at a point with this prefix by a rule (not by a random hold).
    pub fn held_at(prefix: &str) -> usize {
        STATE.lock().ok().and_then(|g| g.as_ref().map(|s| s.holds.values().filter(|h| h.point.starts_with(prefix) && h.by_rule).count())).unwrap_or(0)
    }

    /// Release every manual hold, now and for the rest of the scenario.
    pub fn release_all() {
        if let Ok(mut g) = STATE.lock() {
            if let Some(s) = g.as_mut() {
                s.released = true;
            }
        }
    }

    /// Allow manual holds again (after `release_all`).
    pub fn rearm() {
        if let Ok(mut g) = STATE.lock() {
            if let Some(s) = g.as_mut() {
                s.released = false;
            }
        }
    }
}
