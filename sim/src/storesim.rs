//! Shared plumbing for synchronous store simulations (S-sim): seam setup per run, phases of
//! concurrent actors executing operation lists against the shared `World`, restarts.

use std::path::Path;
use std::sync::Arc;

use serde::{Deserialize, Serialize};

use crate::prng::Rng;
use crate::sched::{Event, Policy, RunReport, Sim, SimConfig, Verdict};
use crate::seam;
use crate::world::{Dirs, Op, World};

#[derive(Clone, Debug, Serialize, Deserialize, PartialEq)]
pub struct SchedSpec {
    pub sched_seed: u64,
    pub policy: Policy,
    /// Explicit decision vectors per phase (set when a violation is recorded); override the PRNG.
    #[serde(default)]
    pub schedules: Option<Vec<Vec<u32>>>,
    #[serde(default = "yes")]
    pub yield_on_reads: bool,
    #[serde(default = "yes")]
    pub yield_on_locks: bool,
}
fn yes() -> bool {
    true
}

impl SchedSpec {
    pub fn generate(rng: &mut Rng, est_steps: u64) -> SchedSpec {
        let policy = match rng.below(10) {
            0..=2 => Policy::Uniform,
            3 => Policy::Sticky { stay_num: 1, stay_den: 2 },
            4 | 5 => Policy::Sticky { stay_num: 4, stay_den: 5 },
            6 => Policy::Sticky { stay_num: 19, stay_den: 20 },
            _ => {
                let d = rng.range(1, 4);
                let mut at: Vec<u64> = (0..d).map(|_| rng.below(est_steps.max(4))).collect();
                at.sort();
                Policy::Bounded { preempt_at: at }
            }
        };
        SchedSpec {
            sched_seed: rng.next_u64(),
            policy,
            schedules: None,
            yield_on_reads: rng.chance(3, 4),
            yield_on_locks: rng.chance(3, 4),
        }
    }
    pub fn config(&self, phase: u64) -> SimConfig {
        SimConfig {
            sched_seed: crate::prng::mix(self.sched_seed, phase),
            policy: self.policy.clone(),
            replay: self
                .schedules
                .as_ref()
                .and_then(|s| s.get(phase as usize).cloned()),
            yield_on_reads: self.yield_on_reads,
            yield_on_locks: self.yield_on_locks,
            ..SimConfig::default()
        }
    }
}

/// Configure the process-wide seams for one simulated run rooted at `root`.
pub fn begin_run(root: &Path, sim_seed: u64, clock_quantum_ns: u64) -> Dirs {
    seam::set_mode(seam::MODE_OFF);
    let dirs = Dirs::fresh(root);
    seam::set_root_prefix(root.to_str().unwrap_or(""));
    seam::sim_clock_enable(seam::EPOCH_NS, clock_quantum_ns, false);
    seam::sim_rand_reset(sim_seed, false);
    seam::pid_table_reset();
    seam::set_capture_data(false);
    seam::set_mode(seam::MODE_SIM);
    dirs
}

pub fn end_run() -> u64 {
    seam::set_mode(seam::MODE_OFF);
    let t = seam::sim_clock_now_ns().saturating_sub(seam::EPOCH_NS);
    seam::sim_clock_disable();
    seam::sim_rand_disable();
    seam::set_effect_handler(None);
    t
}

/// Run one closure as a single scheduled actor (sequential; simulated clock/rand apply).
pub fn run_single(name: &str, f: impl FnOnce() + Send + 'static) -> RunReport {
    let mut sim = Sim::new(SimConfig {
        policy: Policy::Sequential,
        ..SimConfig::default()
    });
    sim.actor(name, f);
    sim.run(|_| Verdict::proceed())
}

/// Run a phase: each actor executes its operation list in order.
pub fn run_phase(
    world: &Arc<World>,
    actors: &[Vec<Op>],
    actor_id_base: usize,
    cfg: SimConfig,
    observer: impl FnMut(&Event) -> Verdict,
) -> RunReport {
    let mut sim = Sim::new(cfg);
    for (i, ops) in actors.iter().enumerate() {
        let w = world.clone();
        let ops = ops.clone();
        let aid = actor_id_base + i;
        sim.actor(&format!("a{aid}"), move || {
            for (k, op) in ops.iter().enumerate() {
                let r = w.exec(aid, k, op);
                w.record(r);
            }
        });
    }
    sim.run(observer)
}

/// (Re)open the store on a fresh thread so per-thread hash seeds come from the simulated stream.
pub fn open_world(world: &Arc<World>) -> Result<(), String> {
    let w = world.clone();
    let err = Arc::new(std::sync::Mutex::new(None));
    let err2 = err.clone();
    let rep = run_single("open", move || {
        if let Err(e) = w.open() {
            *err2.lock().unwrap() = Some(e);
        }
    });
    if let Some((_, p)) = rep.panics.first() {
        return Err(format!("open panicked: {p}"));
    }
    let e = err.lock().unwrap().take();
    match e {
        Some(e) => Err(e),
        None => Ok(()),
    }
}

pub fn harness_problem(rep: &RunReport) -> Option<String> {
    if rep.watchdog_fired {
        return Some("watchdog fired (an actor never yielded)".into());
    }
    if rep.step_budget_exhausted {
        return Some("step budget exhausted".into());
    }
    None
}
