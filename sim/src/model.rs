//! Reference model of the truth log: an independent line/JSON parser (not `rip-log`) and the
//! per-stream view every oracle is computed from.

use std::collections::BTreeMap;
use std::path::Path;

use serde_json::Value;

#[derive(Clone, Debug)]
pub struct Frame {
    pub line_no: usize,
    pub offset: usize,
    pub id: String,
    pub stream_kind: String,
    pub stream_id: String,
    pub seq: u64,
    pub ts: u64,
    pub ty: String,
    pub v: Value,
}

impl Frame {
    pub fn s(&self, key: &str) -> Option<&str> {
        self.v.get(key).and_then(|v| v.as_str())
    }
    pub fn u(&self, key: &str) -> Option<u64> {
        self.v.get(key).and_then(|v| v.as_u64())
    }
    pub fn is_message(&self) -> bool {
        self.ty == "continuity_message_appended"
    }
}

#[derive(Clone, Debug, Default)]
pub struct Truth {
    pub frames: Vec<Frame>,
    pub bytes_len: usize,
    /// Trailing bytes after the last newline (a torn line), if any.
    pub torn_tail: Option<Vec<u8>>,
}

#[derive(Debug, Clone)]
pub struct ParseError {
    pub line_no: usize,
    pub offset: usize,
    pub reason: String,
}

/// Stream kind a frame type belongs to, from docs/03_contracts/event_frames.md.
pub fn expected_stream_kind(ty: &str) -> &'static str {
    if ty.starts_with("continuity_") {
        "continuity"
    } else if ty.starts_with("tool_task_") {
        "task"
    } else {
        "session"
    }
}

pub fn parse_truth_bytes(bytes: &[u8]) -> Result<Truth, ParseError> {
    let mut frames = Vec::new();
    let mut offset = 0usize;
    let mut line_no = 0usize;
    let mut torn_tail = None;
    while offset < bytes.len() {
        let rest = &bytes[offset..];
        let Some(nl) = rest.iter().position(|b| *b == b'\n') else {
            torn_tail = Some(rest.to_vec());
            break;
        };
        let line = &rest[..nl];
        let v: Value = serde_json::from_slice(line).map_err(|e| ParseError {
            line_no,
            offset,
            reason: format!("line is not JSON: {e}"),
        })?;
        let get_s = |k: &str| -> Result<String, ParseError> {
            v.get(k)
                .and_then(|x| x.as_str())
                .map(|s| s.to_string())
                .ok_or_else(|| ParseError {
                    line_no,
                    offset,
                    reason: format!("missing string field {k}"),
                })
        };
        let get_u = |k: &str| -> Result<u64, ParseError> {
            v.get(k).and_then(|x| x.as_u64()).ok_or_else(|| ParseError {
                line_no,
                offset,
                reason: format!("missing integer field {k}"),
            })
        };
        let frame = Frame {
            line_no,
            offset,
            id: get_s("id")?,
            stream_kind: get_s("stream_kind")?,
            stream_id: get_s("stream_id")?,
            seq: get_u("seq")?,
            ts: get_u("timestamp_ms")?,
            ty: get_s("type")?,
            v,
        };
        let session_id = frame.s("session_id").unwrap_or("").to_string();
        if session_id != frame.stream_id {
            return Err(ParseError {
                line_no,
                offset,
                reason: "stream_id differs from session_id".into(),
            });
        }
        if expected_stream_kind(&frame.ty) != frame.stream_kind {
            return Err(ParseError {
                line_no,
                offset,
                reason: format!(
                    "frame type {} recorded under stream kind {}",
                    frame.ty, frame.stream_kind
                ),
            });
        }
        frames.push(frame);
        offset += nl + 1;
        line_no += 1;
    }
    Ok(Truth {
        frames,
        bytes_len: bytes.len(),
        torn_tail,
    })
}

pub fn parse_truth_file(path: &Path) -> Result<Truth, ParseError> {
    let bytes = match std::fs::read(path) {
        Ok(b) => b,
        Err(e) if e.kind() == std::io::ErrorKind::NotFound => Vec::new(),
        Err(e) => {
            return Err(ParseError {
                line_no: 0,
                offset: 0,
                reason: format!("read: {e}"),
            })
        }
    };
    parse_truth_bytes(&bytes)
}

#[derive(Debug, Clone)]
pub struct OrderViolation {
    pub stream_kind: String,
    pub stream_id: String,
    pub expected: u64,
    pub got: u64,
    pub line_no: usize,
    pub ty: String,
    pub prev_ty: Option<String>,
}

impl Truth {
    /// Per (kind, id): frames in file order.
    pub fn streams(&self) -> BTreeMap<(String, String), Vec<&Frame>> {
        let mut m: BTreeMap<(String, String), Vec<&Frame>> = BTreeMap::new();
        for f in &self.frames {
            m.entry((f.stream_kind.clone(), f.stream_id.clone()))
                .or_default()
                .push(f);
        }
        m
    }

    pub fn stream(&self, kind: &str, id: &str) -> Vec<&Frame> {
        self.frames
            .iter()
            .filter(|f| f.stream_kind == kind && f.stream_id == id)
            .collect()
    }

    pub fn thread(&self, id: &str) -> Vec<&Frame> {
        self.stream("continuity", id)
    }

    pub fn thread_ids(&self) -> Vec<String> {
        let mut ids: Vec<String> = Vec::new();
        for f in &self.frames {
            if f.stream_kind == "continuity" && !ids.contains(&f.stream_id) {
                ids.push(f.stream_id.clone());
            }
        }
        ids
    }

    /// C01: every stream numbered 0,1,2,... in file order.
    pub fn first_order_violation(&self) -> Option<OrderViolation> {
        let mut next: BTreeMap<(String, String), (u64, Option<String>)> = BTreeMap::new();
        for f in &self.frames {
            let e = next
                .entry((f.stream_kind.clone(), f.stream_id.clone()))
                .or_insert((0, None));
            if f.seq != e.0 {
                return Some(OrderViolation {
                    stream_kind: f.stream_kind.clone(),
                    stream_id: f.stream_id.clone(),
                    expected: e.0,
                    got: f.seq,
                    line_no: f.line_no,
                    ty: f.ty.clone(),
                    prev_ty: e.1.clone(),
                });
            }
            e.0 += 1;
            e.1 = Some(f.ty.clone());
        }
        None
    }
}

/// Canonical JSON text (object keys sorted) for comparisons.
pub fn canon(v: &Value) -> String {
    fn go(v: &Value, out: &mut String) {
        match v {
            Value::Object(m) => {
                let mut keys: Vec<&String> = m.keys().collect();
                keys.sort();
                out.push('{');
                for (i, k) in keys.iter().enumerate() {
                    if i > 0 {
                        out.push(',');
                    }
                    out.push_str(&serde_json::to_string(k).unwrap());
                    out.push(':');
                    go(&m[*k], out);
                }
                out.push('}');
            }
            Value::Array(a) => {
                out.push('[');
                for (i, x) in a.iter().enumerate() {
                    if i > 0 {
                        out.push(',');
                    }
                    go(x, out);
                }
                out.push(']');
            }
            other => out.push_str(&serde_json::to_string(other).unwrap()),
        }
    }
    let mut s = String::new();
    go(v, &mut s);
    s
}
