//! C18 — a store never has two authorities; a live authority's lock is never taken; a store whose
//! authority crashed becomes usable again.
//!
//! The faithful single-process rendering of a multi-process race: contenders are actor threads
//! with distinct simulated pids (getpid/kill seam), each running the REAL server acquisition loop
//! (`acquire_authority_lock_with_recovery`, exported through `verif_api`) on a private paused
//! tokio runtime, on a real `authority/` directory, under the baton scheduler (every fs effect and
//! every open is a scheduling point) with the simulated clock driving its deadlines and the
//! corrupt-lock grace period. Crash = liveness flip + leaked guard.

use std::collections::BTreeMap;
use std::sync::{Arc, Mutex};

use serde::{Deserialize, Serialize};
use serde_json::{json, Value};

use crate::driver::{Budget, Check, Env, Outcome, RunStats, Tier, Violation};
use crate::prng::Rng;
use crate::sched::{Point, Sim, Verdict};
use crate::seam::{self, EffectKind};
use crate::storesim::{self, SchedSpec};

#[derive(Clone, Debug, Serialize, Deserialize, PartialEq)]
pub enum Initial {
    Nothing,
    DeadLock,
    DeadLockAndMeta,
    HalfWrittenLock,
    EmptyLock,
    LiveLock { with_meta: bool },
    DeadMetaOnly,
    /// meta of a dead pid next to the lock of a live one (a cleaner stopped half-way)
    DeadMetaLiveLock,
    /// lock and meta of a live authority written in a record layout this build cannot parse
    /// (version skew): valid JSON, wrong shape
    LiveForeignLayout,
    /// lock and meta of an authority that answers on its advertised endpoint while its pid has no
    /// process this contender can see (another pid namespace, a shared store): it is alive — both
    /// recovery loops ask the endpoint first — and must be left alone. Real-time scenario, see
    /// `execute_reachable`.
    ReachableInvisiblePid,
    /// no leftover files: a real authority process (the daemon's own `serve`) is started, clients
    /// hold event streams open, it is told to shut down (SIGTERM) and a supervisor keeps starting a
    /// successor. Real processes, real time; see `execute_handover`.
    ServeShutdownHandover { streams: u8, term_after_ms: u64, restart_every_ms: u64 },
}

#[derive(Clone, Debug, Serialize, Deserialize, PartialEq)]
pub struct Contender {
    /// steps (explicit yields) to wait before starting
    pub start_delay: u32,
    /// what it does once it holds the role
    pub write_meta: bool,
    pub hold_steps: u32,
    /// true = crash while holding (guard leaked, pid dead); false = orderly release
    pub crash: bool,
    /// true = this contender is a client: it runs rip-cli's attach / recovery loop (compiled from
    /// the repository's own source file), which cleans up stale files and spawns an authority but
    /// never takes the role itself
    #[serde(default)]
    pub client: bool,
}

#[derive(Clone, Debug, Serialize, Deserialize, PartialEq)]
pub struct Scenario {
    pub sim_seed: u64,
    pub clock_quantum_ms: u64,
    pub initial: Initial,
    pub contenders: Vec<Contender>,
    pub sched: SchedSpec,
    /// clock jump (ms) applied at a chosen step of the schedule
    pub clock_jump: Option<(u64, u64)>,
}

pub struct C18;

pub fn generate(run_seed: u64, tier: Tier) -> Scenario {
    let mut rng = Rng::derive(run_seed, "ops");
    let n = rng.range(2, if tier == Tier::Quick { 3 } else { 5 }) as usize;
    let contenders = (0..n)
        .map(|_| Contender {
            start_delay: rng.below(6) as u32,
            write_meta: rng.chance(3, 4),
            hold_steps: rng.below(6) as u32,
            crash: rng.chance(1, 2),
            client: false,
        })
        .collect();
    let mut contenders: Vec<Contender> = contenders;
    // up to one client contender, never the only contender
    if contenders.len() >= 2 && rng.chance(1, 4) {
        let k = rng.usize_below(contenders.len());
        contenders[k].client = true;
    }
    let initial = match rng.below(13) {
        12 => Initial::LiveForeignLayout,
        0..=2 => Initial::Nothing,
        3 | 4 => Initial::DeadLock,
        5 | 6 => Initial::DeadLockAndMeta,
        7 => Initial::HalfWrittenLock,
        8 => Initial::EmptyLock,
        9 => Initial::LiveLock { with_meta: rng.chance(1, 2) },
        10 => Initial::DeadMetaOnly,
        _ => Initial::DeadMetaLiveLock,
    };
    // own sub-stream, so the draws above are what they were before this state existed
    let mut rr = Rng::derive(run_seed, "c18:reachable");
    let initial = if rr.chance(1, 16) {
        if let Some(c) = contenders.first_mut() {
            c.client = rr.chance(2, 3);
        }
        Initial::ReachableInvisiblePid
    } else {
        initial
    };
    let mut hr = Rng::derive(run_seed, "c18:handover");
    let initial = if hr.chance(1, 90) { Initial::ServeShutdownHandover { streams: hr.range(1, 2) as u8, term_after_ms: hr.below(40), restart_every_ms: hr.range(10, 40) } } else { initial };
    let mut srng = Rng::derive(run_seed, "sched-spec");
    let mut sched = SchedSpec::generate(&mut srng, 300);
    sched.yield_on_reads = true;
    Scenario {
        sim_seed: crate::prng::mix_label(run_seed, "sim"),
        clock_quantum_ms: *rng.pick(&[1u64, 2, 4]),
        initial,
        contenders,
        sched,
        clock_jump: if rng.chance(1, 6) { Some((rng.below(200), *rng.pick(&[500u64, 1500, 5000]))) } else { None },
    }
}

#[derive(Default)]
struct Shared {
    /// pids currently holding the role (alive, acquired, not yet releasing)
    holders: Vec<i32>,
    /// pid that created the current lock.json (None after it was removed/renamed away)
    lock_creator: Option<i32>,
    meta_writer: Option<i32>,
    crashed: Vec<i32>,
    released: Vec<i32>,
    violation: Option<Violation>,
    /// what each actor saw the last time it opened lock.json / meta.json for reading
    last_seen_lock: BTreeMap<usize, Option<i32>>,
    last_seen_meta: BTreeMap<usize, Option<i32>>,
    /// a takeover of the listed stale-read shape already happened in this run
    stale_read_takeover: bool,
    /// actor whose point was released last (the only one that ran since the previous observation)
    prev_actor: Option<usize>,
    /// actors with an exclusive create of lock.json in flight
    pending_excl: Vec<usize>,
    acquired: u32,
    refused: u32,
    log: Vec<String>,
    /// step at which the current meta.json came into being (None = no meta.json)
    meta_since: Option<u64>,
    /// step of each actor's last read of lock.json
    last_lock_read_step: BTreeMap<usize, u64>,
}

const EXTERNAL_LIVE_PID: i32 = seam::FAKE_PID_BASE + 900;
const EXTERNAL_DEAD_PID: i32 = seam::FAKE_PID_BASE + 901;

fn pid_of(actor: usize) -> i32 {
    seam::FAKE_PID_BASE + 1 + actor as i32
}

/// The reachable-endpoint state cannot run under the baton scheduler's paused runtimes (a paused
/// tokio clock fires the ping's timeout the moment the runtime idles on the socket), so it runs in
/// real time: contenders are plain threads with simulated pids (kill/getpid seam), the authority is
/// a loop-back responder that answers every request, the libc seam observes. Nothing here is
/// expected to write: a client must attach to the advertised endpoint, a server must be refused,
/// lock.json and meta.json must keep their bytes. A failing attempt is repeated once and only
/// reported when it fails again (the ping has a real 250 ms timeout).
fn execute_reachable(sc: &Scenario, env: &Env) -> (Outcome, RunStats) {
    let mut stats = RunStats::default();
    stats.bump("initial:ReachableInvisiblePid", 1);
    stats.case_hash = crate::prng::fnv1a(serde_json::to_string(sc).unwrap_or_default().as_bytes());
    stats.nontrivial = true;
    let mut last: Option<Violation> = None;
    for attempt in 0..2 {
        match reachable_attempt(sc, env, &mut stats) {
            Ok(None) => {
                if attempt > 0 {
                    stats.bump("reachable_state_first_attempt_not_reproduced", 1);
                }
                return (Outcome::Ok, stats);
            }
            Ok(Some(v)) => last = Some(v),
            Err(e) => return (Outcome::Harness(e), stats),
        }
    }
    (Outcome::Violation(last.unwrap()), stats)
}

fn reachable_attempt(sc: &Scenario, env: &Env, stats: &mut RunStats) -> Result<Option<Violation>, String> {
    use std::io::{Read, Write};
    use std::sync::atomic::{AtomicBool, Ordering};
    let base = env.root.join("r");
    let _ = std::fs::remove_dir_all(&base);
    let (data, ws) = (base.join("data"), base.join("ws"));
    let auth = data.join("authority");
    std::fs::create_dir_all(&auth).map_err(|e| e.to_string())?;
    std::fs::create_dir_all(&ws).map_err(|e| e.to_string())?;
    // the authority: answers every request on loop-back
    let listener = std::net::TcpListener::bind("127.0.0.1:0").map_err(|e| e.to_string())?;
    let addr = listener.local_addr().map_err(|e| e.to_string())?;
    let stop = Arc::new(AtomicBool::new(false));
    let served = Arc::new(std::sync::atomic::AtomicU64::new(0));
    let mut responders = Vec::new();
    for _ in 0..3 {
        let (l, st, sv) = (listener.try_clone().map_err(|e| e.to_string())?, stop.clone(), served.clone());
        responders.push(std::thread::spawn(move || {
            while let Ok((mut c, _)) = l.accept() {
                if st.load(Ordering::SeqCst) {
                    break;
                }
                let mut buf = [0u8; 2048];
                let _ = c.read(&mut buf);
                let _ = c.write_all(b"HTTP/1.1 200 OK\r\ncontent-type: application/json\r\ncontent-length: 2\r\nconnection: close\r\n\r\n{}");
                sv.fetch_add(1, Ordering::SeqCst);
            }
        }));
    }
    let endpoint = format!("http://{addr}");
    let ws_s = ws.to_string_lossy().to_string();
    seam::pid_set_alive(EXTERNAL_DEAD_PID, false);
    let lock_bytes = format!("{}\n", json!({"pid": EXTERNAL_DEAD_PID, "started_at_ms": 1_799_999_000_000u64, "workspace_root": ws_s}));
    let meta_bytes = format!("{}", json!({"endpoint": endpoint, "pid": EXTERNAL_DEAD_PID, "started_at_ms": 1_799_999_000_000u64, "workspace_root": ws_s}));
    std::fs::write(auth.join("lock.json"), &lock_bytes).map_err(|e| e.to_string())?;
    std::fs::write(auth.join("meta.json"), &meta_bytes).map_err(|e| e.to_string())?;
    std::env::set_var("RIP_DATA_DIR", &data);
    std::env::set_var("RIP_WORKSPACE_ROOT", &ws);
    let results: Arc<Mutex<Vec<(usize, bool, Result<String, String>)>>> = Arc::new(Mutex::new(Vec::new()));
    let mut threads = Vec::new();
    for (i, c) in sc.contenders.iter().enumerate() {
        let (c, data, ws, res) = (c.clone(), data.clone(), ws.clone(), results.clone());
        threads.push(std::thread::spawn(move || {
            let pid = pid_of(i);
            seam::set_fake_pid(pid);
            seam::pid_set_alive(pid, true);
            std::thread::sleep(std::time::Duration::from_millis(c.start_delay as u64));
            let rt = match tokio::runtime::Builder::new_current_thread().enable_all().build() {
                Ok(r) => r,
                Err(e) => {
                    res.lock().unwrap().push((i, c.client, Err(format!("runtime: {e}"))));
                    return;
                }
            };
            let r = if c.client {
                rt.block_on(crate::cli_local_authority::ensure_local_authority()).map_err(|e| e.to_string())
            } else {
                rt.block_on(ripd::verif_api::acquire_authority_lock_with_recovery(&data, &ws)).map(|g| {
                    // it must not get here; keep the files as they are for the report
                    std::mem::forget(g);
                    "acquired".to_string()
                })
            };
            res.lock().unwrap().push((i, c.client, r));
            seam::set_fake_pid(0);
        }));
    }
    for t in threads {
        let _ = t.join();
    }
    stop.store(true, Ordering::SeqCst);
    for _ in 0..responders.len() {
        let _ = std::net::TcpStream::connect(addr);
    }
    for r in responders {
        let _ = r.join();
    }
    std::env::remove_var("RIP_DATA_DIR");
    std::env::remove_var("RIP_WORKSPACE_ROOT");
    unsafe {
        let mut status = 0;
        while libc::waitpid(-1, &mut status, libc::WNOHANG) > 0 {}
    }
    stats.bump("reachable_state_pings_served", served.load(Ordering::SeqCst));
    let lock_now = std::fs::read_to_string(auth.join("lock.json")).ok();
    let meta_now = std::fs::read_to_string(auth.join("meta.json")).ok();
    let res = results.lock().unwrap().clone();
    let summary: Vec<String> = res.iter().map(|(i, client, r)| format!("{} pid {}: {}", if *client { "client" } else { "server" }, pid_of(*i), match r { Ok(s) => format!("ok({s})"), Err(e) => format!("err({})", e.chars().take(70).collect::<String>()) })).collect();
    if lock_now.as_deref() != Some(lock_bytes.as_str()) || meta_now.as_deref() != Some(meta_bytes.as_str()) {
        let which = if lock_now.as_deref() != Some(lock_bytes.as_str()) { "lock.json" } else { "meta.json" };
        return Ok(Some(Violation { class: "live_authority_files_taken".into(), signature: format!("live_authority_files_taken:{which}:reachable_endpoint_invisible_pid"), detail: format!("the authority advertised in meta.json answers on {endpoint} (its pid {EXTERNAL_DEAD_PID} is not visible to the contenders), yet {which} was removed or replaced; contenders: {summary:?}") }));
    }
    for (i, client, r) in &res {
        match (client, r) {
            (true, Ok(e)) if *e == endpoint => stats.bump("reachable_state_client_attached", 1),
            (true, other) => {
                return Ok(Some(Violation { class: "reachable_authority_not_attached".into(), signature: "reachable_authority_not_attached:client".into(), detail: format!("client pid {} did not attach to the reachable authority {endpoint}: {other:?}", pid_of(*i)) }));
            }
            (false, Ok(_)) => {
                return Ok(Some(Violation { class: "two_authorities".into(), signature: "two_authorities:next_to_reachable_authority".into(), detail: format!("server contender pid {} acquired the role although the advertised authority answers on {endpoint}; contenders: {summary:?}", pid_of(*i)) }));
            }
            (false, Err(_)) => stats.bump("refused", 1),
        }
    }
    Ok(None)
}

/// One request on a fresh connection, `Connection: close`; returns status and body.
fn http_once(addr: &str, method: &str, path: &str) -> Option<(u16, String)> {
    use std::io::{Read, Write};
    let mut c = std::net::TcpStream::connect(addr).ok()?;
    c.set_read_timeout(Some(std::time::Duration::from_secs(5))).ok()?;
    write!(c, "{method} {path} HTTP/1.1\r\nhost: {addr}\r\nconnection: close\r\ncontent-length: 0\r\n\r\n").ok()?;
    let mut buf = Vec::new();
    let _ = c.read_to_end(&mut buf);
    let text = String::from_utf8_lossy(&buf).to_string();
    let status = text.split(' ').nth(1)?.parse().ok()?;
    let body = text.split("\r\n\r\n").nth(1).unwrap_or("").to_string();
    Some((status, body))
}

fn child_running(c: &mut std::process::Child) -> bool {
    matches!(c.try_wait(), Ok(None))
}

fn lock_pid(auth: &std::path::Path) -> Option<i64> {
    let t = std::fs::read_to_string(auth.join("lock.json")).ok()?;
    serde_json::from_str::<Value>(&t).ok()?.get("pid")?.as_i64()
}

/// Shutdown hand-over with real processes: authority A (`ripsim serve-real` = the daemon's `serve`)
/// advertises its endpoint, clients open event streams and keep them open, A gets SIGTERM, a
/// supervisor starts successors until one keeps the role. Invariant (never two authorities): once a
/// successor holds the lock, A must be gone — it is a violation when A is still running with a
/// client stream still open 600 ms after the successor's lock record was seen (A's own drain of
/// open streams lasts up to 2 s, so an authority that gives the role away before it stopped
/// serving is caught well inside that window; an authority that releases last exits within
/// milliseconds of the release).
fn execute_handover(sc: &Scenario, env: &Env, streams: u8, term_after_ms: u64, restart_every_ms: u64) -> (Outcome, RunStats) {
    use std::io::{Read, Write};
    use std::time::{Duration, Instant};
    let mut stats = RunStats::default();
    stats.bump("initial:ServeShutdownHandover", 1);
    stats.case_hash = crate::prng::fnv1a(serde_json::to_string(sc).unwrap_or_default().as_bytes());
    stats.nontrivial = true;
    let base = env.root.join("h");
    let _ = std::fs::remove_dir_all(&base);
    let (data, ws) = (base.join("data"), base.join("ws"));
    let auth = data.join("authority");
    if std::fs::create_dir_all(&data).is_err() || std::fs::create_dir_all(&ws).is_err() {
        return (Outcome::Harness("mkdir".into()), stats);
    }
    let exe = match std::env::current_exe() {
        Ok(e) => e,
        Err(e) => return (Outcome::Harness(format!("exe: {e}")), stats),
    };
    let spawn = || {
        std::process::Command::new(&exe)
            .arg("serve-real")
            .env("RIP_DATA_DIR", &data)
            .env("RIP_WORKSPACE_ROOT", &ws)
            .env("RIP_SERVER_ADDR", "127.0.0.1:0")
            .env("HOME", base.join("home"))
            .current_dir(&ws)
            .stdin(std::process::Stdio::null())
            .stdout(std::process::Stdio::null())
            .stderr(std::process::Stdio::null())
            .spawn()
    };
    let mut children: Vec<std::process::Child> = Vec::new();
    let finish = |children: &mut Vec<std::process::Child>, o: Outcome, stats: RunStats| {
        for c in children.iter_mut() {
            let _ = c.kill();
            let _ = c.wait();
        }
        (o, stats)
    };
    let mut a = match spawn() {
        Ok(c) => c,
        Err(e) => return (Outcome::Harness(format!("spawn: {e}")), stats),
    };
    let a_pid = a.id() as i64;
    // wait for A's endpoint advertisement
    let t0 = Instant::now();
    let endpoint = loop {
        if let Ok(t) = std::fs::read_to_string(auth.join("meta.json")) {
            if let Some(e) = serde_json::from_str::<Value>(&t).ok().and_then(|v| v.get("endpoint").and_then(|e| e.as_str()).map(|s| s.to_string())) {
                break e;
            }
        }
        if t0.elapsed() > Duration::from_secs(15) || !child_running(&mut a) {
            children.push(a);
            return finish(&mut children, Outcome::Harness("the authority process did not advertise an endpoint".into()), stats);
        }
        std::thread::sleep(Duration::from_millis(5));
    };
    let addr = endpoint.trim_start_matches("http://").to_string();
    // clients: open event streams and keep them
    let mut open_streams: Vec<std::net::TcpStream> = Vec::new();
    for _ in 0..streams {
        let sid = http_once(&addr, "POST", "/sessions").and_then(|(st, b)| if st == 201 { serde_json::from_str::<Value>(&b).ok() } else { None }).and_then(|v| v.get("session_id").and_then(|s| s.as_str()).map(|s| s.to_string()));
        let Some(sid) = sid else {
            children.push(a);
            return finish(&mut children, Outcome::Harness("could not create a session on the authority".into()), stats);
        };
        let Ok(mut c) = std::net::TcpStream::connect(&addr) else {
            children.push(a);
            return finish(&mut children, Outcome::Harness("connect".into()), stats);
        };
        let _ = write!(c, "GET /sessions/{sid}/events HTTP/1.1\r\nhost: {addr}\r\naccept: text/event-stream\r\n\r\n");
        let _ = c.set_read_timeout(Some(Duration::from_secs(5)));
        let mut head = [0u8; 256];
        let _ = c.read(&mut head);
        let _ = c.set_nonblocking(true);
        open_streams.push(c);
    }
    let stream_open = |c: &mut std::net::TcpStream| -> bool {
        let mut buf = [0u8; 4096];
        loop {
            match c.read(&mut buf) {
                Ok(0) => return false,
                Ok(_) => continue,
                Err(e) if e.kind() == std::io::ErrorKind::WouldBlock => return true,
                Err(_) => return false,
            }
        }
    };
    std::thread::sleep(Duration::from_millis(term_after_ms));
    unsafe {
        libc::syscall(libc::SYS_kill, a_pid as libc::pid_t, libc::SIGTERM);
    }
    stats.bump("fault:authority_told_to_shut_down_with_open_streams", 1);
    // supervisor: keep starting successors until one holds the lock
    let t_term = Instant::now();
    let mut successor_pid: Option<i64> = None;
    let mut last_spawn = Instant::now() - Duration::from_secs(1);
    while t_term.elapsed() < Duration::from_secs(12) {
        if let Some(p) = lock_pid(&auth) {
            if p != a_pid && children.iter().any(|c| c.id() as i64 == p) {
                successor_pid = Some(p);
                break;
            }
        }
        if last_spawn.elapsed() >= Duration::from_millis(restart_every_ms) {
            children.retain_mut(|c| child_running(c));
            if children.len() < 3 {
                if let Ok(c) = spawn() {
                    children.push(c);
                    stats.bump("successor_starts", 1);
                }
            }
            last_spawn = Instant::now();
        }
        std::thread::sleep(Duration::from_millis(2));
    }
    let Some(succ) = successor_pid else {
        children.push(a);
        return finish(&mut children, Outcome::Violation(Violation { class: "store_not_recovered".into(), signature: "store_not_recovered:after_orderly_shutdown".into(), detail: format!("authority pid {a_pid} was told to shut down; no successor could take the role within 12 s") }), stats);
    };
    let took_ms = t_term.elapsed().as_millis();
    stats.bump("handover_completed", 1);
    let at_takeover = child_running(&mut a) && open_streams.iter_mut().any(|c| stream_open(c));
    let mut verdict = None;
    if at_takeover {
        std::thread::sleep(Duration::from_millis(600));
        let still = child_running(&mut a) && open_streams.iter_mut().any(|c| stream_open(c));
        if still {
            verdict = Some(Violation {
                class: "two_authorities".into(),
                signature: "two_authorities:old_authority_still_serving_after_handover".into(),
                detail: format!("authority pid {a_pid} got SIGTERM with {} client stream(s) open; successor pid {succ} held lock.json {took_ms} ms later, and 600 ms after that the old authority was still running with a client stream still open (it gave the role away before it stopped serving)", open_streams.len()),
            });
        } else {
            stats.bump("old_authority_seen_alive_at_takeover_but_gone_600ms_later", 1);
        }
    }
    children.push(a);
    match verdict {
        Some(v) => finish(&mut children, Outcome::Violation(v), stats),
        None => finish(&mut children, Outcome::Ok, stats),
    }
}

pub fn execute(sc: &Scenario, env: &Env) -> (Outcome, RunStats) {
    if sc.initial == Initial::ReachableInvisiblePid {
        return execute_reachable(sc, env);
    }
    if let Initial::ServeShutdownHandover { streams, term_after_ms, restart_every_ms } = &sc.initial {
        return execute_handover(sc, env, *streams, *term_after_ms, *restart_every_ms);
    }
    let mut stats = RunStats::default();
    let dirs = storesim::begin_run(&env.root, sc.sim_seed, sc.clock_quantum_ms * 1_000_000);
    let data = dirs.data.clone();
    let ws = dirs.workspace.clone();
    let auth = data.join("authority");
    std::fs::create_dir_all(&auth).ok();
    seam::pid_set_alive(EXTERNAL_LIVE_PID, true);
    seam::pid_set_alive(EXTERNAL_DEAD_PID, false);
    let ws_s = ws.to_string_lossy().to_string();
    // the client loop takes its store and workspace from the environment, as the CLI does
    std::env::set_var("RIP_DATA_DIR", &data);
    std::env::set_var("RIP_WORKSPACE_ROOT", &ws);
    if sc.contenders.iter().any(|c| c.client) {
        stats.bump("client_contenders", 1);
    }
    let lock_json = |pid: i32| format!("{}\n", json!({"pid": pid, "started_at_ms": 1_799_999_000_000u64, "workspace_root": ws_s}));
    let meta_json = |pid: i32| format!("{}", json!({"endpoint": "not-a-url", "pid": pid, "started_at_ms": 1_799_999_000_000u64, "workspace_root": ws_s}));
    let shared = Arc::new(Mutex::new(Shared::default()));
    match &sc.initial {
        Initial::Nothing => {}
        Initial::DeadLock => {
            std::fs::write(auth.join("lock.json"), lock_json(EXTERNAL_DEAD_PID)).ok();
            shared.lock().unwrap().lock_creator = Some(EXTERNAL_DEAD_PID);
        }
        Initial::DeadLockAndMeta => {
            std::fs::write(auth.join("lock.json"), lock_json(EXTERNAL_DEAD_PID)).ok();
            std::fs::write(auth.join("meta.json"), meta_json(EXTERNAL_DEAD_PID)).ok();
            shared.lock().unwrap().lock_creator = Some(EXTERNAL_DEAD_PID);
        }
        Initial::HalfWrittenLock => {
            std::fs::write(auth.join("lock.json"), "{\"pid\": 42").ok();
            shared.lock().unwrap().lock_creator = Some(EXTERNAL_DEAD_PID);
        }
        Initial::EmptyLock => {
            std::fs::write(auth.join("lock.json"), "").ok();
            shared.lock().unwrap().lock_creator = Some(EXTERNAL_DEAD_PID);
        }
        Initial::LiveLock { with_meta } => {
            std::fs::write(auth.join("lock.json"), lock_json(EXTERNAL_LIVE_PID)).ok();
            if *with_meta {
                std::fs::write(auth.join("meta.json"), meta_json(EXTERNAL_LIVE_PID)).ok();
            }
            let mut g = shared.lock().unwrap();
            g.lock_creator = Some(EXTERNAL_LIVE_PID);
            g.holders.push(EXTERNAL_LIVE_PID);
        }
        Initial::DeadMetaOnly => {
            std::fs::write(auth.join("meta.json"), meta_json(EXTERNAL_DEAD_PID)).ok();
        }
        Initial::LiveForeignLayout => {
            std::fs::write(auth.join("lock.json"), format!("{}\n", json!({"v": 2, "owner": {"process": EXTERNAL_LIVE_PID, "since": 1_799_999_000_000u64}, "root": ws_s}))).ok();
            std::fs::write(auth.join("meta.json"), format!("{}", json!({"v": 2, "url": "not-a-url", "owner": {"process": EXTERNAL_LIVE_PID}}))).ok();
            let mut g = shared.lock().unwrap();
            g.lock_creator = Some(EXTERNAL_LIVE_PID);
            g.holders.push(EXTERNAL_LIVE_PID);
        }
        Initial::ReachableInvisiblePid | Initial::ServeShutdownHandover { .. } => {}
        Initial::DeadMetaLiveLock => {
            std::fs::write(auth.join("lock.json"), lock_json(EXTERNAL_LIVE_PID)).ok();
            std::fs::write(auth.join("meta.json"), meta_json(EXTERNAL_DEAD_PID)).ok();
            let mut g = shared.lock().unwrap();
            g.lock_creator = Some(EXTERNAL_LIVE_PID);
            g.holders.push(EXTERNAL_LIVE_PID);
        }
    }
    if auth.join("meta.json").exists() {
        shared.lock().unwrap().meta_since = Some(0);
    }
    stats.bump(&format!("initial:{:?}", std::mem::discriminant(&sc.initial)).replace("Discriminant", ""), 1);

    let mut cfg = sc.sched.config(1);
    // the protocol's own assumption: no live contender stalls longer than the corrupt-lock grace
    // period (1 s) between two of its file-system steps; the fairness bound keeps stalls well below
    cfg.max_starvation = 40;
    let mut sim = Sim::new(cfg);
    for (i, c) in sc.contenders.iter().enumerate() {
        let (sh, c, data, ws) = (shared.clone(), c.clone(), data.clone(), ws.clone());
        sim.actor(&format!("contender{i}"), move || {
            let pid = pid_of(i);
            seam::set_fake_pid(pid);
            seam::pid_set_alive(pid, true);
            for _ in 0..c.start_delay {
                rip_kernel::verif::yield_point("start_delay");
            }
            let rt = match tokio::runtime::Builder::new_current_thread().enable_all().start_paused(true).build() {
                Ok(r) => r,
                Err(_) => return,
            };
            if c.client {
                let r = rt.block_on(crate::cli_local_authority::ensure_local_authority());
                let mut g = sh.lock().unwrap();
                g.log.push(format!("client pid {pid} ended: {}", match r { Ok(e) => format!("attached to {e}"), Err(e) => e.to_string().chars().take(50).collect::<String>() }));
                drop(g);
                seam::set_fake_pid(0);
                return;
            }
            let res = rt.block_on(ripd::verif_api::acquire_authority_lock_with_recovery(&data, &ws));
            match res {
                Ok(guard) => {
                    {
                        let mut g = sh.lock().unwrap();
                        g.acquired += 1;
                        g.log.push(format!("pid {pid} acquired"));
                        let others: Vec<i32> = g.holders.iter().copied().filter(|p| *p != pid).collect();
                        if !others.is_empty() && g.violation.is_none() {
                            g.violation = Some(Violation {
                                class: "two_authorities".into(),
                                signature: format!("two_authorities{}", if g.stale_read_takeover { ":after_stale_read_takeover" } else { "" }),
                                detail: format!("contender pid {pid} acquired the authority role while pid(s) {others:?} still hold it and are alive; events: {:?}", g.log),
                            });
                        }
                        g.holders.push(pid);
                    }
                    if c.write_meta {
                        let _ = guard.write_meta("not-a-url");
                    }
                    for _ in 0..c.hold_steps {
                        rip_kernel::verif::yield_point("holding");
                    }
                    if c.crash {
                        {
                            let mut g = sh.lock().unwrap();
                            g.holders.retain(|p| *p != pid);
                            g.crashed.push(pid);
                            g.log.push(format!("pid {pid} crashed while holding"));
                        }
                        seam::pid_set_alive(pid, false);
                        std::mem::forget(guard);
                    } else {
                        {
                            let mut g = sh.lock().unwrap();
                            g.holders.retain(|p| *p != pid);
                            g.released.push(pid);
                            g.log.push(format!("pid {pid} releasing"));
                        }
                        drop(guard);
                    }
                }
                Err(e) => {
                    let mut g = sh.lock().unwrap();
                    g.refused += 1;
                    g.log.push(format!("pid {pid} refused: {}", e.chars().take(60).collect::<String>()));
                }
            }
            seam::set_fake_pid(0);
        });
    }
    let sh2 = shared.clone();
    let lock_path = auth.join("lock.json").to_string_lossy().to_string();
    let meta_path = auth.join("meta.json").to_string_lossy().to_string();
    let jump = sc.clock_jump;
    let rep = sim.run(move |ev| {
        if let Some((at, ms)) = jump {
            if ev.step == at {
                seam::sim_clock_advance(ms * 1_000_000);
            }
        }
        let dummy = crate::seam::Effect { kind: EffectKind::Fsync, path: String::new(), path2: None, fd: -1, flags: 0, len: 0, data: None };
        let e = match &ev.point {
            Point::Fs(e) => e,
            _ => &dummy,
        };
        let actor_pid = pid_of(ev.actor);
        let mut g = sh2.lock().unwrap();
        // reconcile: an exclusive create released at the previous step may have succeeded
        if let Some(pa) = g.prev_actor {
            if g.pending_excl.contains(&pa) {
                g.pending_excl.retain(|a| *a != pa);
                if g.lock_creator.is_none() && std::path::Path::new(&lock_path).exists() {
                    g.lock_creator = Some(pid_of(pa));
                    g.log.push(format!("pid {} creates lock.json", pid_of(pa)));
                }
            }
        }
        g.prev_actor = Some(ev.actor);
        let on_lock = e.path == lock_path;
        let onto_lock = e.path2.as_deref() == Some(lock_path.as_str());
        let on_meta = e.path == meta_path;
        let onto_meta = e.path2.as_deref() == Some(meta_path.as_str());
        match e.kind {
            EffectKind::OpenRead if on_lock => {
                let c = g.lock_creator;
                g.last_seen_lock.insert(ev.actor, c);
                g.last_lock_read_step.insert(ev.actor, ev.step);
            }
            EffectKind::OpenRead if on_meta => {
                let c = g.meta_writer;
                g.last_seen_meta.insert(ev.actor, c);
            }
            EffectKind::OpenCreate | EffectKind::OpenWrite if on_lock && e.flags & libc::O_EXCL != 0 => {
                // whether it succeeds is only known once it has run (the file may appear or
                // disappear while this actor is parked)
                g.pending_excl.push(ev.actor);
            }
            EffectKind::Rename | EffectKind::Unlink if on_lock || on_meta => {
                let (owner, what) = if on_lock { (g.lock_creator, "lock.json") } else { (g.meta_writer, "meta.json") };
                g.log.push(format!("pid {actor_pid} {} {what}", if e.kind == EffectKind::Rename { "renames away" } else { "unlinks" }));
                if let Some(o) = owner {
                    // the file of an authority that is alive and has neither crashed nor started to release
                    let live_owner = o != actor_pid && !g.crashed.contains(&o) && !g.released.contains(&o) && o != EXTERNAL_DEAD_PID && (g.holders.contains(&o) || o == EXTERNAL_LIVE_PID || is_contender_alive(o));
                    // did this actor decide on the basis of the live owner's own file, or of an
                    // older file that has since been replaced (read-then-rename-by-path window)?
                    let seen = if on_lock { g.last_seen_lock.get(&ev.actor).copied().flatten() } else { g.last_seen_meta.get(&ev.actor).copied().flatten() };
                    let shape = if seen == Some(o) { "decided_on_live_owners_file" } else { "stale_read_then_rename_by_path" };
                    let via_corrupt = e.path2.as_deref().map(|t| t.contains(".corrupt-")).unwrap_or(false);
                    if live_owner && (shape == "stale_read_then_rename_by_path" || via_corrupt) {
                        g.stale_read_takeover = true;
                    }
                    if live_owner && g.violation.is_none() {
                        g.violation = Some(Violation {
                            class: "live_authority_files_taken".into(),
                            signature: format!(
                                "live_authority_files_taken:{what}:{shape}:{}",
                                match e.path2.as_deref() {
                                    // a corrupt-lock cleanup is only ever legitimate when no endpoint record exists
                                    // a corrupt-lock cleanup is only legitimate when no endpoint
                                    // record exists; one that was already there when this actor
                                    // last looked at the lock must have stopped it, one that
                                    // appeared afterwards is the read-then-act window again
                                    Some(t) if t.contains(".corrupt-") => {
                                        let present = std::path::Path::new(&e.path).with_file_name("meta.json").exists();
                                        let decided_at = g.last_lock_read_step.get(&ev.actor).copied().unwrap_or(0);
                                        match (present, g.meta_since) {
                                            (true, Some(since)) if since < decided_at => "via_corrupt_cleanup:meta_present_before_decision",
                                            (true, _) => "via_corrupt_cleanup:meta_appeared_late",
                                            _ => "via_corrupt_cleanup:meta_absent",
                                        }
                                    }
                                    Some(t) if t.contains(".stale-") => "via_stale_cleanup",
                                    Some(_) => "via_other_rename",
                                    None => "via_unlink",
                                }
                            ),
                            detail: format!("pid {actor_pid} {} {what} which belongs to pid {o}, alive and not released; events: {:?}", if e.kind == EffectKind::Rename { "renamed away" } else { "removed" }, g.log),
                        });
                    }
                }
                if on_lock {
                    g.lock_creator = None;
                } else {
                    g.meta_writer = None;
                    g.meta_since = None;
                }
            }
            EffectKind::Rename if onto_meta => {
                g.meta_writer = Some(actor_pid);
                g.meta_since = Some(ev.step);
            }
            EffectKind::Rename if onto_lock => {
                g.lock_creator = Some(actor_pid);
            }
            _ => {}
        }
        Verdict::proceed()
    });
    stats.bump("sched_points", rep.steps);
    stats.bump("context_switches", rep.context_switches);
    stats.case_hash = rep.trace_hash;
    stats.nontrivial = rep.context_switches >= 2;
    if sc.clock_jump.is_some() {
        stats.bump("fault:clock_jump", 1);
    }
    let fin = |o: Outcome, mut stats: RunStats| {
        stats.sim_time_ns = storesim::end_run();
        std::env::remove_var("RIP_DATA_DIR");
        std::env::remove_var("RIP_WORKSPACE_ROOT");
        // reap the no-op authority processes the client loop spawned
        unsafe {
            let mut status = 0;
            while libc::waitpid(-1, &mut status, libc::WNOHANG) > 0 {}
        }
        (o, stats)
    };
    if let Some(p) = storesim::harness_problem(&rep) {
        return fin(Outcome::Harness(p), stats);
    }
    {
        let g = shared.lock().unwrap();
        stats.bump("acquired", g.acquired as u64);
        stats.bump("refused", g.refused as u64);
        stats.bump("fault:crash_while_holding", g.crashed.len() as u64);
        if let Some(v) = g.violation.clone() {
            return fin(Outcome::Violation(v), stats);
        }
    }
    if let Some((who, m)) = rep.panics.first() {
        return fin(Outcome::Violation(Violation { class: "panic".into(), signature: "panic".into(), detail: format!("{who}: {m}") }), stats);
    }
    // bounded liveness: every holder has crashed or released (unless an external live authority
    // exists): a fresh contender must get the role within its own deadline
    let external_live = matches!(sc.initial, Initial::LiveLock { .. } | Initial::DeadMetaLiveLock | Initial::LiveForeignLayout);
    let got: Arc<Mutex<Option<Result<(), String>>>> = Arc::new(Mutex::new(None));
    let (g2, d2, w2) = (got.clone(), data.clone(), ws.clone());
    let rep2 = storesim::run_single("late-contender", move || {
        let pid = seam::FAKE_PID_BASE + 500;
        seam::set_fake_pid(pid);
        seam::pid_set_alive(pid, true);
        let rt = tokio::runtime::Builder::new_current_thread().enable_all().start_paused(true).build().unwrap();
        let r = rt.block_on(ripd::verif_api::acquire_authority_lock_with_recovery(&d2, &w2));
        *g2.lock().unwrap() = Some(r.map(|g| drop(g)));
        seam::set_fake_pid(0);
    });
    if let Some(p) = storesim::harness_problem(&rep2) {
        return fin(Outcome::Harness(p), stats);
    }
    let r = got.lock().unwrap().take();
    stats.bump("liveness_checked", 1);
    match (r, external_live) {
        (Some(Ok(())), true) => fin(
            Outcome::Violation(Violation { class: "live_authority_files_taken".into(), signature: "external_live_authority_displaced".into(), detail: format!("a late contender acquired the role although pid {EXTERNAL_LIVE_PID} (alive) holds the lock; events {:?}", shared.lock().unwrap().log) }),
            stats,
        ),
        (Some(Err(e)), false) => fin(
            Outcome::Violation(Violation {
                class: "store_not_recovered".into(),
                signature: format!("store_not_recovered:{:?}", std::mem::discriminant(&sc.initial)).replace("Discriminant", ""),
                detail: format!("every earlier authority crashed or released, yet a fresh contender is refused: {e}; files: {:?}; events {:?}", std::fs::read_dir(&auth).map(|d| d.filter_map(|e| e.ok().map(|e| e.file_name().to_string_lossy().to_string())).collect::<Vec<_>>()).unwrap_or_default(), shared.lock().unwrap().log),
            }),
            stats,
        ),
        (None, _) => fin(Outcome::Harness("late contender did not finish".into()), stats),
        _ => fin(Outcome::Ok, stats),
    }
}

fn is_contender_alive(pid: i32) -> bool {
    // contenders are alive from start until they crash; crash is tracked in Shared
    pid > seam::FAKE_PID_BASE && pid < seam::FAKE_PID_BASE + 400
}

impl Check for C18 {
    fn id(&self) -> &'static str {
        "C18"
    }
    fn level(&self) -> &'static str {
        "exploration"
    }
    fn technique(&self) -> &'static str {
        "deterministic simulation: 2-5 contenders with simulated pids run the real server acquisition/recovery loop under the baton scheduler (every fs effect and open a scheduling point) with simulated clock, liveness table, crash injection and leftover-state enumeration; invariants checked at every step, bounded liveness afterwards"
    }
    fn budget(&self, tier: Tier) -> Budget {
        match tier {
            Tier::Quick => Budget { runs: 20_000, secs: 45 },
            Tier::Thorough => Budget { runs: 1_000_000, secs: 1200 },
        }
    }
    fn generate(&self, run_seed: u64, tier: Tier) -> Value {
        serde_json::to_value(generate(run_seed, tier)).unwrap()
    }
    fn execute(&self, scenario: &Value, env: &Env) -> (Outcome, RunStats) {
        match serde_json::from_value::<Scenario>(scenario.clone()) {
            Ok(sc) => execute(&sc, env),
            Err(e) => (Outcome::Harness(format!("bad scenario: {e}")), RunStats::default()),
        }
    }
    fn shrink(&self, scenario: &Value) -> Vec<Value> {
        let Ok(sc) = serde_json::from_value::<Scenario>(scenario.clone()) else {
            return Vec::new();
        };
        let mut out = Vec::new();
        let mut base = sc.clone();
        base.sched.schedules = None;
        for k in (0..base.contenders.len()).rev() {
            if base.contenders.len() > 1 {
                let mut c = base.clone();
                c.contenders.remove(k);
                out.push(c);
            }
        }
        if base.clock_jump.is_some() {
            let mut c = base.clone();
            c.clock_jump = None;
            out.push(c);
        }
        for k in 0..base.contenders.len() {
            let mut c = base.clone();
            if c.contenders[k].start_delay > 0 || c.contenders[k].hold_steps > 0 {
                c.contenders[k].start_delay = 0;
                c.contenders[k].hold_steps = 0;
                out.push(c);
            }
        }
        for s in 0..8u64 {
            let mut c = base.clone();
            c.sched.sched_seed = crate::prng::mix(base.sched.sched_seed, 1000 + s);
            c.sched.policy = crate::sched::Policy::Uniform;
            out.push(c);
        }
        out.into_iter().map(|s| serde_json::to_value(s).unwrap()).collect()
    }
    fn concretize(&self, scenario: &Value, _env: &Env) -> Value {
        scenario.clone()
    }
    fn rule(&self) -> String {
        "one evaluation = 2-5 contenders (distinct simulated pids); 1 in 90 evaluations is a shutdown hand-over with real processes (the daemon's own serve loop told to shut down with client streams open while a supervisor starts successors: once a successor holds the lock the old authority must be gone); the others: contenders starting at staggered points from one of ten leftover states (lock and meta of an authority that answers on its endpoint while its pid is invisible to the contenders — a real-time scenario outside the scheduler: clients must attach, servers must be refused, both files keep their bytes —, lock and meta of a live authority in a record layout this build cannot parse, no files, lock of a dead pid, lock+meta of a dead pid, half-written lock, empty lock, lock of a live pid with/without meta, meta of a dead pid only, dead meta next to a live lock), each running the real acquire_authority_lock_with_recovery (1 in 4 scenarios: one contender is a client running rip-cli's attach / recovery loop instead — it cleans up and spawns, never holds); a contender that gets the role optionally writes meta, holds for 0-5 steps, then crashes (liveness flip, guard leaked) or releases; clock quantum 1-4 ms per read with optional jumps of 0.5-5 s; invariants at every scheduling point: at most one live holder, no rename/unlink of lock.json or meta.json that belongs to a live, unreleased pid by another pid; afterwards a fresh contender must acquire (or, with an external live authority, must be refused); distinct = hash of the (actor, point-class) trace; non-trivial = at least 2 context switches".into()
    }
    fn assumptions(&self) -> Vec<String> {
        vec![
            "no live contender stalls longer than the 1 s corrupt-lock grace period between two of its own file-system steps (scheduler fairness bound of 40 steps); a longer stall is outside the protocol's own assumption".into(),
            "in the scheduled scenarios advertised endpoints never answer (the only case in which cleanup may proceed, and what a stalled authority looks like); an endpoint that answers is the separate real-time scenario, where a failing attempt is repeated once and reported only when it fails again (the client's ping has a real 250 ms timeout)".into(), "shutdown hand-over: real processes and real time; the verdict needs the old authority to be still running with a client stream still open 600 ms after the successor's lock record was seen - an authority that releases last exits within milliseconds of the release, one that releases first keeps draining open streams for up to 2 s".into(),
            "client contenders (1 in 4 scenarios) run the attach loop of rip-cli/src/local_authority.rs compiled into the simulator from the repository file; the authority process it spawns is a no-op (server contenders are separate actors)".into(),
        ]
    }
    fn components(&self) -> Value {
        json!({"AuthorityLockGuard, stale/corrupt cleanup, server acquire_authority_lock_with_recovery": "real", "processes": "simulated (actor threads + getpid/kill seam + liveness table)", "clock": "simulated", "file system": "real tmpfs authority/ directory via libc seam", "endpoint ping": "real reqwest call on an unparseable URL (never reachable) in the scheduled scenarios; against a loop-back responder (harness stub) in the reachable-endpoint scenario", "rip-cli client attach/recovery loop": "real (source file included by path; the process it spawns is a no-op)", "shutdown hand-over scenario": "real processes: ripd::serve_default() (acquisition, listener, endpoint advertisement, SIGTERM handling, graceful drain, release) in `ripsim serve-real` children, real loop-back TCP clients holding event streams, real time; the supervisor restarting successors is harness code"})
    }
    fn extra_coverage(&self, c: &BTreeMap<String, u64>) -> Value {
        let init: BTreeMap<&String, &u64> = c.iter().filter(|(k, _)| k.starts_with("initial:")).collect();
        json!({"leftover_states": init, "acquired": c.get("acquired").copied().unwrap_or(0), "refused": c.get("refused").copied().unwrap_or(0), "scheduling_points": c.get("sched_points").copied().unwrap_or(0),
               "fault_counts": {"crash_while_holding": c.get("fault:crash_while_holding").copied().unwrap_or(0), "clock_jump": c.get("fault:clock_jump").copied().unwrap_or(0), "preemptions": c.get("context_switches").copied().unwrap_or(0), "authority_told_to_shut_down_with_open_streams": c.get("fault:authority_told_to_shut_down_with_open_streams").copied().unwrap_or(0), "reachable_endpoint_invisible_pid_states": c.get("initial:ReachableInvisiblePid").copied().unwrap_or(0)}})
    }
}
