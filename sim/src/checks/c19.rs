//! C19 — secrets never reach frames, artifacts, caches, logs or diagnostics.
//!
//! E-sim with planted canaries: the provider API key and a secret header value are supplied
//! through a seeded combination of config layers (global / RIP_CONFIG_HOME / RIP_CONFIG / project
//! / parent-directory project file; JSON or JSONC; inline key, env indirection; syntactically
//! broken files whose error lands on the secret line), environment variables
//! (RIP_OPENRESPONSES_API_KEY, OPENAI_API_KEY, OPENROUTER_API_KEY) and per-request overrides; runs
//! end in success, provider HTTP errors that echo the request, transport errors, unreachable
//! endpoints, validation errors and tool failures, with request dumping on and off. Afterwards
//! every byte the process persisted or answered is searched for the canaries: all files under the
//! scratch root (config sources excepted), every write buffer seen by the syscall seam (transient
//! files included), all HTTP/SSE responses of the router, and the process's stdout/stderr.

use std::path::{Path, PathBuf};
use std::sync::Mutex;
use std::time::Duration;

use serde::{Deserialize, Serialize};
use serde_json::{json, Value};

use crate::checks::c07::{self, PostRec};
use crate::driver::{Budget, Check, Env, Outcome, RunStats, Tier, Violation};
use crate::esim::{self, ArgMode, Chunking, DoneMode, Engine, Resp, SseEv};
use crate::prng::{fnv1a, Rng};
use crate::seam::{self, Decision, Effect, EffectKind};

pub const KEY_CANARY: &str = "skCANARYk3y9f2c7a1e5b8d4f6a0c3e7b1d";
pub const HDR_CANARY: &str = "hdrCANARYt0k3n5e8a2c6f0b4d9e3a7c1f5";

#[derive(Clone, Debug, Serialize, Deserialize, PartialEq)]
pub enum Place {
    Global,
    GlobalViaConfigHome,
    Custom,
    Project,
    ProjectParent,
}

#[derive(Clone, Debug, Serialize, Deserialize, PartialEq)]
pub enum ConfKey {
    Absent,
    Inline,
    EnvRef(String),
}

#[derive(Clone, Debug, Serialize, Deserialize, PartialEq)]
pub enum HeaderVal {
    Secret,
    SecretWithCr,
    SecretWithNewline,
    SecretWithNonAscii,
    Plain,
}

#[derive(Clone, Debug, Serialize, Deserialize, PartialEq)]
pub enum Break {
    MissingCommaBeforeSecret,
    ControlCharInSecret,
    TruncatedAfterSecret,
    UnquotedSecret,
    GarbageAfterSecretLine,
    /// syntactically valid JSON whose secret-bearing field has the wrong type
    /// (`"headers": "x-api-key: <secret>"`, `"api_key": ["<secret>"]`, `"api_key": {"value": …}`)
    MistypedSecretField,
}

#[derive(Clone, Debug, Serialize, Deserialize, PartialEq)]
pub struct Layer {
    pub place: Place,
    pub jsonc: bool,
    pub key: ConfKey,
    pub headers: Vec<(String, HeaderVal)>,
    pub with_route: bool,
    pub with_endpoint: bool,
    pub broken: Option<Break>,
}

#[derive(Clone, Debug, Serialize, Deserialize, PartialEq)]
pub enum EnvKey {
    None,
    Rip,
    OpenAi,
    OpenRouter,
}

#[derive(Clone, Debug, Serialize, Deserialize, PartialEq)]
pub enum Input {
    ThreadPrompt { override_endpoint: bool },
    ThreadTool { fail: bool },
    SessionPrompt,
    Doctor,
}

#[derive(Clone, Debug, Serialize, Deserialize, PartialEq)]
pub struct Scenario {
    pub layers: Vec<Layer>,
    pub env_endpoint: bool,
    pub env_key: EnvKey,
    /// 0 = as is, 1 = trailing CR (CRLF .env file), 2 = padded with spaces, 3 = trailing newline
    #[serde(default)]
    pub env_key_decor: u8,
    pub env_tool_choice_bad: bool,
    pub dump_requests: bool,
    pub unreachable: bool,
    pub script: Vec<Resp>,
    pub inputs: Vec<Input>,
}

pub struct C19;

fn gen_layer(rng: &mut Rng, place: Place) -> Layer {
    let key = match rng.below(4) {
        0 => ConfKey::Absent,
        1 | 2 => ConfKey::Inline,
        _ => ConfKey::EnvRef(rng.pick(&["MY_PROVIDER_KEY", "STUB_API_KEY"]).to_string()),
    };
    let mut headers = Vec::new();
    if rng.chance(3, 5) {
        headers.push((
            rng.pick(&["x-upstream-auth", "x-api-key", "Authorization"]).to_string(),
            match rng.below(10) {
                0 => HeaderVal::SecretWithCr,
                1 => HeaderVal::SecretWithNewline,
                2 => HeaderVal::SecretWithNonAscii,
                _ => HeaderVal::Secret,
            },
        ));
    }
    if rng.chance(1, 3) {
        headers.push(("x-plain".to_string(), HeaderVal::Plain));
    }
    let has_secret = key == ConfKey::Inline || headers.iter().any(|h| h.1 != HeaderVal::Plain);
    Layer {
        place,
        jsonc: rng.chance(1, 2),
        key,
        headers,
        with_route: rng.chance(3, 4),
        with_endpoint: rng.chance(9, 10),
        broken: if has_secret && rng.chance(1, 4) {
            Some(match rng.below(7) {
                0 => Break::MissingCommaBeforeSecret,
                1 => Break::ControlCharInSecret,
                2 => Break::TruncatedAfterSecret,
                3 => Break::UnquotedSecret,
                4 => Break::GarbageAfterSecretLine,
                _ => Break::MistypedSecretField,
            })
        } else {
            None
        },
    }
}

pub fn generate(run_seed: u64, tier: Tier) -> Scenario {
    let mut rng = Rng::derive(run_seed, "c19");
    let mut layers = Vec::new();
    let places = [Place::Global, Place::GlobalViaConfigHome, Place::Custom, Place::Project, Place::ProjectParent];
    let n = rng.range(0, 3);
    for _ in 0..n {
        let place = places[rng.usize_below(places.len())].clone();
        if layers.iter().any(|l: &Layer| l.place == place || (matches!(l.place, Place::Global | Place::GlobalViaConfigHome) && matches!(place, Place::Global | Place::GlobalViaConfigHome))) {
            continue;
        }
        layers.push(gen_layer(&mut rng, place));
    }
    let env_endpoint = layers.is_empty() || rng.chance(1, 2);
    let env_key = match rng.below(6) {
        0 | 1 => EnvKey::Rip,
        2 => EnvKey::OpenAi,
        3 => EnvKey::OpenRouter,
        _ => EnvKey::None,
    };
    let mut script = Vec::new();
    let mut uniq = 0u64;
    let n_resp = rng.range(1, if tier == Tier::Quick { 3 } else { 5 });
    for i in 0..n_resp {
        let r = match rng.below(10) {
            0 | 1 => Resp::HttpError { status: *rng.pick(&[400u16, 401, 403, 500]), echo_request: true, body: "upstream rejected the request;".into() },
            2 => Resp::CloseWithoutResponse,
            3 => Resp::Garbage,
            4 => {
                // a call whose id is too long for a valid follow-up request: validation error path
                Resp::Sse { events: vec![SseEv::Created { id: format!("resp_{i}") }, SseEv::FnCall { output_index: 0, item_id: Some("fc_1".into()), call_id: Some(format!("call_{}", "y".repeat(80))), name: "ls".into(), args: "{}".into(), mode: ArgMode::Inline, never_done: false, omit_call_id_on_done: false }], interleave: false, done: DoneMode::Present, chunking: Chunking::Whole, drop_after: None, crlf: false }
            }
            5 => {
                let ev = vec![SseEv::Created { id: format!("resp_{i}") }, SseEv::TextDelta { text: "partial".into() }];
                Resp::Sse { events: ev, interleave: false, done: DoneMode::Present, chunking: Chunking::PerEvent, drop_after: Some(rng.range(10, 200) as u32), crlf: false }
            }
            _ => c07::gen_resp(&mut rng, &mut uniq, true, i),
        };
        script.push(r);
    }
    script.push(Resp::Sse { events: vec![SseEv::Created { id: "resp_last".into() }, SseEv::TextDelta { text: "done".into() }, SseEv::Completed { id: "resp_last".into() }], interleave: false, done: DoneMode::Present, chunking: Chunking::Whole, drop_after: None, crlf: false });
    let mut inputs = Vec::new();
    if rng.chance(1, 3) {
        inputs.push(Input::Doctor);
    }
    for _ in 0..rng.range(1, 3) {
        inputs.push(match rng.below(8) {
            0 => Input::ThreadTool { fail: rng.chance(1, 2) },
            1 | 2 => Input::SessionPrompt,
            _ => Input::ThreadPrompt { override_endpoint: rng.chance(1, 4) },
        });
    }
    inputs.push(Input::Doctor);
    Scenario { layers, env_endpoint, env_key, env_key_decor: if rng.chance(1, 4) { rng.range(1, 3) as u8 } else { 0 }, env_tool_choice_bad: rng.chance(1, 8), dump_requests: rng.chance(1, 2), unreachable: rng.chance(1, 8), script, inputs }
}

// ---------------------------------------------------------------------------------------------
// config rendering

fn header_value_json(v: &HeaderVal) -> String {
    // the JSON text of the value (escapes are JSON escapes: the loaded value contains the raw char)
    match v {
        HeaderVal::Secret => format!("\"{HDR_CANARY}\""),
        HeaderVal::SecretWithCr => format!("\"{HDR_CANARY}\\r\""),
        HeaderVal::SecretWithNewline => format!("\"{HDR_CANARY}\\nX-Injected: 1\""),
        HeaderVal::SecretWithNonAscii => format!("\"{HDR_CANARY}\\u0001\""),
        HeaderVal::Plain => "\"plain-value\"".to_string(),
    }
}

/// Returns (text, index of the first line that carries a secret).
pub fn render_config(l: &Layer, endpoint: &str) -> String {
    let mut lines: Vec<String> = Vec::new();
    let mut secret_line: Option<usize> = None;
    lines.push("{".into());
    if l.jsonc {
        lines.push("  // provider set-up (JSONC)".into());
    }
    lines.push("  \"provider\": {".into());
    lines.push("    \"stub\": {".into());
    let mut body: Vec<String> = Vec::new();
    if l.with_endpoint {
        body.push(format!("      \"endpoint\": \"{endpoint}\""));
    }
    match &l.key {
        ConfKey::Absent => {}
        ConfKey::Inline => body.push(format!("      \"api_key\": \"{KEY_CANARY}\"")),
        ConfKey::EnvRef(name) => body.push(format!("      \"api_key\": {{ \"env\": \"{name}\" }}")),
    }
    if !l.headers.is_empty() {
        let mut h = vec!["      \"headers\": {".to_string()];
        for (i, (name, val)) in l.headers.iter().enumerate() {
            let comma = if i + 1 < l.headers.len() { "," } else { "" };
            h.push(format!("        \"{name}\": {}{comma}", header_value_json(val)));
        }
        h.push("      }".into());
        body.push(h.join("\n"));
    }
    body.push("      \"models\": {}".into());
    let n = body.len();
    for (i, b) in body.into_iter().enumerate() {
        let comma = if i + 1 < n { "," } else { "" };
        for (k, part) in b.split('\n').enumerate() {
            let _ = k;
            lines.push(part.to_string());
        }
        let last = lines.len() - 1;
        lines[last].push_str(comma);
    }
    lines.push("    }".into());
    lines.push("  },".into());
    if l.with_route {
        lines.push("  \"model\": \"stub/scripted-model\",".into());
    }
    lines.push("  \"openresponses\": { \"stateless_history\": false }".into());
    lines.push("}".into());
    for (i, line) in lines.iter().enumerate() {
        if line.contains(KEY_CANARY) || line.contains(HDR_CANARY) {
            secret_line = Some(i);
            break;
        }
    }
    if let (Some(b), Some(sl)) = (&l.broken, secret_line) {
        match b {
            Break::MissingCommaBeforeSecret => {
                if sl > 0 {
                    let prev = &mut lines[sl - 1];
                    if prev.ends_with(',') {
                        prev.pop();
                    } else {
                        // the previous line opens an object: break the secret line's own separator
                        let cur = &mut lines[sl];
                        *cur = cur.replacen("\": \"", "\" \"", 1);
                    }
                }
            }
            Break::ControlCharInSecret => {
                let cur = &mut lines[sl];
                *cur = cur.replacen(KEY_CANARY, &format!("{KEY_CANARY}\t"), 1).replacen(HDR_CANARY, &format!("{HDR_CANARY}\t"), 1);
            }
            Break::TruncatedAfterSecret => {
                lines.truncate(sl + 1);
            }
            Break::UnquotedSecret => {
                let cur = &mut lines[sl];
                *cur = cur.replacen(&format!("\"{KEY_CANARY}\""), KEY_CANARY, 1).replacen(&format!("\"{HDR_CANARY}\""), HDR_CANARY, 1);
            }
            Break::GarbageAfterSecretLine => {
                lines[sl].push_str(" @@@");
            }
            Break::MistypedSecretField => {
                let joined = lines.join("\n");
                let out = if joined.contains(&format!("\"api_key\": \"{KEY_CANARY}\"")) {
                    joined.replacen(&format!("\"api_key\": \"{KEY_CANARY}\""), &format!("\"api_key\": [\"{KEY_CANARY}\"]"), 1)
                } else {
                    // collapse the headers object into one string "name: value"
                    let start = joined.find("\"headers\": {").unwrap_or(0);
                    let end = joined[start..].find('}').map(|e| start + e + 1).unwrap_or(joined.len());
                    format!("{}\"headers\": \"x-api-key: {HDR_CANARY}\"{}", &joined[..start], &joined[end..])
                };
                return out + "\n";
            }
        }
    }
    lines.join("\n") + "\n"
}

// ---------------------------------------------------------------------------------------------
// seam observer: every write buffer

static LEAKS: Mutex<Vec<(String, String)>> = Mutex::new(Vec::new());
static ALLOWED_PATHS: Mutex<Vec<String>> = Mutex::new(Vec::new());
static WRITES_SEEN: std::sync::atomic::AtomicU64 = std::sync::atomic::AtomicU64::new(0);

fn contains(hay: &[u8], needle: &[u8]) -> bool {
    hay.len() >= needle.len() && hay.windows(needle.len()).any(|w| w == needle)
}

fn which_secret(buf: &[u8]) -> Option<&'static str> {
    if contains(buf, KEY_CANARY.as_bytes()) {
        Some("api_key")
    } else if contains(buf, HDR_CANARY.as_bytes()) {
        Some("header")
    } else {
        None
    }
}

fn observe(_actor: i32, e: &Effect) -> Decision {
    if e.kind == EffectKind::Write {
        if let Some(d) = &e.data {
            WRITES_SEEN.fetch_add(1, std::sync::atomic::Ordering::Relaxed);
            if e.path.starts_with('/') {
                if let Some(w) = which_secret(d) {
                    let allowed = ALLOWED_PATHS.lock().map(|a| a.iter().any(|p| *p == e.path)).unwrap_or(false);
                    if !allowed {
                        if let Ok(mut g) = LEAKS.lock() {
                            if g.len() < 16 {
                                g.push((w.to_string(), e.path.clone()));
                            }
                        }
                    }
                }
            }
        }
    }
    Decision::Proceed
}

struct StdCapture {
    saved_out: i32,
    saved_err: i32,
    out_path: PathBuf,
    err_path: PathBuf,
}

impl StdCapture {
    fn begin(dir: &Path) -> Option<StdCapture> {
        use std::os::fd::AsRawFd;
        let out_path = dir.join("process.stdout");
        let err_path = dir.join("process.stderr");
        let fo = std::fs::File::create(&out_path).ok()?;
        let fe = std::fs::File::create(&err_path).ok()?;
        unsafe {
            let saved_out = libc::dup(1);
            let saved_err = libc::dup(2);
            if saved_out < 0 || saved_err < 0 {
                return None;
            }
            libc::dup2(fo.as_raw_fd(), 1);
            libc::dup2(fe.as_raw_fd(), 2);
            Some(StdCapture { saved_out, saved_err, out_path, err_path })
        }
    }
    fn end(self) -> (Vec<u8>, Vec<u8>) {
        use std::io::Write;
        let _ = std::io::stdout().flush();
        let _ = std::io::stderr().flush();
        unsafe {
            libc::dup2(self.saved_out, 1);
            libc::dup2(self.saved_err, 2);
            libc::close(self.saved_out);
            libc::close(self.saved_err);
        }
        (std::fs::read(&self.out_path).unwrap_or_default(), std::fs::read(&self.err_path).unwrap_or_default())
    }
}

fn viol(secret: &str, place: &str, detail: String) -> Violation {
    Violation { class: "secret_leaked".into(), signature: format!("secret_leaked:{secret}:{place}"), detail }
}

fn snippet(buf: &[u8], needle: &[u8]) -> String {
    let pos = buf.windows(needle.len()).position(|w| w == needle).unwrap_or(0);
    let a = pos.saturating_sub(120);
    let b = (pos + needle.len() + 60).min(buf.len());
    String::from_utf8_lossy(&buf[a..b]).to_string()
}

fn walk(dir: &Path, out: &mut Vec<PathBuf>) {
    if let Ok(rd) = std::fs::read_dir(dir) {
        for e in rd.flatten() {
            let p = e.path();
            let Ok(md) = std::fs::symlink_metadata(&p) else {
                continue;
            };
            if md.is_dir() {
                walk(&p, out);
            } else if md.is_file() {
                out.push(p);
            }
        }
    }
}

fn classify_file(root: &Path, p: &Path, bytes: &[u8], needle: &[u8]) -> String {
    let rel = p.strip_prefix(root).unwrap_or(p).to_string_lossy().to_string();
    if rel == "e/data/events.jsonl" {
        for line in bytes.split(|b| *b == b'\n') {
            if contains(line, needle) {
                let ty = serde_json::from_slice::<Value>(line).ok().and_then(|v| v.get("type").and_then(|t| t.as_str()).map(|s| s.to_string())).unwrap_or_else(|| "?".into());
                return format!("event_log_frame[{ty}]");
            }
        }
        return "event_log".into();
    }
    if rel.starts_with("e/data/snapshots") {
        "snapshot".into()
    } else if rel.contains(".rip/artifacts") {
        "artifact".into()
    } else if rel.starts_with("e/data/") {
        format!("data_file[{}]", crate::sched::file_class(&rel))
    } else if rel.starts_with("e/ws/") {
        "workspace_file".into()
    } else {
        format!("file[{rel}]")
    }
}

pub fn execute(sc: &Scenario, env: &Env) -> (Outcome, RunStats) {
    let mut stats = RunStats::default();
    stats.case_hash = fnv1a(serde_json::to_string(sc).unwrap_or_default().as_bytes());
    let _ = esim::panics_take();
    LEAKS.lock().unwrap().clear();
    ALLOWED_PATHS.lock().unwrap().clear();
    let root = env.root.join("e");
    let mut config_files: Vec<PathBuf> = Vec::new();
    let mut env_set: Vec<String> = Vec::new();
    let sc2 = sc.clone();
    let cf = &mut config_files;
    let es = &mut env_set;
    let engine = Engine::new_with(
        &root,
        sc.script.clone(),
        |root, ws, addr| {
            let marker = match sc2.env_key {
                EnvKey::OpenAi => "/openai.com",
                EnvKey::OpenRouter => "/openrouter.ai",
                _ => "",
            };
            let endpoint = if sc2.unreachable { format!("http://127.0.0.1:1{marker}/v1/responses") } else { format!("http://{addr}{marker}/v1/responses") };
            let mut set = |k: &str, v: &str| {
                std::env::set_var(k, v);
                es.push(k.to_string());
            };
            // project files may sit in a parent directory: the workspace gets a .git marker one level up
            let _ = std::fs::create_dir_all(root.join(".git"));
            for l in &sc2.layers {
                let text = render_config(l, &endpoint);
                let ext = if l.jsonc { "jsonc" } else { "json" };
                let path = match l.place {
                    Place::Global => root.join("home/.rip").join(format!("config.{ext}")),
                    Place::GlobalViaConfigHome => {
                        set("RIP_CONFIG_HOME", root.join("cfghome").to_str().unwrap());
                        root.join("cfghome").join(format!("config.{ext}"))
                    }
                    Place::Custom => {
                        let p = root.join("custom").join(format!("my-rip.{ext}"));
                        set("RIP_CONFIG", p.to_str().unwrap());
                        p
                    }
                    Place::Project => ws.join(format!("rip.{ext}")),
                    Place::ProjectParent => root.join(format!("rip.{ext}")),
                };
                if let Some(d) = path.parent() {
                    let _ = std::fs::create_dir_all(d);
                }
                let _ = std::fs::write(&path, text);
                cf.push(path);
                if let ConfKey::EnvRef(name) = &l.key {
                    set(name, KEY_CANARY);
                }
            }
            if sc2.env_endpoint {
                set("RIP_OPENRESPONSES_ENDPOINT", &endpoint);
                set("RIP_OPENRESPONSES_MODEL", "scripted-model");
            }
            let key_value = match sc2.env_key_decor {
                1 => format!("{KEY_CANARY}\r"),
                2 => format!("  {KEY_CANARY} "),
                3 => format!("{KEY_CANARY}\n"),
                _ => KEY_CANARY.to_string(),
            };
            match sc2.env_key {
                EnvKey::None => {}
                EnvKey::Rip => set("RIP_OPENRESPONSES_API_KEY", &key_value),
                EnvKey::OpenAi => set("OPENAI_API_KEY", &key_value),
                EnvKey::OpenRouter => set("OPENROUTER_API_KEY", &key_value),
            }
            if sc2.env_tool_choice_bad {
                set("RIP_OPENRESPONSES_TOOL_CHOICE", "maybe");
            }
            if sc2.dump_requests {
                set("RIP_OPENRESPONSES_DUMP_REQUEST", "1");
            }
        },
        || None,
    );
    let engine = match engine {
        Ok(e) => e,
        Err(e) => {
            for k in &env_set {
                std::env::remove_var(k);
            }
            return (Outcome::Harness(e), stats);
        }
    };
    // the engine above was built without an engine-level provider; rebuild the router the way the
    // daemon binary does now that the environment is in place (from_env reads it), with process
    // output captured and the write observer on
    ALLOWED_PATHS.lock().unwrap().extend(config_files.iter().map(|p| p.to_string_lossy().to_string()));
    let cap = StdCapture::begin(&env.root);
    seam::set_mode(seam::MODE_OFF);
    seam::set_root_prefix("");
    seam::set_report_reads(false);
    seam::set_capture_data(true);
    seam::set_effect_handler(Some(observe));
    seam::set_mode(seam::MODE_MONITOR);
    let writes_before = WRITES_SEEN.load(std::sync::atomic::Ordering::Relaxed);
    let or = ripd::verif_api::OpenResponsesConfig::from_env();
    let engine_level = or.is_some();
    let (d2, w2) = (engine.data.clone(), engine.ws.clone());
    let app = engine.rt.block_on(async move { ripd::verif_api::build_router(d2, w2, or, false) });
    let engine = Engine { app, ..engine };
    let _ = std::fs::write(engine.ws.join("seed.txt"), "seed line\n");

    let mut responses: Vec<(String, Vec<u8>)> = Vec::new();
    let mut harness: Option<String> = None;
    let mut posts: Vec<PostRec> = Vec::new();
    let mut sessions: Vec<String> = Vec::new();
    let mut seen_panics: Vec<String> = Vec::new();
    let tid = match engine.call("POST", "/threads/ensure", None) {
        Ok((_, b)) => {
            let v: Value = serde_json::from_slice(&b).unwrap_or(Value::Null);
            responses.push(("POST /threads/ensure".into(), b));
            v.get("thread_id").and_then(|t| t.as_str()).unwrap_or("").to_string()
        }
        Err(e) => {
            harness = Some(format!("ensure: {e}"));
            String::new()
        }
    };
    if harness.is_none() {
        for inp in &sc.inputs {
            match inp {
                Input::Doctor => match engine.call("GET", "/config/doctor", None) {
                    Ok((_, b)) => {
                        stats.bump("doctor_calls", 1);
                        if let Ok(v) = serde_json::from_slice::<Value>(&b) {
                            if v.pointer("/openresponses/has_api_key") == Some(&json!(true)) {
                                stats.bump("doctor_reports_key_present", 1);
                            }
                            if v.get("sources").and_then(|s| s.as_array()).map(|a| a.iter().any(|s| s.get("status").and_then(|x| x.as_str()).map(|x| x.starts_with("invalid")).unwrap_or(false))).unwrap_or(false) {
                                stats.bump("fault:config_file_syntax_error", 1);
                            }
                        }
                        responses.push(("GET /config/doctor".into(), b));
                    }
                    Err(e) => harness = Some(format!("doctor: {e}")),
                },
                Input::ThreadPrompt { .. } | Input::ThreadTool { .. } => {
                    let content = match inp {
                        Input::ThreadTool { fail: true } => json!({"tool": "bash", "args": {"command": "echo failing 1>&2; exit 7"}}).to_string(),
                        Input::ThreadTool { fail: false } => json!({"tool": "write", "args": {"path": "t.txt", "content": "x"}}).to_string(),
                        _ => "please answer".to_string(),
                    };
                    let mut body = json!({"content": content});
                    if let Input::ThreadPrompt { override_endpoint: true } = inp {
                        let ep = if sc.unreachable { "http://127.0.0.1:1/v1/responses".to_string() } else { format!("http://{}/v1/responses", engine.provider.addr) };
                        body["openresponses"] = json!({"endpoint": ep, "model": "override-model"});
                        stats.bump("per_request_override", 1);
                    }
                    match engine.call("POST", &format!("/threads/{tid}/messages"), Some(body)) {
                        Ok((202, b)) => {
                            let v: Value = serde_json::from_slice(&b).unwrap_or(Value::Null);
                            posts.push(PostRec { thread_id: tid.clone(), message_id: v["message_id"].as_str().unwrap_or("").to_string(), session_id: v["session_id"].as_str().unwrap_or("").to_string() });
                            responses.push(("POST /threads/{id}/messages".into(), b));
                        }
                        Ok((st, _)) => harness = Some(format!("post: status {st}")),
                        Err(e) => harness = Some(format!("post: {e}")),
                    }
                }
                Input::SessionPrompt => match engine.call("POST", "/sessions", None) {
                    Ok((201, b)) => {
                        let v: Value = serde_json::from_slice(&b).unwrap_or(Value::Null);
                        let sid = v["session_id"].as_str().unwrap_or("").to_string();
                        match engine.call("POST", &format!("/sessions/{sid}/input"), Some(json!({"input": "hello there"}))) {
                            Ok((202, _)) => sessions.push(sid),
                            Ok((st, _)) => harness = Some(format!("input: status {st}")),
                            Err(e) => harness = Some(format!("input: {e}")),
                        }
                    }
                    Ok((st, _)) => harness = Some(format!("create session: status {st}")),
                    Err(e) => harness = Some(format!("create session: {e}")),
                },
            }
            if harness.is_some() {
                break;
            }
            match c07::wait_runs(&engine, &posts, &sessions, &mut seen_panics) {
                Ok(_) => {}
                Err(c07::WaitErr::Harness(e)) => harness = Some(e),
                Err(c07::WaitErr::Stuck { detail, panics }) => harness = Some(format!("run stuck: {detail} {panics:?}")),
            }
            if harness.is_some() {
                break;
            }
        }
    }
    if harness.is_none() {
        // the streams a client would read
        for p in &posts {
            if let Ok((_, b)) = engine.read_stream(&format!("/sessions/{}/events", p.session_id), 40) {
                responses.push(("GET /sessions/{id}/events".into(), b));
            }
        }
        if let Ok((_, b)) = engine.read_stream(&format!("/threads/{tid}/events"), 40) {
            responses.push(("GET /threads/{id}/events".into(), b));
        }
    }
    engine.settle(10);
    let reqs = engine.requests();
    let (rt_data, rt_ws) = (engine.data.clone(), engine.ws.clone());
    drop(engine);
    seam::set_mode(seam::MODE_OFF);
    seam::set_effect_handler(None);
    seam::set_capture_data(false);
    seam::set_report_reads(true);
    let (out, err) = match cap {
        Some(c) => c.end(),
        None => (Vec::new(), Vec::new()),
    };
    for k in &env_set {
        std::env::remove_var(k);
    }
    let _ = (rt_data, rt_ws);
    if let Some(h) = harness {
        return (Outcome::Harness(h), stats);
    }
    stats.bump("write_buffers_scanned", WRITES_SEEN.load(std::sync::atomic::Ordering::Relaxed) - writes_before);
    stats.bump("provider_requests", reqs.len() as u64);
    let key_sent = reqs.iter().any(|r| r.headers.iter().any(|(_, v)| v.contains(KEY_CANARY)));
    let hdr_sent = reqs.iter().any(|r| r.headers.iter().any(|(_, v)| v.contains(HDR_CANARY)));
    if key_sent {
        stats.bump("secret_api_key_reached_provider", 1);
    }
    if hdr_sent {
        stats.bump("secret_header_reached_provider", 1);
    }
    if engine_level {
        stats.bump("engine_level_config_from_env", 1);
    }
    stats.nontrivial = key_sent || hdr_sent || sc.layers.iter().any(|l| l.broken.is_some());
    for r in &reqs {
        let k = match &sc.script[r.index.min(sc.script.len() - 1)] {
            Resp::HttpError { .. } => "http_error_echoing_request",
            Resp::CloseWithoutResponse => "transport_error",
            Resp::Garbage => "garbage_body",
            Resp::Sse { drop_after: Some(_), .. } => "connection_drop",
            _ => "",
        };
        if !k.is_empty() {
            stats.bump(&format!("fault:provider_{k}"), 1);
        }
    }
    if sc.unreachable {
        stats.bump("fault:endpoint_unreachable", 1);
    }
    if sc.dump_requests {
        stats.bump("request_dump_on", 1);
    }

    // --- search
    for (name, needle) in [("api_key", KEY_CANARY.as_bytes()), ("header", HDR_CANARY.as_bytes())] {
        let mut files = Vec::new();
        walk(&root, &mut files);
        stats.bump("files_scanned", files.len() as u64);
        for p in files {
            if config_files.contains(&p) {
                continue;
            }
            let Ok(bytes) = std::fs::read(&p) else {
                continue;
            };
            if contains(&bytes, needle) {
                let place = classify_file(&env.root, &p, &bytes, needle);
                return (Outcome::Violation(viol(name, &place, format!("{}: …{}…", p.display(), snippet(&bytes, needle)))), stats);
            }
        }
        for (what, body) in &responses {
            if contains(body, needle) {
                let place = if what.contains("doctor") { "diagnostic_response".to_string() } else { format!("http_response[{what}]") };
                return (Outcome::Violation(viol(name, &place, format!("{what}: …{}…", snippet(body, needle)))), stats);
            }
        }
        if contains(&out, needle) {
            return (Outcome::Violation(viol(name, "process_stdout", format!("…{}…", snippet(&out, needle)))), stats);
        }
        if contains(&err, needle) {
            return (Outcome::Violation(viol(name, "process_stderr", format!("…{}…", snippet(&err, needle)))), stats);
        }
    }
    let leaks = std::mem::take(&mut *LEAKS.lock().unwrap());
    if let Some((name, path)) = leaks.first() {
        return (Outcome::Violation(viol(name, &format!("transient_write[{}]", crate::sched::file_class(path)), format!("a write to {path} carried the secret (file no longer holds it)"))), stats);
    }
    let p = esim::panics_take();
    let _ = (p, seen_panics, Duration::from_secs(0));
    (Outcome::Ok, stats)
}

impl Check for C19 {
    fn id(&self) -> &'static str {
        "C19"
    }
    fn level(&self) -> &'static str {
        "exploration"
    }
    fn technique(&self) -> &'static str {
        "seeded whole-engine simulation with planted canary secrets: configuration layers, environment and overrides drawn from the seed (incl. syntactically broken config files), scripted provider faults (HTTP error echoing the request, transport errors, unreachable endpoint, validation error), tool failures, request dumping on/off; every write buffer is observed at the libc seam and all persisted files, router responses, SSE streams and process stdout/stderr are searched afterwards"
    }
    fn budget(&self, tier: Tier) -> Budget {
        match tier {
            Tier::Quick => Budget { runs: 640, secs: 150 },
            Tier::Thorough => Budget { runs: 24_000, secs: 2400 },
        }
    }
    fn generate(&self, run_seed: u64, tier: Tier) -> Value {
        serde_json::to_value(generate(run_seed, tier)).unwrap()
    }
    fn execute(&self, scenario: &Value, env: &Env) -> (Outcome, RunStats) {
        match serde_json::from_value::<Scenario>(scenario.clone()) {
            Ok(sc) => execute(&sc, env),
            Err(e) => (Outcome::Harness(format!("bad scenario: {e}")), RunStats::default()),
        }
    }
    fn shrink(&self, scenario: &Value) -> Vec<Value> {
        let Ok(sc) = serde_json::from_value::<Scenario>(scenario.clone()) else {
            return Vec::new();
        };
        let mut out: Vec<Scenario> = Vec::new();
        for i in (0..sc.layers.len()).rev() {
            let mut c = sc.clone();
            c.layers.remove(i);
            if c.layers.is_empty() {
                c.env_endpoint = true;
            }
            out.push(c);
        }
        for i in (0..sc.inputs.len()).rev() {
            if sc.inputs.len() > 1 {
                let mut c = sc.clone();
                c.inputs.remove(i);
                out.push(c);
            }
        }
        for i in (0..sc.script.len()).rev() {
            if sc.script.len() > 1 {
                let mut c = sc.clone();
                c.script.remove(i);
                out.push(c);
            }
        }
        for i in 0..sc.layers.len() {
            if sc.layers[i].headers.len() > 1 {
                for k in (0..sc.layers[i].headers.len()).rev() {
                    let mut c = sc.clone();
                    c.layers[i].headers.remove(k);
                    out.push(c);
                }
            }
            if sc.layers[i].key != ConfKey::Absent {
                let mut c = sc.clone();
                c.layers[i].key = ConfKey::Absent;
                out.push(c);
            }
        }
        if sc.env_key != EnvKey::None {
            let mut c = sc.clone();
            c.env_key = EnvKey::None;
            out.push(c);
        }
        for (flag, f) in [(sc.dump_requests, 0), (sc.unreachable, 1), (sc.env_tool_choice_bad, 2)] {
            if flag {
                let mut c = sc.clone();
                match f {
                    0 => c.dump_requests = false,
                    1 => c.unreachable = false,
                    _ => c.env_tool_choice_bad = false,
                }
                out.push(c);
            }
        }
        out.into_iter().map(|s| serde_json::to_value(s).unwrap()).collect()
    }
    fn attempts(&self) -> u32 {
        3
    }
    fn rule(&self) -> String {
        "one run = one seeded scenario: 0-3 configuration layers (global ~/.rip, RIP_CONFIG_HOME, RIP_CONFIG, project rip.json(c) in the workspace or its parent up to the git root; JSON or JSONC) each defining the provider with an inline api_key, an env reference or none, 0-2 headers (secret value, secret with trailing CR / embedded newline / control character, plain) and optionally a default route; 1 in 4 secret-bearing layers is syntactically broken so that the parser stops on or next to the secret line (missing comma, raw control character, truncation, unquoted value, trailing garbage) or keeps valid syntax but gives the secret-bearing field the wrong type (headers as one string, api_key as an array); environment supply RIP_OPENRESPONSES_ENDPOINT/_MODEL (engine-level configuration through the daemon's own from_env) and the key through RIP_OPENRESPONSES_API_KEY / OPENAI_API_KEY / OPENROUTER_API_KEY, 1 in 4 with stray whitespace around it (trailing CR, padding spaces, trailing newline); an invalid RIP_OPENRESPONSES_TOOL_CHOICE; per-request endpoint overrides; request dumping on or off; endpoint reachable or not; a provider script of 2-6 responses (success, tool calls, HTTP 400-500 whose body echoes the request body, close without response, garbage, connection drop, a call that makes the follow-up fail validation); 2-5 inputs (thread prompt, thread tool envelope that succeeds or fails, thread-less session prompt, GET /config/doctor). The two canaries (API key, header value) must not occur in: any file under the scratch root except the config sources themselves (event log — reported with the frame type —, snapshots, artifacts incl. request dumps, sidecar caches, workspace files, captured process stdout and stderr), any buffer passed to write() on a file path anywhere (seam observer: catches transient files), any router response incl. /config/doctor and the session/thread SSE streams. Reach probes: the secret actually reached the provider stub in the Authorization / custom header. distinct = hash of the scenario; non-trivial = a secret reached the provider or a secret-bearing config file was broken".into()
    }
    fn assumptions(&self) -> Vec<String> {
        vec![
            "tools are not asked to print the process environment (a shell command that echoes $RIP_OPENRESPONSES_API_KEY would of course show it); provider responses echo the request body, not the request headers".into(),
            "canaries are alphanumeric, so JSON/URL escaping cannot hide them; base64 or other re-encodings of the secret are not searched for".into(),
            "the CLI's own output (rip config doctor rendering) is not driven; the daemon response it prints is".into(),
            "real-time engine simulation (see C07)".into(),
        ]
    }
    fn components(&self) -> Value {
        json!({
            "real": ["ripd::config layered loader and resolver", "ripd::provider_openresponses::from_env", "ripd::server router incl. /config/doctor and SSE handlers", "ripd::session provider request path (bearer_auth, headers, error formatting)", "ripd::openresponses_observability request dump", "rip-log, snapshots, continuity store and sidecars", "rip-tools built-ins incl. bash", "reqwest/hyper client", "tokio current-thread runtime (real time)"],
            "stubbed": ["the provider: scripted HTTP/1.1 stub that records request headers", "daemon HTTP listener (tower oneshot)", "process stdout/stderr are redirected into files for the duration of a scenario"],
            "simulated": ["libc write seam in monitor mode: every write buffer on a file path is inspected"]
        })
    }
}
