//! C08 — the compiled context is a pure function of thread truth up to the cut point.

use std::collections::BTreeMap;
use std::sync::{Arc, Mutex};

use serde::{Deserialize, Serialize};
use serde_json::{json, Value};

use crate::checks::c04::{self, eval_all, eval_query, model_answer, project, Query, QueryKind, Step};
use crate::driver::{Budget, Check, Env, Outcome, RunStats, Tier, Violation};
use crate::faults::{self, CacheFault, FaultKind};
use crate::model::{self, canon, Truth};
use crate::prng::{fnv1a, Rng};
use crate::sched::{Policy, Sim, SimConfig, Verdict};
use crate::seam;
use crate::storesim::{self, SchedSpec};
use crate::threadmodel::ThreadView;
use crate::world::{CutSel, Dirs, Op, SummarySel, World};

#[derive(Clone, Debug, Serialize, Deserialize, PartialEq)]
pub struct Scenario {
    pub sim_seed: u64,
    pub steps: Vec<Step>,
    /// cache faults applied to a copy before the third evaluation
    pub copy_faults: Vec<CacheFault>,
    /// operations appended after the first evaluation (frames after the cut points)
    pub later: Vec<Op>,
    /// operations a second actor performs while the compile runs
    pub racer: Vec<Op>,
    pub sched: SchedSpec,
    pub anchor_seed: u64,
}

pub struct C08;

fn gen_hist_op(rng: &mut Rng) -> Op {
    let thread = 0;
    match rng.below(30) {
        0..=8 => Op::AppendMessage { thread, size: rng.range(0, 3) as u32 },
        9..=13 => Op::RunWithReply { thread, size: rng.range(1, 2) as u32, deltas: rng.below(4) as u32, snapshot: rng.below(4) as u32 },
        14..=16 => Op::FullRun { thread, size: 1, effects: rng.below(4) as u32, cursor_key: if rng.chance(1, 3) { Some(rng.below(4) as u32) } else { None } },
        17 => Op::RunSpawned { thread, msg: rng.below(32) as u32 },
        18 | 19 => Op::RunEnded { thread, msg: rng.below(32) as u32 },
        20 => Op::ToolSideEffects { thread, msg: rng.below(32) as u32, paths: rng.below(3) as u32 },
        21..=24 => Op::ManualCheckpoint { thread, sel: CutSel::Message(rng.below(48) as u32), stride: None, summary: SummarySel::Text },
        25 | 26 => Op::CompactionAuto { thread, stride: Some(rng.range(1, 6)), max_new: Some(rng.range(1, 4) as u32), dry_run: None },
        27 => Op::CompactionSchedule { thread, stride: Some(rng.range(1, 4)), max_new: Some(2), block: None, execute: gen_exec(rng), dry_run: None },
        28 => Op::CursorUpdated { thread, key: rng.below(4) as u32 },
        _ => Op::CompileForRun { thread, msg: rng.below(32) as u32 },
    }
}
fn gen_exec(rng: &mut Rng) -> Option<bool> {
    if rng.chance(1, 3) {
        Some(false)
    } else {
        None
    }
}

pub fn generate(run_seed: u64, tier: Tier) -> Scenario {
    let mut rng = Rng::derive(run_seed, "ops");
    let mut steps = vec![Step::Op(Op::EnsureDefault)];
    let class = rng.below(10);
    let n = match class {
        0..=4 => rng.range(2, 24),
        5..=7 => rng.range(14, 40), // around the 16-message limit
        _ => rng.range(30, 70),
    } as usize;
    if class == 9 || (tier == Tier::Thorough && class == 8) {
        // cross the 256 KiB first tail window of the messages+runs sidecar
        steps.push(Step::Bulk { thread: 0, n: rng.range(30, 90) as u32, size: 5, run_every: rng.range(0, 4) as u32, dense: rng.below(4) as u32 });
    } else if class == 8 {
        steps.push(Step::Bulk { thread: 0, n: rng.range(100, 300) as u32, size: 2, run_every: rng.range(1, 4) as u32, dense: rng.below(8) as u32 });
    }
    for _ in 0..n {
        match rng.below(24) {
            0 => steps.push(Step::Restart),
            1 => steps.push(Step::Fault(CacheFault { thread: 0, file: rng.below(9) as u32, kind: FaultKind::Garbage })),
            _ => steps.push(Step::Op(gen_hist_op(&mut rng))),
        }
    }
    let mut copy_faults = Vec::new();
    for _ in 0..rng.range(1, 4) {
        copy_faults.push(CacheFault {
            thread: 0,
            file: if rng.chance(1, 6) { 99 } else { rng.below(9) as u32 },
            kind: match rng.below(5) {
                0 | 1 => FaultKind::Garbage,
                2 => FaultKind::TruncateBytes { num: rng.range(1, 15) as u32, den: 16 },
                3 => FaultKind::Delete,
                _ => FaultKind::ForeignThread,
            },
        });
    }
    let mut later = Vec::new();
    for _ in 0..rng.range(1, 8) {
        later.push(gen_hist_op(&mut rng));
    }
    later.push(Op::AppendMessage { thread: 0, size: 1 });
    let mut racer = Vec::new();
    if rng.chance(1, 2) {
        for _ in 0..rng.range(1, 6) {
            racer.push(match rng.below(6) {
                0 | 1 => Op::AppendMessage { thread: 0, size: 1 },
                2 => Op::FullRun { thread: 0, size: 1, effects: 1, cursor_key: None },
                3 => Op::ToolSideEffects { thread: 0, msg: rng.below(8) as u32, paths: 1 },
                4 => Op::ManualCheckpoint { thread: 0, sel: CutSel::Message(rng.below(48) as u32), stride: None, summary: SummarySel::Text },
                _ => Op::RunEnded { thread: 0, msg: rng.below(8) as u32 },
            });
        }
    }
    let mut srng = Rng::derive(run_seed, "sched-spec");
    Scenario {
        sim_seed: crate::prng::mix_label(run_seed, "sim"),
        steps,
        copy_faults,
        later,
        racer,
        sched: SchedSpec::generate(&mut srng, 200),
        anchor_seed: rng.next_u64(),
    }
}

fn anchors(truth: &Truth, thread: &str, seed: u64) -> Vec<Query> {
    let view = ThreadView::new(truth, thread);
    let msgs = view.messages();
    if msgs.is_empty() {
        return Vec::new();
    }
    let mut rng = Rng::derive(seed, "anchors");
    let mut idx: Vec<usize> = vec![0, msgs.len() - 1, msgs.len() / 2];
    for k in [15usize, 16, 17] {
        if msgs.len() > k {
            idx.push(msgs.len() - 1 - k);
            idx.push(k);
        }
    }
    for _ in 0..3 {
        idx.push(rng.usize_below(msgs.len()));
    }
    // anchors right after / at checkpoints
    for c in view.checkpoints() {
        if let Some(p) = msgs.iter().position(|m| m.seq == c.to_seq) {
            idx.push(p);
            if p + 1 < msgs.len() {
                idx.push(p + 1);
            }
        }
    }
    idx.sort();
    idx.dedup();
    if idx.len() > 10 {
        rng.shuffle(&mut idx);
        idx.truncate(10);
        idx.sort();
    }
    idx.into_iter()
        .map(|i| Query { name: format!("compile(msg#{i})"), thread: thread.to_string(), kind: QueryKind::Compile(msgs[i].id.clone()) })
        .collect()
}

fn proj(q: &Query, a: &c04::Answer) -> String {
    match a {
        Ok(v) => {
            let mut p = project(q, v);
            if let Some(o) = p.as_object_mut() {
                o.remove("_bundle_source");
            }
            canon(&p)
        }
        Err(e) => format!("Err({})", if e.starts_with('!') { e.as_str() } else { "refused" }),
    }
}

fn brief(s: &str) -> String {
    if s.len() > 900 {
        format!("{}…[{} bytes]", s.chars().take(900).collect::<String>(), s.len())
    } else {
        s.to_string()
    }
}

pub fn execute(sc: &Scenario, env: &Env) -> (Outcome, RunStats) {
    let dirs = storesim::begin_run(&env.root, sc.sim_seed, 250_000);
    let world = Arc::new(World::new(dirs.clone()));
    let stats = Arc::new(Mutex::new(RunStats::default()));
    let hash = Arc::new(Mutex::new(0xcbf2_9ce4_8422_2325u64));
    let fin = |o: Outcome, stats: &Arc<Mutex<RunStats>>, hash: &Arc<Mutex<u64>>| {
        let mut s = std::mem::take(&mut *stats.lock().unwrap());
        s.sim_time_ns = storesim::end_run();
        s.case_hash = *hash.lock().unwrap();
        s.nontrivial = s.counters.get("anchors_compared_with_model").copied().unwrap_or(0) >= 3;
        (o, s)
    };
    if let Err(e) = storesim::open_world(&world) {
        return fin(Outcome::Harness(format!("open: {e}")), &stats, &hash);
    }
    // ---- history 1
    let build = |steps: Vec<Step>| -> Result<(), Outcome> {
        let (w, st2, h2) = (world.clone(), stats.clone(), hash.clone());
        let err: Arc<Mutex<Option<String>>> = Arc::new(Mutex::new(None));
        let e2 = err.clone();
        let fl = Arc::new(Mutex::new(Vec::new()));
        let mut sim = Sim::new(SimConfig { policy: Policy::Sequential, yield_on_reads: false, yield_on_locks: false, watchdog: std::time::Duration::from_secs(120), max_steps: 50_000_000, ..SimConfig::default() });
        sim.actor("builder", move || {
            if let Err(e) = c04::run_steps(&w, &steps, &st2, &h2, &fl) {
                *e2.lock().unwrap() = Some(e);
            }
        });
        let rep = sim.run(|_| Verdict::proceed());
        if let Some(p) = storesim::harness_problem(&rep) {
            return Err(Outcome::Harness(p));
        }
        if let Some(e) = err.lock().unwrap().take() {
            return Err(Outcome::Harness(e));
        }
        if let Some((_, m)) = rep.panics.first() {
            return Err(Outcome::Violation(Violation { class: "panic".into(), signature: "panic_in_history".into(), detail: m.clone() }));
        }
        Ok(())
    };
    if let Err(o) = build(sc.steps.clone()) {
        world.close();
        return fin(o, &stats, &hash);
    }
    let image1 = faults::read_tree(&dirs.data);
    let truth1 = match model::parse_truth_file(&dirs.truth_path()) {
        Ok(t) => t,
        Err(e) => {
            world.close();
            return fin(Outcome::Harness(format!("truth unparseable: {}", e.reason)), &stats, &hash);
        }
    };
    let Some(thread) = truth1.thread_ids().into_iter().max_by_key(|t| truth1.thread(t).len()) else {
        world.close();
        return fin(Outcome::Ok, &stats, &hash);
    };
    let qs = anchors(&truth1, &thread, sc.anchor_seed);
    if qs.is_empty() {
        world.close();
        return fin(Outcome::Ok, &stats, &hash);
    }
    {
        let mut h = hash.lock().unwrap();
        *h ^= fnv1a(format!("{}:{}", truth1.thread(&thread).len(), qs.len()).as_bytes());
    }
    let models: Vec<Option<c04::Answer>> = qs.iter().map(|q| model_answer(&truth1, q)).collect();

    // three cache states
    let mut found_answers: Vec<c04::Answer> = Vec::new();
    for state in ["caches_as_found", "caches_removed", "caches_faulted"] {
        let copy = env.root.join("qc");
        let mut image = image1.clone();
        if state == "caches_faulted" {
            // apply detectable faults to a scratch copy, then read it back
            let _ = std::fs::remove_dir_all(&copy);
            std::fs::create_dir_all(&copy).ok();
            faults::write_tree(&copy, &image1);
            let cd = Dirs { root: copy.clone(), data: copy.clone(), workspace: dirs.workspace.clone() };
            let threads = vec![thread.clone(), truth1.thread_ids().into_iter().find(|t| *t != thread).unwrap_or_else(|| thread.clone())];
            let mut stale = false;
            for f in &sc.copy_faults {
                if let Some(d) = faults::apply_fault(&cd, &threads, &[], f) {
                    stats.lock().unwrap().bump(&format!("fault:cache_{}", d.split(['.', ',', '!']).next().unwrap_or("x")), 1);
                    stale |= d.contains("!stale") && !d.starts_with("delete");
                }
            }
            if stale {
                // a fault that happened to leave a well-formed stale file is the C04 finding's territory
                stats.lock().unwrap().bump("faulted_state_skipped_stale_like", 1);
                continue;
            }
            image = faults::read_tree(&copy);
        }
        let answers = match eval_all(&copy, &dirs.workspace, &image, state == "caches_removed", &qs) {
            Ok(a) => a,
            Err(e) => {
                world.close();
                return fin(Outcome::Harness(e), &stats, &hash);
            }
        };
        for (i, q) in qs.iter().enumerate() {
            stats.lock().unwrap().bump("anchors_compared_with_model", 1);
            let Some(m) = &models[i] else { continue };
            let (pa, pm) = (proj(q, &answers[i]), match m { Ok(v) => canon(v), Err(_) => "Err(refused)".into() });
            let consistent = match &answers[i] {
                Ok(v) => {
                    let p = project(q, v);
                    p["_bundle_source"]["from_seq"] == p["from_seq"] && p["_bundle_source"]["strategy"] == p["strategy"]
                }
                Err(_) => true,
            };
            if pa != pm || !consistent {
                world.close();
                let what = if !consistent { "bundle_disagrees_with_decision" } else { "compile_differs_from_model" };
                let stale = c04::stale_wellformed_sidecars(&image, &truth1, &thread);
                let why = if stale.is_empty() { String::new() } else { format!(":stale_wellformed_sidecar[{}]", stale.join(",")) };
                return fin(
                    Outcome::Violation(Violation {
                        class: what.into(),
                        signature: format!("{what}:{state}{why}"),
                        detail: format!("{} on thread {thread} ({state}): compiled = {} ; model = {}", q.name, brief(&pa), brief(&pm)),
                    }),
                    &stats,
                    &hash,
                );
            }
        }
        if state == "caches_as_found" {
            found_answers = answers;
        }
    }

    // ---- frames appended after the cut points must not change earlier anchors' bundles
    let later_steps: Vec<Step> = sc.later.iter().cloned().map(Step::Op).collect();
    if let Err(o) = build(later_steps) {
        world.close();
        return fin(o, &stats, &hash);
    }
    let image2 = faults::read_tree(&dirs.data);
    let truth2 = model::parse_truth_file(&dirs.truth_path()).unwrap_or_default();
    let view1 = ThreadView::new(&truth1, &thread);
    let msgs1 = view1.messages();
    let fixed: Vec<usize> = qs
        .iter()
        .enumerate()
        .filter(|(_, q)| match &q.kind {
            QueryKind::Compile(a) => msgs1.iter().position(|m| &m.id == a).map(|p| p + 1 < msgs1.len()).unwrap_or(false),
            _ => false,
        })
        .map(|(i, _)| i)
        .collect();
    if !fixed.is_empty() && truth2.frames.len() > truth1.frames.len() {
        let qs2: Vec<Query> = fixed.iter().map(|&i| qs[i].clone()).collect();
        match eval_all(&env.root.join("qc"), &dirs.workspace, &image2, false, &qs2) {
            Ok(a2) => {
                for (k, &i) in fixed.iter().enumerate() {
                    stats.lock().unwrap().bump("anchors_rechecked_after_later_frames", 1);
                    let (p1, p2) = (proj(&qs[i], &found_answers[i]), proj(&qs[i], &a2[k]));
                    if p1 != p2 {
                        world.close();
                        // explained by a checkpoint recorded after the cut point for an earlier
                        // cut (eligible by to_seq per ADR-0011/0018)?
                        let cut = ThreadView::new(&truth1, &thread).compile_cut(match &qs[i].kind { QueryKind::Compile(a) => a.as_str(), _ => "" }).unwrap_or(0);
                        let later_ckpt = truth2.frames[truth1.frames.len()..].iter().any(|f| f.ty == "continuity_compaction_checkpoint_created" && f.stream_id == thread && f.u("to_seq").unwrap_or(u64::MAX) <= cut);
                        let adr = model_answer(&truth2, &qs[i]).map(|m| match m { Ok(v) => canon(&v), Err(_) => "Err(refused)".into() });
                        let shape = if later_ckpt && adr.as_deref() == Some(p2.as_str()) { ":later_checkpoint_for_earlier_cut" } else { "" };
                        return fin(
                            Outcome::Violation(Violation {
                                class: "compile_depends_on_later_frames".into(),
                                signature: format!("compile_depends_on_later_frames{shape}"),
                                detail: format!("{} on thread {thread}: before {} frames were appended after its cut point = {} ; afterwards = {}", qs[i].name, truth2.frames.len() - truth1.frames.len(), brief(&p1), brief(&p2)),
                            }),
                            &stats,
                            &hash,
                        );
                    }
                }
            }
            Err(e) => {
                world.close();
                return fin(Outcome::Harness(e), &stats, &hash);
            }
        }
    }

    // ---- a racing appender: the result must equal the model on SOME truth prefix between the
    // states at call start and call end
    if !sc.racer.is_empty() {
        let view2 = ThreadView::new(&truth2, &thread);
        if let Some(last) = view2.messages().last() {
            let q = Query { name: "compile(last message, racing)".into(), thread: thread.clone(), kind: QueryKind::Compile(last.id.clone()) };
            let result: Arc<Mutex<Option<(usize, usize, c04::Answer)>>> = Arc::new(Mutex::new(None));
            let mut sim = Sim::new(sc.sched.config(1));
            let (w, r2, q2, tp) = (world.clone(), result.clone(), q.clone(), dirs.truth_path());
            sim.actor("compiler", move || {
                let count = |p: &std::path::Path| seam::passthrough(|| std::fs::read(p).map(|b| b.iter().filter(|c| **c == b'\n').count()).unwrap_or(0));
                let n0 = count(&tp);
                let st = w.st();
                let a = eval_query(&st, &w.dirs.workspace, &w.dirs.snapshots_dir(), &q2);
                let n1 = count(&tp);
                *r2.lock().unwrap() = Some((n0, n1, a));
            });
            let (w, ops) = (world.clone(), sc.racer.clone());
            sim.actor("appender", move || {
                for (k, op) in ops.iter().enumerate() {
                    let r = w.exec(1, 900_000 + k, op);
                    w.record(r);
                }
            });
            let rep = sim.run(|_| Verdict::proceed());
            if let Some(p) = storesim::harness_problem(&rep) {
                world.close();
                return fin(Outcome::Harness(p), &stats, &hash);
            }
            {
                let mut s = stats.lock().unwrap();
                s.bump("racing_compiles", 1);
                s.bump("context_switches", rep.context_switches);
                let mut h = hash.lock().unwrap();
                *h ^= rep.trace_hash;
            }
            let truth3 = model::parse_truth_file(&dirs.truth_path()).unwrap_or_default();
            let taken = result.lock().unwrap().take();
            if let Some((n0, n1, a)) = taken {
                let pa = proj(&q, &a);
                let mut ok = false;
                let mut ahead = false;
                let mut last_model = String::new();
                let strip_from = |s: &str| -> String {
                    match serde_json::from_str::<Value>(s) {
                        Ok(mut v) => {
                            if let Some(o) = v.as_object_mut() {
                                o.remove("from_seq");
                            }
                            canon(&v)
                        }
                        Err(_) => s.to_string(),
                    }
                };
                // one racing actor: at most one of its frames is in flight (written to truth but
                // not yet to every cache, not yet acknowledged) when the call starts
                for n in n0.saturating_sub(1)..=n1.min(truth3.frames.len()) {
                    let prefix = Truth { frames: truth3.frames[..n].to_vec(), bytes_len: 0, torn_tail: None };
                    if let Some(m) = model_answer(&prefix, &q) {
                        let pm = match &m {
                            Ok(v) => canon(v),
                            Err(_) => "Err(refused)".into(),
                        };
                        if pm == pa {
                            ok = true;
                            break;
                        }
                        if strip_from(&pm) == strip_from(&pa) {
                            ahead = true;
                        }
                        last_model = pm;
                    }
                }
                if n1 > n0 {
                    stats.lock().unwrap().bump("racing_compiles_with_concurrent_appends", 1);
                }
                if !ok {
                    world.close();
                    return fin(
                        Outcome::Violation(Violation {
                            class: "compile_mixture_under_race".into(),
                            signature: format!("compile_mixture_under_race{}", if ahead { ":from_seq_from_another_prefix" } else { "" }),
                            detail: format!("compile of the last message while {} frames were being appended (truth had {n0} frames at call start, {n1} at return) = {} ; matches the model on no truth prefix in that range (model at the last prefix = {})", n1 - n0, brief(&pa), brief(&last_model)),
                        }),
                        &stats,
                        &hash,
                    );
                }
            }
        }
    }
    world.close();
    fin(Outcome::Ok, &stats, &hash)
}

impl Check for C08 {
    fn id(&self) -> &'static str {
        "C08"
    }
    fn level(&self) -> &'static str {
        "exploration"
    }
    fn technique(&self) -> &'static str {
        "deterministic simulation: seeded histories (replies via real session frames and snapshots, checkpoints with ties, dense non-message frames, threads crossing the 16-message limit and the 256 KiB tail window), compile evaluated in three cache states against the ThreadTruth bundle model, re-evaluated after later appends, and raced against an appender under the baton scheduler (prefix-refinement oracle)"
    }
    fn budget(&self, tier: Tier) -> Budget {
        match tier {
            Tier::Quick => Budget { runs: 3_000, secs: 45 },
            Tier::Thorough => Budget { runs: 150_000, secs: 1200 },
        }
    }
    fn generate(&self, run_seed: u64, tier: Tier) -> Value {
        serde_json::to_value(generate(run_seed, tier)).unwrap()
    }
    fn execute(&self, scenario: &Value, env: &Env) -> (Outcome, RunStats) {
        match serde_json::from_value::<Scenario>(scenario.clone()) {
            Ok(sc) => execute(&sc, env),
            Err(e) => (Outcome::Harness(format!("bad scenario: {e}")), RunStats::default()),
        }
    }
    fn shrink(&self, scenario: &Value) -> Vec<Value> {
        let Ok(sc) = serde_json::from_value::<Scenario>(scenario.clone()) else {
            return Vec::new();
        };
        let mut out = Vec::new();
        if !sc.racer.is_empty() {
            let mut c = sc.clone();
            c.racer.clear();
            out.push(c);
        }
        if sc.later.len() > 1 {
            let mut c = sc.clone();
            c.later.truncate(1);
            out.push(c);
        }
        if !sc.copy_faults.is_empty() {
            let mut c = sc.clone();
            c.copy_faults.clear();
            out.push(c);
        }
        let n = sc.steps.len();
        if n > 8 {
            let mut c = sc.clone();
            c.steps.drain(1..n / 3);
            out.push(c);
        }
        for k in (1..n).rev() {
            let mut c = sc.clone();
            c.steps.remove(k);
            out.push(c);
        }
        for k in 0..n {
            if let Step::Bulk { n: bn, .. } = &sc.steps[k] {
                if *bn > 20 {
                    let mut c = sc.clone();
                    if let Step::Bulk { n: x, .. } = &mut c.steps[k] {
                        *x = *bn * 2 / 3;
                    }
                    out.push(c);
                }
            }
        }
        for k in (0..sc.racer.len()).rev() {
            let mut c = sc.clone();
            c.racer.remove(k);
            out.push(c);
        }
        out.into_iter().map(|s| serde_json::to_value(s).unwrap()).collect()
    }
    fn rule(&self) -> String {
        "one evaluation = one seeded thread history (messages, runs whose replies are real session frames with valid/corrupt/foreign/missing snapshots, overlapping and re-ended runs, dense side-effect/cursor/decision frames, manual and automatic checkpoints incl. several per cut point and lower cut points after higher ones, deferred jobs; sizes around the 16-message limit, and threads whose messages+runs sidecar exceeds 256 KiB); up to 10 anchors (first, last, middle, limit-1/limit/limit+1 from both ends, at and right after every checkpoint, random) are compiled in three cache states (as found, removed, detectably faulted) and compared with the bundle model (cut point, checkpoint hierarchy by the halving rule, strategy, summary refs, messages oldest-first with reply texts); then more frames are appended and anchors with a fixed cut point must compile identically; half the runs race the compile of the last message against an appending actor under the baton scheduler (result must equal the model on some truth prefix between call start and return); distinct = hash of history, thread size and race schedule; non-trivial = at least 3 anchor comparisons".into()
    }
    fn assumptions(&self) -> Vec<String> {
        vec![
            "summary_ref notes and the decision's free-text reason are not compared (not specified)".into(),
            "non-cumulative summary kinds cannot be produced through the API and are not generated".into(),
            "a faulted cache state that is well-formed but stale is the C04 finding and is skipped here".into(),
        ]
    }
    fn components(&self) -> Value {
        json!({"context compiler, input loaders (tail / window / replay), checkpoint selection, bundle writer": "real (verif_api export)", "session streams": "real frames appended by the harness (stub session runner)", "file system": "real tmpfs", "clock/randomness": "simulated", "scheduling": "single actor + racing phase under the baton scheduler"})
    }
    fn extra_coverage(&self, c: &BTreeMap<String, u64>) -> Value {
        let faults: BTreeMap<&String, &u64> = c.iter().filter(|(k, _)| k.starts_with("fault:")).collect();
        json!({"anchors_compared_with_model": c.get("anchors_compared_with_model").copied().unwrap_or(0),
               "anchors_rechecked_after_later_frames": c.get("anchors_rechecked_after_later_frames").copied().unwrap_or(0),
               "racing_compiles": c.get("racing_compiles").copied().unwrap_or(0),
               "racing_compiles_with_concurrent_appends": c.get("racing_compiles_with_concurrent_appends").copied().unwrap_or(0),
               "fault_counts": faults})
    }
}
