pub mod c01;

use crate::driver::Check;

pub fn all() -> Vec<Box<dyn Check>> {
    vec![Box::new(c01::C01)]
}

pub fn by_id(id: &str) -> Option<Box<dyn Check>> {
    all().into_iter().find(|c| c.id() == id)
}
