//! C02 — the truth log is append-only; read-only / dry-run / no-op invocations add nothing.

use std::collections::BTreeMap;
use std::sync::{Arc, Mutex};

use serde::{Deserialize, Serialize};
use serde_json::{json, Value};

use crate::driver::{Budget, Check, Env, Outcome, RunStats, Tier, Violation};
use crate::faults::{self, CacheFault, DirImage};
use crate::model;
use crate::prng::Rng;
use crate::sched::{Point, Policy, Sim, SimConfig, Verdict};
use crate::seam::{self, EffectKind};
use crate::storesim::{self, SchedSpec};
use crate::world::{gen_op, Op, World};

#[derive(Clone, Debug, Serialize, Deserialize, PartialEq)]
pub enum Step {
    Op(Op),
    Restart,
    Fault(CacheFault),
    SaveCacheVersion,
}

#[derive(Clone, Debug, Serialize, Deserialize, PartialEq)]
pub struct Scenario {
    pub sim_seed: u64,
    pub steps: Vec<Step>,
    /// optional concurrent epilogue (monitor + end-to-end prefix only)
    pub epilogue: Vec<Vec<Op>>,
    pub sched: SchedSpec,
    /// whole-engine variant: after some writing runs, seeded read-only HTTP requests (status,
    /// cut points, listings, task output, dry runs, diagnostics, SSE attaches — known, unknown and
    /// hostile ids) against the real router must leave events.jsonl byte-identical and untouched
    #[serde(default)]
    pub engine: Option<EngineSc>,
}

#[derive(Clone, Debug, Serialize, Deserialize, PartialEq)]
pub struct EngineSc {
    pub writes: u8,
    /// (request kind, id selector, parameter)
    pub reads: Vec<(u8, u8, u32)>,
}

pub struct C02;

static ENGINE_TRUTH: Mutex<String> = Mutex::new(String::new());
static ENGINE_BAD: Mutex<Vec<String>> = Mutex::new(Vec::new());
static ENGINE_ARMED: std::sync::atomic::AtomicBool = std::sync::atomic::AtomicBool::new(false);

fn engine_observer(_actor: i32, e: &crate::seam::Effect) -> crate::seam::Decision {
    if ENGINE_ARMED.load(std::sync::atomic::Ordering::SeqCst) {
        let t = ENGINE_TRUTH.lock().map(|g| g.clone()).unwrap_or_default();
        if !t.is_empty() && (e.path == t || e.path2.as_deref() == Some(t.as_str())) && !matches!(e.kind, EffectKind::OpenRead | EffectKind::Fsync) {
            if let Ok(mut g) = ENGINE_BAD.lock() {
                if g.len() < 8 {
                    g.push(format!("{:?} (flags {:#x}, len {})", e.kind, e.flags, e.len));
                }
            }
        }
    }
    crate::seam::Decision::Proceed
}

fn generate_engine(run_seed: u64) -> EngineSc {
    let mut rng = Rng::derive(run_seed, "c02-engine");
    EngineSc { writes: rng.range(1, 3) as u8, reads: (0..rng.range(4, 16)).map(|_| (rng.below(16) as u8, rng.below(6) as u8, rng.below(5) as u32)).collect() }
}

fn execute_engine(e: &EngineSc, env: &Env) -> (Outcome, RunStats) {
    use crate::esim::{Engine, ProviderCfg};
    let mut stats = RunStats::default();
    stats.bump("engine_scenarios", 1);
    stats.case_hash = crate::prng::fnv1a(serde_json::to_string(e).unwrap_or_default().as_bytes());
    let engine = match Engine::new(&env.root.join("e"), &ProviderCfg::default(), vec![], false) {
        Ok(x) => x,
        Err(err) => return (Outcome::Harness(err), stats),
    };
    let truth_path = engine.data.join("events.jsonl");
    *ENGINE_TRUTH.lock().unwrap() = truth_path.to_string_lossy().to_string();
    ENGINE_BAD.lock().unwrap().clear();
    ENGINE_ARMED.store(false, std::sync::atomic::Ordering::SeqCst);
    seam::set_mode(seam::MODE_OFF);
    seam::set_root_prefix("");
    seam::set_report_reads(true);
    seam::set_capture_data(false);
    seam::set_effect_handler(Some(engine_observer));
    seam::set_mode(seam::MODE_MONITOR);
    let res: Result<Option<Violation>, String> = (|| {
        let (_, v) = engine.call_json("POST", "/threads/ensure", None)?;
        let tid = v["thread_id"].as_str().unwrap_or("").to_string();
        let mut sessions = Vec::new();
        let mut task_id = String::new();
        for k in 0..e.writes {
            let (st, v) = engine.call_json("POST", &format!("/threads/{tid}/messages"), Some(json!({"content": json!({"tool": "write", "args": {"path": format!("w{k}.txt"), "content": "x\n"}}).to_string()})))?;
            if st != 202 {
                return Err(format!("post: {st}"));
            }
            sessions.push(v["session_id"].as_str().unwrap_or("").to_string());
        }
        {
            let (st, v) = engine.call_json("POST", "/tasks", Some(json!({"tool": "bash", "args": {"command": "echo hi"}})))?;
            if st == 201 {
                task_id = v["task_id"].as_str().unwrap_or("").to_string();
            }
        }
        let (ss, tk) = (sessions.clone(), task_id.clone());
        engine.wait_until(std::time::Duration::from_secs(40), |t| {
            ss.iter().all(|s| t.frames.iter().any(|f| f.ty == "continuity_run_ended" && f.s("run_session_id") == Some(s.as_str()))) && (tk.is_empty() || t.frames.iter().any(|f| f.stream_id == tk && f.ty == "tool_task_status" && matches!(f.s("status"), Some("exited") | Some("failed"))))
        })?;
        engine.settle(30);
        let before = std::fs::read(&truth_path).map_err(|x| x.to_string())?;
        ENGINE_ARMED.store(true, std::sync::atomic::Ordering::SeqCst);
        let ids = [tid.as_str(), "00000000-0000-4000-8000-000000000001", "..%2Fevents", "..", "%20", "a%2Fb"];
        let mut done: Vec<String> = Vec::new();
        for (kind, idsel, par) in &e.reads {
            let id = ids[*idsel as usize % ids.len()];
            let sid = sessions.first().cloned().unwrap_or_default();
            let stride = [0u64, 1, 2, 1000, u64::MAX][*par as usize % 5];
            let (label, r): (String, Result<(u16, Vec<u8>), String>) = match kind % 16 {
                0 => ("GET /threads".into(), engine.call("GET", "/threads", None)),
                1 => (format!("GET /threads/{id}"), engine.call("GET", &format!("/threads/{id}"), None)),
                2 => (format!("POST /threads/{id}/compaction-cut-points"), engine.call("POST", &format!("/threads/{id}/compaction-cut-points"), Some(json!({"stride_messages": stride, "limit": par})))),
                3 => (format!("POST /threads/{id}/compaction-status"), engine.call("POST", &format!("/threads/{id}/compaction-status"), Some(json!({"stride_messages": stride})))),
                4 => (format!("POST /threads/{id}/provider-cursor-status"), engine.call("POST", &format!("/threads/{id}/provider-cursor-status"), Some(json!({})))),
                5 => (format!("POST /threads/{id}/context-selection-status"), engine.call("POST", &format!("/threads/{id}/context-selection-status"), Some(json!({"limit": par})))),
                6 => (format!("POST /threads/{id}/compaction-auto dry_run"), engine.call("POST", &format!("/threads/{id}/compaction-auto"), Some(json!({"stride_messages": stride.clamp(1, 3), "dry_run": true, "actor_id": "sim", "origin": "sim"})))),
                7 => (format!("POST /threads/{id}/compaction-auto-schedule dry_run"), engine.call("POST", &format!("/threads/{id}/compaction-auto-schedule"), Some(json!({"stride_messages": stride.clamp(1, 3), "dry_run": true, "actor_id": "sim", "origin": "sim"})))),
                8 => (format!("GET /threads/{id}/events"), engine.read_stream(&format!("/threads/{id}/events"), 25)),
                9 => ("GET /sessions/{id}/events".into(), engine.read_stream(&format!("/sessions/{sid}/events"), 25)),
                10 => ("GET /tasks".into(), engine.call("GET", "/tasks", None)),
                11 => ("GET /tasks/{id}".into(), engine.call("GET", &format!("/tasks/{task_id}"), None)),
                12 => ("GET /tasks/{id}/output".into(), engine.call("GET", &format!("/tasks/{task_id}/output?stream=stdout&offset_bytes={par}&max_bytes=16"), None)),
                13 => ("GET /tasks/{id}/events".into(), engine.read_stream(&format!("/tasks/{task_id}/events"), 25)),
                14 => ("GET /config/doctor".into(), engine.call("GET", "/config/doctor", None)),
                _ => ("GET /openapi.json".into(), engine.call("GET", "/openapi.json", None)),
            };
            let _ = r?;
            stats.bump("engine_read_only_requests", 1);
            done.push(label);
            let after = std::fs::read(&truth_path).map_err(|x| x.to_string())?;
            let bad = std::mem::take(&mut *ENGINE_BAD.lock().unwrap());
            if after != before || !bad.is_empty() {
                let what = done.last().cloned().unwrap_or_default();
                let kind = what.split('/').next_back().unwrap_or("?").split(' ').next().unwrap_or("?").to_string();
                return Ok(Some(Violation { class: "noop_wrote".into(), signature: format!("noop_wrote:http:{}", if kind.contains('-') || kind == "events" || kind == "threads" || kind == "tasks" || kind == "output" || kind == "doctor" { kind } else { "by_id".into() }), detail: format!("{what}: events.jsonl went from {} to {} bytes; effects on it: {bad:?}", before.len(), after.len()) }));
            }
        }
        Ok(None)
    })();
    ENGINE_ARMED.store(false, std::sync::atomic::Ordering::SeqCst);
    seam::set_mode(seam::MODE_OFF);
    seam::set_effect_handler(None);
    stats.nontrivial = true;
    drop(engine);
    match res {
        Ok(None) => (Outcome::Ok, stats),
        Ok(Some(v)) => (Outcome::Violation(v), stats),
        Err(err) => (Outcome::Harness(err), stats),
    }
}

pub fn generate(run_seed: u64, tier: Tier) -> Scenario {
    if Rng::derive(run_seed, "c02-kind").chance(1, 80) {
        let mut srng = Rng::derive(run_seed, "sched-spec");
        return Scenario { sim_seed: 1, steps: vec![], epilogue: vec![], sched: SchedSpec::generate(&mut srng, 10), engine: Some(generate_engine(run_seed)) };
    }
    let mut rng = Rng::derive(run_seed, "ops");
    let n = rng.range(4, if tier == Tier::Quick { 40 } else { 90 }) as usize;
    let mut steps = vec![Step::Op(Op::EnsureDefault)];
    for _ in 0..rng.range(1, 4) {
        steps.push(Step::Op(Op::AppendMessage { thread: 0, size: rng.range(1, 3) as u32 }));
    }
    let read_bias = rng.chance(1, 2);
    if rng.chance(1, 3) {
        // a compaction job that was scheduled but never ran stays in flight for the whole history
        steps.push(Step::Op(Op::AppendMessage { thread: 0, size: 1 }));
        steps.push(Step::Op(Op::CompactionSchedule { thread: 0, stride: Some(1), max_new: None, block: None, execute: Some(false), dry_run: None }));
        steps.push(Step::Op(Op::AppendMessage { thread: 0, size: 1 }));
    }
    for _ in 0..n {
        match rng.below(20) {
            0 => steps.push(Step::Restart),
            1 | 2 => steps.push(Step::Fault(faults::gen_fault(&mut rng))),
            3 => steps.push(Step::SaveCacheVersion),
            _ => {
                let big = rng.below(8) == 0;
                let mut op = gen_op(&mut rng, big);
                if read_bias && rng.chance(1, 3) {
                    // bias towards the read-only / dry-run family this property is about
                    let thread = rng.below(6) as u32;
                    op = match rng.below(8) {
                        0 => Op::Replay { thread },
                        1 => Op::CutPoints { thread, stride: crate::world::gen_stride(&mut rng), limit: crate::world::gen_small(&mut rng) },
                        2 => Op::CompactionStatus { thread, stride: crate::world::gen_stride(&mut rng) },
                        3 => Op::CursorStatus { thread },
                        4 => Op::SelectionStatus { thread, limit: crate::world::gen_small(&mut rng) },
                        5 => Op::CompactionAuto { thread, stride: crate::world::gen_stride(&mut rng), max_new: crate::world::gen_small(&mut rng), dry_run: Some(true) },
                        6 => Op::CompactionSchedule { thread, stride: crate::world::gen_stride(&mut rng), max_new: crate::world::gen_small(&mut rng), block: crate::world::gen_bool(&mut rng), execute: crate::world::gen_bool(&mut rng), dry_run: Some(true) },
                        _ => Op::UnknownThread { which: rng.below(crate::world::UNKNOWN_THREAD_SPACE) as u32 },
                    };
                }
                steps.push(Step::Op(op));
            }
        }
    }
    let mut epilogue: Vec<Vec<Op>> = Vec::new();
    if rng.chance(1, 4) {
        let k = rng.range(2, 3) as usize;
        epilogue = vec![Vec::new(); k];
        for _ in 0..rng.range(3, 12) {
            let a = rng.usize_below(k);
            epilogue[a].push(gen_op(&mut rng, false));
        }
    }
    let mut srng = Rng::derive(run_seed, "sched-spec");
    Scenario {
        sim_seed: crate::prng::mix_label(run_seed, "sim"),
        steps,
        epilogue,
        sched: SchedSpec::generate(&mut srng, 300),
        engine: None,
    }
}

/// Oracle 1: what may ever be done to the truth file.
pub fn truth_effect_violation(ev: &crate::sched::Event, truth_path: &str) -> Option<Violation> {
    let Point::Fs(e) = &ev.point else {
        return None;
    };
    let on_truth = e.path == truth_path;
    let onto_truth = e.path2.as_deref() == Some(truth_path);
    if !on_truth && !onto_truth {
        return None;
    }
    let bad = |what: &str| {
        Some(Violation {
            class: "truth_mutated".into(),
            signature: format!("truth_mutated:{what}"),
            detail: format!("effect {:?} on events.jsonl (flags {:#x}, len {}): {what}", e.kind, e.flags, e.len),
        })
    };
    match e.kind {
        EffectKind::OpenRead | EffectKind::Fsync => None,
        EffectKind::OpenCreate | EffectKind::OpenWrite => {
            if e.flags & libc::O_APPEND == 0 {
                bad("opened for writing without O_APPEND")
            } else if e.flags & libc::O_TRUNC != 0 {
                bad("opened with O_TRUNC")
            } else {
                None
            }
        }
        EffectKind::Write => {
            if e.flags & 0x4000_0000 != 0 {
                bad("positional write")
            } else if e.flags & libc::O_APPEND == 0 {
                bad("write through a descriptor without O_APPEND")
            } else {
                None
            }
        }
        EffectKind::OpenTrunc => bad("truncating open"),
        EffectKind::Truncate => bad("truncate"),
        EffectKind::Rename => bad("rename onto or away"),
        EffectKind::Unlink | EffectKind::Rmdir => bad("unlink"),
        EffectKind::Link | EffectKind::Symlink | EffectKind::CopyRange => bad("link/copy onto"),
        EffectKind::Mkdir | EffectKind::Chmod => None,
    }
}

struct Shared {
    violation: Option<Violation>,
    stats: RunStats,
    hash: u64,
}

pub fn execute(sc: &Scenario, env: &Env) -> (Outcome, RunStats) {
    if let Some(e) = &sc.engine {
        return execute_engine(e, env);
    }
    let dirs = storesim::begin_run(&env.root, sc.sim_seed, 250_000);
    let world = Arc::new(World::new(dirs.clone()));
    let truth_path = dirs.truth_path();
    let truth_str = truth_path.to_string_lossy().to_string();
    let shared = Arc::new(Mutex::new(Shared {
        violation: None,
        stats: RunStats::default(),
        hash: 0xcbf2_9ce4_8422_2325,
    }));

    if let Err(e) = storesim::open_world(&world) {
        let mut st = RunStats::default();
        st.sim_time_ns = storesim::end_run();
        return (Outcome::Harness(format!("open: {e}")), st);
    }

    // ---- phase A: sequential steps, byte-prefix oracle after every operation
    let steps = sc.steps.clone();
    let w = world.clone();
    let sh = shared.clone();
    let tp = truth_path.clone();
    let mut sim = Sim::new(SimConfig {
        policy: Policy::Sequential,
        yield_on_reads: false,
        yield_on_locks: false,
        ..SimConfig::default()
    });
    sim.actor("driver", move || {
        let mut prev: Vec<u8> = seam::passthrough(|| std::fs::read(&tp).unwrap_or_default());
        let mut versions: Vec<DirImage> = Vec::new();
        let mut mix = |sh: &Arc<Mutex<Shared>>, s: &str| {
            let mut g = sh.lock().unwrap();
            for b in s.as_bytes() {
                g.hash ^= *b as u64;
                g.hash = g.hash.wrapping_mul(0x0000_0100_0000_01B3);
            }
        };
        for (k, step) in steps.iter().enumerate() {
            if sh.lock().unwrap().violation.is_some() {
                break;
            }
            match step {
                Step::Restart => {
                    w.close();
                    if let Err(e) = w.open() {
                        sh.lock().unwrap().violation = Some(Violation {
                            class: "harness".into(),
                            signature: "harness".into(),
                            detail: format!("reopen failed: {e}"),
                        });
                        break;
                    }
                    sh.lock().unwrap().stats.bump("fault:restart", 1);
                    mix(&sh, "R");
                }
                Step::SaveCacheVersion => {
                    let img = seam::passthrough(|| faults::read_tree(&w.dirs.streams_dir()));
                    versions.push(img);
                    mix(&sh, "S");
                }
                Step::Fault(f) => {
                    let threads = w.threads_sorted(w.st().store.as_ref());
                    let did = seam::passthrough(|| faults::apply_fault(&w.dirs, &threads, &versions, f));
                    if let Some(d) = did {
                        let kind = d.split(['.', ',', '!']).next().unwrap_or("x").to_string();
                        sh.lock().unwrap().stats.bump(&format!("fault:cache_{kind}"), 1);
                        mix(&sh, &format!("F{d}"));
                    }
                }
                Step::Op(op) => {
                    let r = w.exec(0, k, op);
                    let now: Vec<u8> = seam::passthrough(|| std::fs::read(&tp).unwrap_or_default());
                    let skipped = r.err.as_deref().map(|e| e.starts_with("skip:")).unwrap_or(false);
                    let class = if skipped {
                        "skip"
                    } else if op.is_read_only() {
                        "read"
                    } else if r.ok && r.noop {
                        "noop"
                    } else if r.ok {
                        "ok"
                    } else {
                        "err"
                    };
                    mix(&sh, &format!("{}:{class};", op.name()));
                    let mut g = sh.lock().unwrap();
                    g.stats.bump(&format!("op_{class}:{}", op.name()), 1);
                    // oracle 2: exact prefix, whole frames
                    if now.len() < prev.len() || now[..prev.len()] != prev[..] {
                        g.violation = Some(Violation {
                            class: "prefix_changed".into(),
                            signature: format!("prefix_changed:{}", op.name()),
                            detail: format!(
                                "step {k} {:?}: earlier bytes of events.jsonl changed (len {} -> {})",
                                op,
                                prev.len(),
                                now.len()
                            ),
                        });
                        break;
                    }
                    let suffix = &now[prev.len()..];
                    match model::parse_truth_bytes(suffix) {
                        Ok(t) => {
                            if t.torn_tail.is_some() {
                                g.violation = Some(Violation {
                                    class: "partial_line".into(),
                                    signature: format!("partial_line:{}:{class}", op.name()),
                                    detail: format!("step {k} {:?} left a partial line at the end of events.jsonl", op),
                                });
                                break;
                            }
                        }
                        Err(e) => {
                            g.violation = Some(Violation {
                                class: "suffix_not_frames".into(),
                                signature: format!("suffix_not_frames:{}", op.name()),
                                detail: format!("step {k} {:?} appended bytes that are not whole frames: {}", op, e.reason),
                            });
                            break;
                        }
                    }
                    // oracle 3: the statement's no-op set
                    if (class == "read" || class == "noop") && !suffix.is_empty() {
                        let n = model::parse_truth_bytes(suffix).map(|t| t.frames.len()).unwrap_or(0);
                        let first_ty = model::parse_truth_bytes(suffix)
                            .ok()
                            .and_then(|t| t.frames.first().map(|f| f.ty.clone()))
                            .unwrap_or_default();
                        g.violation = Some(Violation {
                            class: "noop_wrote".into(),
                            signature: format!("noop_wrote:{}:{class}", op.name()),
                            detail: format!(
                                "step {k} {:?} ({class}) appended {n} frame(s) to events.jsonl, first type {first_ty}; response {:?}",
                                op, r.response
                            ),
                        });
                        break;
                    }
                    if class == "read" || class == "noop" {
                        g.stats.bump("noop_invocations_checked", 1);
                    }
                    if class == "err" {
                        g.stats.bump("failed_ops_checked", 1);
                    }
                    if !suffix.is_empty() {
                        g.stats.bump("appending_ops", 1);
                    }
                    drop(g);
                    prev = now;
                    w.record(r);
                }
            }
        }
    });
    let sh2 = shared.clone();
    let ts = truth_str.clone();
    // effects on the truth file attributed to the operation in flight
    let rep = sim.run(move |ev| {
        if let Some(v) = truth_effect_violation(ev, &ts) {
            let mut g = sh2.lock().unwrap();
            if g.violation.is_none() {
                g.violation = Some(v);
            }
        }
        if let Point::Fs(e) = &ev.point {
            if e.kind.is_mutating() {
                let mut g = sh2.lock().unwrap();
                g.stats.bump(&format!("effect:{}", crate::sched::file_class(&e.path)), 1);
            }
        }
        Verdict::proceed()
    });
    let mut harness: Option<String> = storesim::harness_problem(&rep);
    let mut panics = rep.panics.clone();

    // ---- phase B: concurrent epilogue with the monitor
    let before_b = std::fs::read(&truth_path).unwrap_or_default();
    if harness.is_none() && shared.lock().unwrap().violation.is_none() && !sc.epilogue.is_empty() {
        let sh3 = shared.clone();
        let ts = truth_str.clone();
        let rep2 = storesim::run_phase(&world, &sc.epilogue, 1, sc.sched.config(1), move |ev| {
            if let Some(v) = truth_effect_violation(ev, &ts) {
                let mut g = sh3.lock().unwrap();
                if g.violation.is_none() {
                    g.violation = Some(v);
                }
            }
            Verdict::proceed()
        });
        harness = storesim::harness_problem(&rep2);
        panics.extend(rep2.panics.clone());
        let after_b = std::fs::read(&truth_path).unwrap_or_default();
        let mut g = shared.lock().unwrap();
        g.stats.bump("concurrent_epilogues", 1);
        g.hash ^= rep2.trace_hash;
        if g.violation.is_none() {
            if after_b.len() < before_b.len() || after_b[..before_b.len()] != before_b[..] {
                g.violation = Some(Violation {
                    class: "prefix_changed".into(),
                    signature: "prefix_changed:concurrent".into(),
                    detail: "earlier bytes of events.jsonl changed during a concurrent phase".into(),
                });
            } else if let Ok(t) = model::parse_truth_bytes(&after_b[before_b.len()..]) {
                if t.torn_tail.is_some() {
                    g.violation = Some(Violation {
                        class: "partial_line".into(),
                        signature: "partial_line:concurrent".into(),
                        detail: "partial line after a concurrent phase".into(),
                    });
                }
            } else {
                g.violation = Some(Violation {
                    class: "suffix_not_frames".into(),
                    signature: "suffix_not_frames:concurrent".into(),
                    detail: "bytes appended during a concurrent phase are not whole frames (interleaved lines)".into(),
                });
            }
        }
    }
    world.close();
    let sim_time = storesim::end_run();
    let mut g = shared.lock().unwrap();
    let mut stats = std::mem::take(&mut g.stats);
    stats.sim_time_ns = sim_time;
    stats.case_hash = g.hash;
    stats.nontrivial = stats.counters.get("appending_ops").copied().unwrap_or(0) >= 3
        && stats.counters.get("noop_invocations_checked").copied().unwrap_or(0) >= 1;
    if let Some(h) = harness {
        return (Outcome::Harness(h), stats);
    }
    if let Some(v) = g.violation.take() {
        if v.class == "harness" {
            return (Outcome::Harness(v.detail), stats);
        }
        return (Outcome::Violation(v), stats);
    }
    if let Some((who, msg)) = panics.first() {
        return (
            Outcome::Violation(Violation {
                class: "panic".into(),
                signature: format!("panic:{}", msg.chars().filter(|c| !c.is_ascii_digit()).take(60).collect::<String>()),
                detail: format!("{who} panicked: {msg}"),
            }),
            stats,
        );
    }
    (Outcome::Ok, stats)
}

impl Check for C02 {
    fn id(&self) -> &'static str {
        "C02"
    }
    fn level(&self) -> &'static str {
        "exploration"
    }
    fn technique(&self) -> &'static str {
        "deterministic simulation: seeded operation/fault/restart histories against the real store, libc seam as effect monitor on events.jsonl, byte-prefix oracle after every call"
    }
    fn budget(&self, tier: Tier) -> Budget {
        match tier {
            Tier::Quick => Budget { runs: 30_000, secs: 45 },
            Tier::Thorough => Budget { runs: 1_500_000, secs: 1200 },
        }
    }
    fn generate(&self, run_seed: u64, tier: Tier) -> Value {
        serde_json::to_value(generate(run_seed, tier)).unwrap()
    }
    fn execute(&self, scenario: &Value, env: &Env) -> (Outcome, RunStats) {
        match serde_json::from_value::<Scenario>(scenario.clone()) {
            Ok(sc) => execute(&sc, env),
            Err(e) => (Outcome::Harness(format!("bad scenario: {e}")), RunStats::default()),
        }
    }
    fn shrink(&self, scenario: &Value) -> Vec<Value> {
        let Ok(sc) = serde_json::from_value::<Scenario>(scenario.clone()) else {
            return Vec::new();
        };
        let mut out = Vec::new();
        if !sc.epilogue.is_empty() {
            let mut c = sc.clone();
            c.epilogue.clear();
            out.push(c);
        }
        let n = sc.steps.len();
        if n >= 4 {
            let mut c = sc.clone();
            c.steps.truncate(n / 2);
            out.push(c);
            let mut c = sc.clone();
            c.steps.truncate(n - 1);
            out.push(c);
        }
        for k in (1..n).rev() {
            let mut c = sc.clone();
            c.steps.remove(k);
            out.push(c);
        }
        out.into_iter().map(|s| serde_json::to_value(s).unwrap()).collect()
    }
    fn rule(&self) -> String {
        "one evaluation = one seeded history of 4-90 steps (every store operation with parameters over their whole ranges incl. invalid ones and unknown threads, authority restarts, cache faults, cache-version saves) run by one actor against the real store; after every operation events.jsonl is re-read and compared byte-for-byte with its previous content; every effect on events.jsonl is inspected at the libc seam; a quarter of the runs add a concurrent epilogue; distinct = distinct hash of the (operation, outcome-class, fault) sequence; non-trivial = at least 3 appending operations and at least one read-only/dry-run/no-op invocation checked".into()
    }
    fn assumptions(&self) -> Vec<String> {
        vec![
            "1 in 80 evaluations is a whole-engine run: after some writing runs and a task, 4-16 seeded read-only HTTP requests against the real router (listings, thread/task lookups, cut points, the three status calls, dry-run auto/schedule, task output pages, diagnostics, and SSE attaches to thread, session and task streams; known, unknown and path-like ids) must leave events.jsonl byte-identical, with no mutating effect on it seen by the seam".into(),
            "a rotate that reports rotated=false is counted as a no-op invocation".into(),
        ]
    }
    fn components(&self) -> Value {
        json!({"EventLog": "real", "ContinuityStore": "real", "caches": "real", "file system": "real tmpfs via libc seam",
               "clock/randomness": "simulated", "scheduling": "single actor; concurrent epilogue under the baton scheduler"})
    }
    fn extra_coverage(&self, c: &BTreeMap<String, u64>) -> Value {
        let faults: BTreeMap<&String, &u64> = c.iter().filter(|(k, _)| k.starts_with("fault:")).collect();
        json!({
            "fault_counts": faults,
            "noop_invocations_checked": c.get("noop_invocations_checked").copied().unwrap_or(0),
            "failed_ops_checked": c.get("failed_ops_checked").copied().unwrap_or(0),
        })
    }
}
