//! C07 — run lifecycle frames are complete, unique and causally ordered.
//!
//! Two engines:
//!  * E-sim (runs): the real router + session engine + tool runner + continuity store, driven over
//!    `oneshot` requests, talking to a scripted provider stub. Seeded provider behaviour (text,
//!    tool calls, malformed JSON, schema-invalid events, HTTP errors with long / multi-byte bodies,
//!    connection drop at a byte, missing [DONE], empty body, garbage, close without response), tool
//!    outcomes (success, failure, timeout, unknown tool, rejected by tool_choice, invalid arguments),
//!    all input kinds (prompt, tool envelope, checkpoint envelope), parallel runs on one thread,
//!    and an artifact-store fault that makes context compilation fail.
//!  * S-sim (jobs): the store's synchronous compaction drivers under the syscall seam with a
//!    seeded failure of the k-th artifact write inside a job.
//! Oracle: lifecycle automaton over the independently parsed truth log.

use std::collections::BTreeMap;
use std::sync::{Arc, Mutex};
use std::time::Duration;

use serde::{Deserialize, Serialize};
use serde_json::{json, Value};

use crate::driver::{Budget, Check, Env, Outcome, RunStats, Tier, Violation};
use crate::esim::{self, ArgMode, Chunking, DoneMode, Engine, ProviderCfg, Resp, SseEv};
use crate::model::{Frame, Truth};
use crate::prng::{fnv1a, Rng};
use crate::sched::{Point, Verdict};
use crate::seam::{Decision, EffectKind};
use crate::storesim;
use crate::world::{Op, World};

#[derive(Clone, Debug, Serialize, Deserialize, PartialEq)]
pub enum Content {
    Prompt(String),
    Tool { tool: String, args: Value, timeout_ms: Option<u64> },
    CheckpointCreate { label: String, files: Vec<String> },
    CheckpointRewind { which: u32 },
    Raw(String),
}

impl Content {
    pub fn render(&self, checkpoints: &[String]) -> String {
        match self {
            Content::Prompt(s) | Content::Raw(s) => s.clone(),
            Content::Tool { tool, args, timeout_ms } => {
                let mut m = json!({"tool": tool, "args": args});
                if let Some(t) = timeout_ms {
                    m["timeout_ms"] = json!(t);
                }
                m.to_string()
            }
            Content::CheckpointCreate { label, files } => json!({"checkpoint": {"action": "create", "label": label, "files": files}}).to_string(),
            Content::CheckpointRewind { which } => {
                let id = if checkpoints.is_empty() { "no-such-checkpoint".to_string() } else { checkpoints[*which as usize % checkpoints.len()].clone() };
                json!({"checkpoint": {"action": "rewind", "id": id}}).to_string()
            }
        }
    }
}

#[derive(Clone, Debug, Serialize, Deserialize, PartialEq)]
pub enum Step {
    Post { thread: u8, content: Content, wait: bool },
    Session { content: Content, wait: bool },
    /// the client sends input to the most recent thread-less session once more (a retried request,
    /// a second submit) — right away, or after that session has ended. Whatever the answer, the
    /// session's stream must stay one well-formed stream.
    #[serde(alias = "SecondInput")]
    InputAgain { content: Content, after_end: bool },
    /// the client sends a session input to the session id of the most recent *thread run* (a run's
    /// session is reachable under /sessions like any other; its input was the thread message)
    InputToRun { content: Content, after_end: bool },
    /// the client cancels the most recent run through `POST /sessions/{id}/cancel`, this many ms
    /// after the previous step (a thread run's session, or a thread-less session): whatever
    /// cancelling does to the run, its lifecycle frames must still be complete
    Cancel { after_ms: u64, thread_run: bool },
    Branch,
    BlockArtifacts,
    UnblockArtifacts,
    Settle,
}

#[derive(Clone, Debug, Serialize, Deserialize, PartialEq)]
pub struct RunsScenario {
    pub cfg: ProviderCfg,
    pub with_provider: bool,
    pub script: Vec<Resp>,
    pub steps: Vec<Step>,
}

#[derive(Clone, Debug, Serialize, Deserialize, PartialEq)]
pub struct JobsScenario {
    pub sim_seed: u64,
    pub steps: Vec<Op>,
    /// fail the k-th mutating effect on an artifact path inside step `at_step` with this errno
    pub fail_step: usize,
    pub fail_nth: u32,
    pub errno: i32,
}

#[derive(Clone, Debug, Serialize, Deserialize, PartialEq)]
pub enum Scenario {
    Runs(RunsScenario),
    Jobs(JobsScenario),
}

pub struct C07;

// ---------------------------------------------------------------------------------------------
// generators (shared with C16 / C19 / C11)

pub fn gen_tool_call_args(rng: &mut Rng, name: &str, uniq: u64) -> String {
    match name {
        "write" => json!({"path": format!("w{uniq}.txt"), "content": format!("content {uniq}\n")}).to_string(),
        "read" => json!({"path": if rng.chance(1, 2) { "seed.txt".to_string() } else { format!("missing{uniq}.txt") }}).to_string(),
        "ls" => json!({"path": "."}).to_string(),
        "grep" => json!({"pattern": "seed"}).to_string(),
        "bash" | "shell" => json!({"command": match rng.below(4) { 0 => format!("echo out{uniq}"), 1 => format!("echo x > b{uniq}.txt"), 2 => "exit 3".to_string(), _ => format!("echo e{uniq} 1>&2; sleep 0.02") }}).to_string(),
        "apply_patch" => json!({"patch": format!("*** Begin Patch\n*** Add File: p{uniq}.txt\n+patched {uniq}\n*** End Patch\n")}).to_string(),
        "artifact_fetch" => json!({"id": "0".repeat(64)}).to_string(),
        _ => json!({"x": uniq}).to_string(),
    }
}

pub const TOOL_NAMES: &[&str] = &["write", "read", "ls", "grep", "bash", "shell", "apply_patch", "artifact_fetch", "no_such_tool"];

pub fn gen_fn_call(rng: &mut Rng, output_index: u64, uniq: u64) -> SseEv {
    let name = TOOL_NAMES[rng.usize_below(TOOL_NAMES.len())].to_string();
    let mut args = gen_tool_call_args(rng, &name, uniq);
    if rng.chance(1, 12) {
        args = "{not json".into();
    }
    if rng.chance(1, 14) {
        args = json!({"path": 5}).to_string();
    }
    let mode = match rng.below(4) {
        0 | 1 => ArgMode::Inline,
        2 => ArgMode::Deltas(rng.range(1, 4) as u32),
        _ => ArgMode::DoneEvent,
    };
    SseEv::FnCall { output_index, item_id: Some(format!("fc_{uniq}")), call_id: Some(format!("call_{uniq}")), name, args, mode, never_done: false, omit_call_id_on_done: false }
}

fn long_body(rng: &mut Rng) -> String {
    // error pages of various sizes, with multi-byte text at varying byte offsets
    let unit = ["é", "日本", "x", "🙂", "<p>Fehler: Übermäßige Anfragen</p>", "abc"];
    let target = *rng.pick(&[0usize, 10, 300, 2040, 2047, 2050, 4096, 9000]);
    let mut s = String::new();
    for _ in 0..rng.below(4) {
        s.push('a');
    }
    while s.len() < target {
        s.push_str(unit[rng.usize_below(unit.len())]);
    }
    s
}

pub fn gen_resp(rng: &mut Rng, uniq: &mut u64, allow_tools: bool, resp_no: u64) -> Resp {
    let id = format!("resp_{resp_no}");
    match rng.below(20) {
        0 => Resp::HttpError { status: *rng.pick(&[400u16, 401, 404, 429, 500, 503]), echo_request: rng.chance(1, 2), body: long_body(rng) },
        1 => Resp::EmptyBody,
        2 => Resp::Garbage,
        3 => Resp::CloseWithoutResponse,
        _ => {
            let mut events = Vec::new();
            if rng.chance(9, 10) {
                events.push(SseEv::Created { id: id.clone() });
            }
            for _ in 0..rng.below(3) {
                events.push(SseEv::TextDelta { text: format!("t{} ", rng.below(100)) });
            }
            if rng.chance(1, 8) {
                events.push(SseEv::InvalidJson);
            }
            if rng.chance(1, 8) {
                events.push(SseEv::SchemaInvalid);
            }
            if allow_tools && rng.chance(1, 2) {
                for k in 0..rng.range(1, 3) {
                    *uniq += 1;
                    events.push(gen_fn_call(rng, k, *uniq));
                }
            }
            if rng.chance(3, 4) {
                events.push(SseEv::Completed { id });
            }
            let (bytes, _) = esim::render_sse(&events, false, &DoneMode::Present, false);
            Resp::Sse {
                events,
                interleave: rng.chance(1, 4),
                done: match rng.below(8) {
                    0 => DoneMode::Missing,
                    1 => DoneMode::Twice,
                    _ => DoneMode::Present,
                },
                chunking: match rng.below(4) {
                    0 => Chunking::Whole,
                    1 => Chunking::PerEvent,
                    2 => Chunking::Bytes(rng.range(1, 400) as u32),
                    _ => Chunking::Seeded(rng.next_u64()),
                },
                drop_after: if rng.chance(1, 8) { Some(rng.below(bytes.len() as u64 + 1) as u32) } else { None },
                crlf: rng.chance(1, 5),
            }
        }
    }
}

pub fn gen_tool_choice(rng: &mut Rng) -> String {
    match rng.below(8) {
        0..=3 => "auto".into(),
        4 => "none".into(),
        5 => "required".into(),
        6 => format!("function:{}", rng.pick(&["write", "read", "bash"])),
        _ => format!("json:{}", json!({"type": "allowed_tools", "mode": "auto", "tools": [{"type": "function", "name": rng.pick(&["read", "ls", "write"])}]})),
    }
}

fn gen_content(rng: &mut Rng, uniq: &mut u64) -> Content {
    *uniq += 1;
    let u = *uniq;
    match rng.below(20) {
        0..=10 => Content::Prompt(format!("please do thing {u}")),
        11 => Content::Tool { tool: "write".into(), args: json!({"path": format!("d{u}.txt"), "content": "direct\n"}), timeout_ms: None },
        12 => Content::Tool { tool: "bash".into(), args: json!({"command": format!("echo d{u}; sleep 0.03")}), timeout_ms: None },
        13 => Content::Tool { tool: "bash".into(), args: json!({"command": "sleep 2"}), timeout_ms: Some(40) },
        14 => Content::Tool { tool: "no_such_tool".into(), args: json!({}), timeout_ms: None },
        15 => Content::Tool { tool: "write".into(), args: json!({"path": 7}), timeout_ms: None },
        16 => Content::Tool { tool: rng.pick(&["read", "ls", "grep"]).to_string(), args: json!({"path": "seed.txt", "pattern": "seed"}), timeout_ms: None },
        17 => Content::CheckpointCreate { label: format!("cp{u}"), files: vec![if rng.chance(3, 4) { "seed.txt".to_string() } else { format!("nope{u}.txt") }] },
        18 => Content::CheckpointRewind { which: rng.below(4) as u32 },
        _ => Content::Raw(rng.pick(&["{\"tool\":", "{\"checkpoint\":{\"action\":\"explode\"}}", "", "{\"tool\":\"write\"}"]).to_string()),
    }
}

fn generate_runs(run_seed: u64, tier: Tier) -> RunsScenario {
    let mut rng = Rng::derive(run_seed, "runs");
    let mut uniq = 0u64;
    let with_provider = rng.chance(9, 10);
    let cfg = ProviderCfg {
        tool_choice: gen_tool_choice(&mut rng),
        stateless_history: rng.chance(1, 3),
        parallel_tool_calls: rng.chance(1, 4),
        api_key: if rng.chance(1, 2) { Some("sk-test".into()) } else { None },
        headers: vec![],
        followup_user_message: if rng.chance(1, 6) { Some("continue".into()) } else { None },
    };
    let n_resp = rng.range(1, if tier == Tier::Quick { 4 } else { 7 });
    let mut script = Vec::new();
    for i in 0..n_resp {
        let r = gen_resp(&mut rng, &mut uniq, true, i);
        script.push(r);
    }
    // the last scripted response repeats for all further requests: usually it never asks for
    // tools; 1 in 6 keeps asking for one (possibly one the tool choice bars), so that only the
    // engine's own bound can end the run
    if rng.chance(1, 6) {
        uniq += 1;
        let name = *rng.pick(&["ls", "read", "write", "no_such_tool"]);
        let args = gen_tool_call_args(&mut rng, name, uniq);
        script.push(Resp::Sse { events: vec![SseEv::Created { id: format!("resp_{n_resp}") }, SseEv::FnCall { output_index: 0, item_id: Some(format!("fc_{uniq}")), call_id: Some(format!("call_{uniq}")), name: name.to_string(), args, mode: ArgMode::Inline, never_done: false, omit_call_id_on_done: false }, SseEv::Completed { id: format!("resp_{n_resp}") }], interleave: false, done: DoneMode::Present, chunking: Chunking::Whole, drop_after: None, crlf: false });
    } else {
        let r = gen_resp(&mut rng, &mut uniq, false, n_resp);
        script.push(r);
    }
    let mut steps = Vec::new();
    let n = rng.range(1, if tier == Tier::Quick { 4 } else { 6 });
    let mut branched = false;
    let mut blocked = false;
    for _ in 0..n {
        match rng.below(14) {
            0 if !branched => {
                steps.push(Step::Branch);
                branched = true;
            }
            1 if !blocked => {
                steps.push(Step::Settle);
                steps.push(Step::BlockArtifacts);
                blocked = true;
            }
            2 if blocked => {
                steps.push(Step::Settle);
                steps.push(Step::UnblockArtifacts);
                blocked = false;
            }
            3 => steps.push(Step::Session { content: gen_content(&mut rng, &mut uniq), wait: rng.chance(1, 2) }),
            _ => {
                let thread = if branched && rng.chance(1, 3) { 1 } else { 0 };
                steps.push(Step::Post { thread, content: gen_content(&mut rng, &mut uniq), wait: rng.chance(3, 5) });
            }
        }
    }
    if !steps.iter().any(|s| matches!(s, Step::Post { .. })) {
        steps.push(Step::Post { thread: 0, content: Content::Prompt("hello".into()), wait: true });
    }
    // own sub-stream: after a third of the thread-less sessions the client sends input once more
    let mut arng = Rng::derive(run_seed, "c07:input-again");
    let mut k = 0;
    while k < steps.len() {
        if matches!(steps[k], Step::Session { .. }) && arng.chance(1, 3) {
            let content = if arng.chance(1, 2) { Content::Prompt("the same question again".into()) } else { Content::Tool { tool: "ls".into(), args: json!({"path": "."}), timeout_ms: None } };
            steps.insert(k + 1, Step::InputAgain { content, after_end: arng.chance(1, 2) });
            k += 1;
        }
        k += 1;
    }
    // own sub-stream: 1 in 5 scripts carry a byte that is not UTF-8 in the middle of a response
    let mut script = script;
    let mut irng = Rng::derive(run_seed, "c07:invalid-byte");
    if irng.chance(1, 5) {
        crate::esim::inject_invalid_byte(&mut script, &mut irng);
    }
    // own sub-stream: after 1 in 5 thread posts the client sends a session input to the run's session
    let mut rrng = Rng::derive(run_seed, "c07:input-to-run");
    let mut k = 0;
    while k < steps.len() {
        if matches!(steps[k], Step::Post { .. }) && rrng.chance(1, 5) {
            let content = if rrng.chance(1, 2) { Content::Prompt("and another thing".into()) } else { Content::Tool { tool: "ls".into(), args: json!({"path": "."}), timeout_ms: None } };
            steps.insert(k + 1, Step::InputToRun { content, after_end: rrng.chance(1, 2) });
            k += 1;
        }
        k += 1;
    }
    // own sub-stream: a third of the runs that are not waited for are cancelled 0-30 ms in, and 1 in
    // 8 of the others after their end
    let mut crng = Rng::derive(run_seed, "c07:cancel");
    let mut k = 0;
    while k < steps.len() {
        let (is_post, is_session, waited) = match &steps[k] {
            Step::Post { wait, .. } => (true, false, *wait),
            Step::Session { wait, .. } => (false, true, *wait),
            _ => (false, false, true),
        };
        let next_is_again = matches!(steps.get(k + 1), Some(Step::InputAgain { .. }) | Some(Step::InputToRun { .. }));
        if (is_post || is_session) && !next_is_again && crng.chance(1, if waited { 8 } else { 3 }) {
            steps.insert(k + 1, Step::Cancel { after_ms: crng.below(30), thread_run: is_post });
            k += 1;
        }
        k += 1;
    }
    // own sub-stream: 1 in 4 scripts carry keep-alive / unknown-type events inside a response
    let mut orng = Rng::derive(run_seed, "c07:odd-events");
    if orng.chance(1, 4) {
        crate::esim::inject_odd_events(&mut script, &mut orng);
    }
    RunsScenario { cfg, with_provider, script, steps }
}

fn generate_jobs(run_seed: u64, tier: Tier) -> JobsScenario {
    let mut rng = Rng::derive(run_seed, "jobs");
    let mut steps = vec![Op::EnsureDefault];
    let n = rng.range(3, if tier == Tier::Quick { 14 } else { 30 });
    for _ in 0..n {
        steps.push(Op::AppendMessage { thread: 0, size: rng.range(0, 2) as u32 });
    }
    let k = rng.range(1, 3);
    for _ in 0..k {
        let op = if rng.chance(1, 2) {
            Op::CompactionAuto { thread: 0, stride: Some(rng.range(1, 4)), max_new: Some(rng.range(1, 4) as u32), dry_run: None }
        } else {
            Op::CompactionSchedule { thread: 0, stride: Some(rng.range(1, 4)), max_new: Some(rng.range(1, 4) as u32), block: None, execute: Some(true), dry_run: None }
        };
        steps.push(op);
        for _ in 0..rng.below(3) {
            steps.push(Op::AppendMessage { thread: 0, size: 1 });
        }
    }
    let job_steps: Vec<usize> = steps.iter().enumerate().filter(|(_, s)| matches!(s, Op::CompactionAuto { .. } | Op::CompactionSchedule { .. })).map(|(i, _)| i).collect();
    JobsScenario {
        sim_seed: crate::prng::mix_label(run_seed, "sim"),
        fail_step: *rng.pick(&job_steps),
        fail_nth: rng.below(8) as u32,
        errno: *rng.pick(&[libc::ENOSPC, libc::EIO, libc::EACCES]),
        steps,
    }
}

pub fn generate(run_seed: u64, tier: Tier) -> Scenario {
    let mut rng = Rng::derive(run_seed, "kind");
    if rng.chance(1, 5) {
        Scenario::Jobs(generate_jobs(run_seed, tier))
    } else {
        Scenario::Runs(generate_runs(run_seed, tier))
    }
}

// ---------------------------------------------------------------------------------------------
// oracle

pub struct PostRec {
    pub thread_id: String,
    pub message_id: String,
    pub session_id: String,
}

fn viol(class: &str, sig: String, detail: String) -> Violation {
    Violation { class: class.into(), signature: sig, detail }
}

pub fn check_session_stream(truth: &Truth, sid: &str) -> Option<Violation> {
    let s = truth.stream("session", sid);
    if s.is_empty() {
        return Some(viol("session_stream_missing", "session_stream_missing".into(), format!("session {sid} has no frames")));
    }
    if s[0].ty != "session_started" || s[0].seq != 0 {
        return Some(viol("session_start_wrong", "session_start_wrong".into(), format!("session {sid} starts with {} at seq {}", s[0].ty, s[0].seq)));
    }
    let starts = s.iter().filter(|f| f.ty == "session_started").count();
    if starts != 1 {
        return Some(viol("session_started_count", format!("session_started_count:{starts}"), format!("session {sid} has {starts} session_started frames")));
    }
    let ends: Vec<&&Frame> = s.iter().filter(|f| f.ty == "session_ended").collect();
    if ends.len() != 1 {
        let reasons: Vec<&str> = ends.iter().map(|f| f.s("reason").unwrap_or("?")).collect();
        return Some(viol("session_ended_count", format!("session_ended_count:{}", ends.len().min(2)), format!("session {sid} has {} session_ended frames (reasons {:?}); stream types: {:?}", ends.len(), reasons, s.iter().map(|f| format!("{}@{}", f.ty, f.seq)).collect::<Vec<_>>())));
    }
    let end = ends[0];
    let last = s.last().unwrap();
    let max_seq = s.iter().map(|f| f.seq).max().unwrap();
    if last.line_no != end.line_no || end.seq != max_seq {
        return Some(viol("frames_after_session_ended", "frames_after_session_ended".into(), format!("session {sid}: session_ended at seq {} line {}, but last frame is {} seq {} line {} (max seq {max_seq})", end.seq, end.line_no, last.ty, last.seq, last.line_no)));
    }
    None
}

pub fn check_lifecycle(truth: &Truth, posts: &[PostRec], sessions: &[String]) -> Option<Violation> {
    let mut by_thread: BTreeMap<String, Vec<&PostRec>> = BTreeMap::new();
    for p in posts {
        by_thread.entry(p.thread_id.clone()).or_default().push(p);
    }
    for (tid, ps) in &by_thread {
        let t = truth.stream("continuity", tid);
        let pos = |f: &Frame| f.line_no;
        let spawned_total = t.iter().filter(|f| f.ty == "continuity_run_spawned").count();
        let ended_total = t.iter().filter(|f| f.ty == "continuity_run_ended").count();
        for p in ps {
            let sid = p.session_id.as_str();
            let msg: Vec<&&Frame> = t.iter().filter(|f| f.ty == "continuity_message_appended" && f.id == p.message_id).collect();
            let spawned: Vec<&&Frame> = t.iter().filter(|f| f.ty == "continuity_run_spawned" && f.s("message_id") == Some(p.message_id.as_str())).collect();
            if spawned.len() != 1 {
                return Some(viol("run_spawned_count", format!("run_spawned_count:{}", spawned.len().min(2)), format!("message {} has {} run_spawned frames", p.message_id, spawned.len())));
            }
            if spawned[0].s("run_session_id") != Some(sid) {
                return Some(viol("run_spawned_wrong_session", "run_spawned_wrong_session".into(), format!("run_spawned names {:?}, the API returned {sid}", spawned[0].s("run_session_id"))));
            }
            let ended: Vec<&&Frame> = t.iter().filter(|f| f.ty == "continuity_run_ended" && f.s("run_session_id") == Some(sid)).collect();
            if ended.len() != 1 {
                return Some(viol("run_ended_count", format!("run_ended_count:{}", ended.len().min(2)), format!("run {sid} has {} run_ended frames", ended.len())));
            }
            if let Some(v) = check_session_stream(truth, sid) {
                return Some(v);
            }
            let s = truth.stream("session", sid);
            let s_end = s.iter().find(|f| f.ty == "session_ended").unwrap();
            let reason = s_end.s("reason").unwrap_or("?").to_string();
            if pos(s_end) > pos(ended[0]) {
                return Some(viol("run_ended_before_session_ended", "run_ended_before_session_ended".into(), format!("run {sid}: run_ended at line {}, session_ended at line {}", pos(ended[0]), pos(s_end))));
            }
            if msg.len() != 1 || pos(msg[0]) > pos(spawned[0]) || pos(spawned[0]) > pos(ended[0]) {
                return Some(viol("run_frames_out_of_order", "run_frames_out_of_order:message_spawned_ended".into(), format!("run {sid}: message lines {:?}, spawned {}, ended {}", msg.iter().map(|f| f.line_no).collect::<Vec<_>>(), pos(spawned[0]), pos(ended[0]))));
            }
            let of_run = |ty: &str| -> Vec<&&Frame> { t.iter().filter(|f| f.ty == ty && f.s("run_session_id") == Some(sid)).collect() };
            let sel = of_run("continuity_context_selection_decided");
            let comp = of_run("continuity_context_compiled");
            let fx = of_run("continuity_tool_side_effects");
            let cur = of_run("continuity_provider_cursor_updated");
            if sel.len() > 1 || comp.len() > 1 || cur.len() > 1 {
                return Some(viol("run_frame_duplicated", format!("run_frame_duplicated:sel{}:comp{}:cur{}", sel.len().min(2), comp.len().min(2), cur.len().min(2)), format!("run {sid}: {} selection, {} compiled, {} cursor frames", sel.len(), comp.len(), cur.len())));
            }
            if sel.len() != comp.len() {
                return Some(viol("selection_compile_mismatch", format!("selection_compile_mismatch:sel{}:comp{}", sel.len(), comp.len()), format!("run {sid}: {} selection_decided but {} context_compiled (session reason {reason})", sel.len(), comp.len())));
            }
            let provider_used = s.iter().any(|f| f.ty == "openresponses_request_started" || f.ty == "provider_event" || f.ty == "openresponses_request");
            if provider_used && sel.is_empty() {
                return Some(viol("provider_run_without_compile", "provider_run_without_compile".into(), format!("run {sid} talked to the provider (session reason {reason}) but the thread has no selection/compile frames for it")));
            }
            if reason == "context_compile_failed" && (!sel.is_empty() || provider_used) {
                return Some(viol("compile_failed_run_continued", "compile_failed_run_continued".into(), format!("run {sid} ended with context_compile_failed but has selection frames or provider traffic")));
            }
            let lo = pos(spawned[0]);
            let hi = pos(ended[0]);
            let mut chain: Vec<(&str, usize)> = Vec::new();
            if let Some(f) = sel.first() {
                chain.push(("selection_decided", pos(f)));
            }
            if let Some(f) = comp.first() {
                chain.push(("context_compiled", pos(f)));
            }
            for f in &fx {
                chain.push(("tool_side_effects", pos(f)));
            }
            if let Some(f) = cur.first() {
                chain.push(("cursor_updated", pos(f)));
            }
            let mut prev = ("run_spawned", lo);
            for c in chain.iter().chain(std::iter::once(&("run_ended", hi))) {
                if c.1 < prev.1 {
                    return Some(viol("run_frames_out_of_order", format!("run_frames_out_of_order:{}_before_{}", c.0, prev.0), format!("run {sid}: {} at line {} precedes {} at line {}", c.0, c.1, prev.0, prev.1)));
                }
                prev = *c;
            }
        }
        if spawned_total != ps.len() || ended_total != ps.len() {
            return Some(viol("run_frames_without_post", "run_frames_without_post".into(), format!("thread {tid}: {} posts accepted, {spawned_total} run_spawned and {ended_total} run_ended frames", ps.len())));
        }
    }
    for sid in sessions {
        if let Some(v) = check_session_stream(truth, sid) {
            return Some(v);
        }
    }
    check_jobs(truth)
}

pub fn check_jobs(truth: &Truth) -> Option<Violation> {
    let mut spawned: BTreeMap<String, usize> = BTreeMap::new();
    let mut ended: BTreeMap<String, Vec<usize>> = BTreeMap::new();
    for f in &truth.frames {
        if f.ty == "continuity_job_spawned" {
            if let Some(j) = f.s("job_id") {
                if spawned.insert(j.to_string(), f.line_no).is_some() {
                    return Some(viol("job_spawned_twice", "job_spawned_twice".into(), format!("job {j} spawned twice")));
                }
            }
        }
        if f.ty == "continuity_job_ended" {
            if let Some(j) = f.s("job_id") {
                ended.entry(j.to_string()).or_default().push(f.line_no);
            }
        }
    }
    for (j, lines) in &ended {
        if lines.len() > 1 {
            let statuses: Vec<String> = truth.frames.iter().filter(|f| f.ty == "continuity_job_ended" && f.s("job_id") == Some(j.as_str())).map(|f| format!("{}:{}", f.s("status").unwrap_or("?"), f.v.get("error").map(|e| e.to_string()).unwrap_or_default())).collect();
            return Some(viol("job_ended_twice", "job_ended_twice".into(), format!("job {j} has {} job_ended frames at lines {:?}: {:?}", lines.len(), lines, statuses)));
        }
        match spawned.get(j) {
            None => return Some(viol("job_ended_without_spawn", "job_ended_without_spawn".into(), format!("job {j} ended at line {} but never spawned", lines[0]))),
            Some(s) if *s > lines[0] => return Some(viol("job_ended_before_spawn", "job_ended_before_spawn".into(), format!("job {j}: ended line {} spawned line {s}", lines[0]))),
            _ => {}
        }
    }
    None
}

// ---------------------------------------------------------------------------------------------
// execution: runs

pub fn block_artifacts(ws: &std::path::Path) {
    let art = ws.join(".rip/artifacts");
    let _ = std::fs::create_dir_all(ws.join(".rip"));
    if art.is_dir() {
        let _ = std::fs::rename(&art, ws.join(".rip/artifacts.off"));
    }
    let _ = std::fs::write(&art, b"not a directory");
}

pub fn unblock_artifacts(ws: &std::path::Path) {
    let art = ws.join(".rip/artifacts");
    if art.is_file() {
        let _ = std::fs::remove_file(&art);
    }
    let off = ws.join(".rip/artifacts.off");
    if off.is_dir() {
        let _ = std::fs::rename(&off, &art);
    }
}

pub enum WaitErr {
    Stuck { panics: Vec<String>, detail: String },
    Harness(String),
}

/// Wait until every listed session has its terminal frames (run_ended for thread runs).
pub fn wait_runs(engine: &Engine, posts: &[PostRec], sessions: &[String], seen_panics: &mut Vec<String>) -> Result<Truth, WaitErr> {
    let mut last_len = 0usize;
    let mut last_change = std::time::Instant::now();
    let mut panics: Vec<String> = std::mem::take(seen_panics);
    let mut stuck: Option<String> = None;
    let res = engine.wait_until(Duration::from_secs(60), |t| {
        let done = posts.iter().all(|p| t.frames.iter().any(|f| f.ty == "continuity_run_ended" && f.s("run_session_id") == Some(p.session_id.as_str())))
            && sessions.iter().all(|s| t.frames.iter().any(|f| f.ty == "session_ended" && f.stream_id == *s));
        if done {
            return true;
        }
        if t.bytes_len != last_len {
            last_len = t.bytes_len;
            last_change = std::time::Instant::now();
        }
        panics.extend(esim::panics_take());
        // a run that keeps calling tools without end never reaches its closing frames
        let mut per_session: BTreeMap<&str, usize> = BTreeMap::new();
        for f in t.frames.iter().filter(|f| f.ty == "tool_started") {
            *per_session.entry(f.stream_id.as_str()).or_insert(0) += 1;
        }
        if let Some((sid, n)) = per_session.iter().find(|(sid, n)| **n > 100 && !t.frames.iter().any(|f| f.stream_id == **sid && f.ty == "session_ended")) {
            stuck = Some(format!("session {sid} has handled {n} tool calls and is still running"));
            return true;
        }
        let idle = last_change.elapsed();
        if (!panics.is_empty() && idle > Duration::from_millis(1500)) || idle > Duration::from_secs(20) {
            stuck = Some(format!("no new frame for {:?}", idle));
            return true;
        }
        false
    });
    *seen_panics = panics.clone();
    match res {
        Err(e) => Err(WaitErr::Harness(e)),
        Ok(t) => match stuck {
            Some(detail) => Err(WaitErr::Stuck { panics, detail }),
            None => Ok(t),
        },
    }
}

fn resp_kind(r: &Resp) -> &'static str {
    match r {
        Resp::Sse { drop_after: Some(_), .. } => "connection_drop_at_byte",
        Resp::Sse { done: DoneMode::Missing, .. } => "missing_done",
        Resp::Sse { .. } => "sse",
        Resp::HttpError { .. } => "http_error",
        Resp::EmptyBody => "empty_body",
        Resp::Garbage => "garbage_body",
        Resp::CloseWithoutResponse => "close_without_response",
    }
}

fn execute_runs(sc: &RunsScenario, env: &Env) -> (Outcome, RunStats) {
    let mut stats = RunStats::default();
    let _ = esim::panics_take();
    let engine = match Engine::new(&env.root.join("e"), &sc.cfg, sc.script.clone(), sc.with_provider) {
        Ok(e) => e,
        Err(e) => return (Outcome::Harness(e), stats),
    };
    let _ = std::fs::write(engine.ws.join("seed.txt"), "seed line\nsecond\n");
    let (st, v) = match engine.call_json("POST", "/threads/ensure", None) {
        Ok(r) => r,
        Err(e) => return (Outcome::Harness(format!("ensure: {e}")), stats),
    };
    let Some(t0) = v.get("thread_id").and_then(|t| t.as_str()).map(|s| s.to_string()) else {
        return (Outcome::Harness(format!("ensure: status {st} body {v}")), stats);
    };
    let mut threads = vec![t0];
    let mut posts: Vec<PostRec> = Vec::new();
    let mut sessions: Vec<String> = Vec::new();
    let mut checkpoints: Vec<String> = Vec::new();
    let mut blocked = false;
    let mut seen_panics: Vec<String> = Vec::new();
    let mut stuck_early: Option<WaitErr> = None;
    for step in &sc.steps {
        match step {
            Step::Branch => {
                if threads.len() == 1 {
                    match engine.call_json("POST", &format!("/threads/{}/branch", threads[0]), Some(json!({}))) {
                        Ok((201, v)) => {
                            if let Some(t) = v.get("thread_id").and_then(|t| t.as_str()) {
                                threads.push(t.to_string());
                            }
                        }
                        Ok(_) => {}
                        Err(e) => return (Outcome::Harness(format!("branch: {e}")), stats),
                    }
                }
            }
            Step::BlockArtifacts => {
                block_artifacts(&engine.ws);
                blocked = true;
                stats.bump("fault:artifact_store_unwritable", 1);
            }
            Step::UnblockArtifacts => {
                unblock_artifacts(&engine.ws);
                blocked = false;
            }
            Step::Settle => match wait_runs(&engine, &posts, &sessions, &mut seen_panics) {
                Ok(_) => {}
                Err(WaitErr::Harness(e)) => return (Outcome::Harness(e), stats),
                Err(e @ WaitErr::Stuck { .. }) => {
                        stuck_early = Some(e);
                        break;
                    }
            },
            Step::Post { thread, content, wait } => {
                let tid = threads[(*thread as usize).min(threads.len() - 1)].clone();
                // learn checkpoint ids created so far (for rewinds)
                if matches!(content, Content::CheckpointRewind { .. }) {
                    if let Ok(t) = crate::model::parse_truth_file(&engine.data.join("events.jsonl")) {
                        checkpoints = t.frames.iter().filter(|f| f.ty == "checkpoint_created").filter_map(|f| f.s("checkpoint_id").map(|s| s.to_string())).collect();
                    }
                }
                let body = json!({"content": content.render(&checkpoints)});
                match engine.call_json("POST", &format!("/threads/{tid}/messages"), Some(body)) {
                    Ok((202, v)) => {
                        let (Some(m), Some(s)) = (v.get("message_id").and_then(|x| x.as_str()), v.get("session_id").and_then(|x| x.as_str())) else {
                            return (Outcome::Harness(format!("post: body {v}")), stats);
                        };
                        posts.push(PostRec { thread_id: tid, message_id: m.to_string(), session_id: s.to_string() });
                        stats.bump(
                            match content {
                                Content::Prompt(_) => "input:prompt",
                                Content::Tool { .. } => "input:tool_envelope",
                                Content::CheckpointCreate { .. } | Content::CheckpointRewind { .. } => "input:checkpoint_envelope",
                                Content::Raw(_) => "input:malformed_envelope",
                            },
                            1,
                        );
                        if !*wait {
                            stats.bump("parallel_posts", 1);
                        }
                    }
                    Ok((st, v)) => return (Outcome::Harness(format!("post: status {st} body {v}")), stats),
                    Err(e) => return (Outcome::Harness(format!("post: {e}")), stats),
                }
                if *wait {
                    match wait_runs(&engine, &posts, &sessions, &mut seen_panics) {
                        Ok(_) => {}
                        Err(WaitErr::Harness(e)) => return (Outcome::Harness(e), stats),
                        Err(e @ WaitErr::Stuck { .. }) => {
                        stuck_early = Some(e);
                        break;
                    }
                    }
                }
            }
            Step::Cancel { after_ms, thread_run } => {
                let sid = if *thread_run { posts.last().map(|p| p.session_id.clone()) } else { sessions.last().cloned() };
                let Some(sid) = sid else {
                    continue;
                };
                engine.settle(*after_ms);
                match engine.call("POST", &format!("/sessions/{sid}/cancel"), None) {
                    Ok((st, _)) => stats.bump(&format!("fault:session_cancel_requested:status_{st}"), 1),
                    Err(e) => return (Outcome::Harness(format!("cancel: {e}")), stats),
                }
            }
            Step::InputToRun { content, after_end } => {
                let Some(sid) = posts.last().map(|p| p.session_id.clone()) else {
                    continue;
                };
                if *after_end {
                    match wait_runs(&engine, &posts, &sessions, &mut seen_panics) {
                        Ok(_) => {}
                        Err(WaitErr::Harness(e)) => return (Outcome::Harness(e), stats),
                        Err(e @ WaitErr::Stuck { .. }) => {
                            stuck_early = Some(e);
                            break;
                        }
                    }
                }
                match engine.call("POST", &format!("/sessions/{sid}/input"), Some(json!({"input": content.render(&checkpoints)}))) {
                    Ok((st, _)) => stats.bump(&format!("input_to_run_session:status_{st}"), 1),
                    Err(e) => return (Outcome::Harness(format!("send input to a run's session: {e}")), stats),
                }
                stats.bump("fault:session_input_sent_to_a_thread_run", 1);
            }
            Step::InputAgain { content, after_end } => {
                let Some(sid) = sessions.last().cloned() else {
                    continue;
                };
                if *after_end {
                    match wait_runs(&engine, &posts, &sessions, &mut seen_panics) {
                        Ok(_) => {}
                        Err(WaitErr::Harness(e)) => return (Outcome::Harness(e), stats),
                        Err(e @ WaitErr::Stuck { .. }) => {
                            stuck_early = Some(e);
                            break;
                        }
                    }
                }
                match engine.call("POST", &format!("/sessions/{sid}/input"), Some(json!({"input": content.render(&checkpoints)}))) {
                    Ok((st, _)) => stats.bump(&format!("input_again:status_{st}"), 1),
                    Err(e) => return (Outcome::Harness(format!("send input again: {e}")), stats),
                }
                stats.bump(if *after_end { "fault:input_sent_again_after_session_end" } else { "fault:input_sent_again_while_running" }, 1);
            }
            Step::Session { content, wait } => {
                let sid = match engine.call_json("POST", "/sessions", None) {
                    Ok((201, v)) => v.get("session_id").and_then(|x| x.as_str()).unwrap_or("").to_string(),
                    Ok((st, v)) => return (Outcome::Harness(format!("create session: status {st} body {v}")), stats),
                    Err(e) => return (Outcome::Harness(format!("create session: {e}")), stats),
                };
                match engine.call("POST", &format!("/sessions/{sid}/input"), Some(json!({"input": content.render(&checkpoints)}))) {
                    Ok((202, _)) => sessions.push(sid),
                    Ok((st, _)) => return (Outcome::Harness(format!("send input: status {st}")), stats),
                    Err(e) => return (Outcome::Harness(format!("send input: {e}")), stats),
                }
                stats.bump("input:session_without_thread", 1);
                if *wait {
                    match wait_runs(&engine, &posts, &sessions, &mut seen_panics) {
                        Ok(_) => {}
                        Err(WaitErr::Harness(e)) => return (Outcome::Harness(e), stats),
                        Err(e @ WaitErr::Stuck { .. }) => {
                        stuck_early = Some(e);
                        break;
                    }
                    }
                }
            }
        }
    }
    let waited = match stuck_early {
        Some(e) => Err(e),
        None => wait_runs(&engine, &posts, &sessions, &mut seen_panics),
    };
    if blocked {
        unblock_artifacts(&engine.ws);
    }
    let reqs = engine.requests();
    for r in &reqs {
        let k = resp_kind(&sc.script[r.index.min(sc.script.len() - 1)]);
        stats.bump(&format!("provider:{k}"), 1);
        if k != "sse" {
            stats.bump(&format!("fault:provider_{k}"), 1);
        }
    }
    stats.case_hash = fnv1a(serde_json::to_string(sc).unwrap_or_default().as_bytes());
    let truth = match waited {
        Ok(t) => t,
        Err(WaitErr::Harness(e)) => return (Outcome::Harness(e), stats),
        Err(WaitErr::Stuck { panics, detail }) => {
            let unfinished: Vec<&str> = {
                let t = crate::model::parse_truth_file(&engine.data.join("events.jsonl")).unwrap_or_default();
                posts.iter().filter(|p| !t.frames.iter().any(|f| f.ty == "continuity_run_ended" && f.s("run_session_id") == Some(p.session_id.as_str()))).map(|p| p.session_id.as_str()).collect::<Vec<_>>().into_iter().map(|_| "run").chain(sessions.iter().filter(|s| !t.frames.iter().any(|f| f.ty == "session_ended" && f.stream_id == **s)).map(|_| "session")).collect()
            };
            let sig = if detail.contains("tool calls and is still running") {
                "run_never_ended:unbounded_tool_loop".to_string()
            } else if panics.is_empty() {
                "run_never_ended:no_progress".to_string()
            } else {
                "run_never_ended:task_panicked".to_string()
            };
            return (Outcome::Violation(viol("run_never_ended", sig, format!("{} unfinished ({:?}); {detail}; panics: {:?}", unfinished.len(), unfinished, panics))), stats);
        }
    };
    engine.settle(15);
    let truth = crate::model::parse_truth_file(&engine.data.join("events.jsonl")).unwrap_or(truth);
    let mut panics = seen_panics.clone();
    panics.extend(esim::panics_take());
    stats.bump("runs_completed", posts.len() as u64);
    stats.bump("frames", truth.frames.len() as u64);
    for f in &truth.frames {
        match f.ty.as_str() {
            "tool_ended" => stats.bump("tool:ended", 1),
            "tool_failed" => stats.bump("tool:failed", 1),
            "continuity_tool_side_effects" => stats.bump("thread:tool_side_effects", 1),
            "continuity_provider_cursor_updated" => stats.bump("thread:cursor_updated", 1),
            "session_ended" => stats.bump(&format!("session_ended:{}", f.s("reason").unwrap_or("?")), 1),
            _ => {}
        }
    }
    stats.nontrivial = truth.frames.iter().any(|f| f.ty == "tool_started") || reqs.iter().any(|r| resp_kind(&sc.script[r.index.min(sc.script.len() - 1)]) != "sse");
    if let Some(v) = check_lifecycle(&truth, &posts, &sessions) {
        return (Outcome::Violation(v), stats);
    }
    if !panics.is_empty() {
        return (Outcome::Violation(viol("engine_task_panicked", "engine_task_panicked".into(), format!("{panics:?}"))), stats);
    }
    drop(engine);
    (Outcome::Ok, stats)
}

// ---------------------------------------------------------------------------------------------
// execution: jobs

fn execute_jobs(sc: &JobsScenario, env: &Env) -> (Outcome, RunStats) {
    let mut stats = RunStats::default();
    let dirs = storesim::begin_run(&env.root, sc.sim_seed, 1_000_000);
    let world = Arc::new(World::new(dirs.clone()));
    if let Err(e) = storesim::open_world(&world) {
        storesim::end_run();
        return (Outcome::Harness(format!("open: {e}")), stats);
    }
    let current_step = Arc::new(Mutex::new(0usize));
    let seen = Arc::new(Mutex::new(0u32));
    let injected = Arc::new(Mutex::new(0u64));
    let (cs, se, inj) = (current_step.clone(), seen.clone(), injected.clone());
    let (fail_step, fail_nth, errno) = (sc.fail_step, sc.fail_nth, sc.errno);
    let w = world.clone();
    let ops = sc.steps.clone();
    let cs2 = current_step.clone();
    let mut sim = crate::sched::Sim::new(crate::sched::SimConfig { policy: crate::sched::Policy::Sequential, ..Default::default() });
    sim.actor("a0", move || {
        for (k, op) in ops.iter().enumerate() {
            *cs2.lock().unwrap() = k;
            let r = w.exec(0, k, op);
            w.record(r);
        }
    });
    let rep = sim.run(move |ev| {
        if let Point::Fs(e) = &ev.point {
            if *cs.lock().unwrap() == fail_step && e.path.contains("/artifacts/") && matches!(e.kind, EffectKind::Write | EffectKind::OpenCreate | EffectKind::OpenTrunc | EffectKind::Rename) {
                let mut n = se.lock().unwrap();
                let hit = *n == fail_nth;
                *n += 1;
                if hit {
                    *inj.lock().unwrap() += 1;
                    return Verdict { decision: Decision::Fail(errno), stop: false };
                }
            }
        }
        Verdict::proceed()
    });
    stats.sim_time_ns = storesim::end_run();
    if let Some(p) = storesim::harness_problem(&rep) {
        return (Outcome::Harness(p), stats);
    }
    let inj_n = *injected.lock().unwrap();
    stats.bump("fault:artifact_write_error_in_job", inj_n);
    stats.case_hash = fnv1a(serde_json::to_string(sc).unwrap_or_default().as_bytes());
    let truth = match crate::model::parse_truth_file(&dirs.data.join("events.jsonl")) {
        Ok(t) => t,
        Err(e) => return (Outcome::Harness(format!("truth parse: {}", e.reason)), stats),
    };
    let jobs = truth.frames.iter().filter(|f| f.ty == "continuity_job_spawned").count() as u64;
    let failed = truth.frames.iter().filter(|f| f.ty == "continuity_job_ended" && f.s("status") == Some("failed")).count() as u64;
    stats.bump("jobs_spawned", jobs);
    stats.bump("jobs_failed", failed);
    stats.nontrivial = jobs > 0 && inj_n > 0;
    if let Some((_, p)) = rep.panics.first() {
        return (Outcome::Violation(viol("panic_in_job", "panic_in_job".into(), p.clone())), stats);
    }
    if let Some(v) = check_jobs(&truth) {
        return (Outcome::Violation(v), stats);
    }
    (Outcome::Ok, stats)
}

pub fn execute(sc: &Scenario, env: &Env) -> (Outcome, RunStats) {
    match sc {
        Scenario::Runs(r) => execute_runs(r, env),
        Scenario::Jobs(j) => execute_jobs(j, env),
    }
}

impl Check for C07 {
    fn id(&self) -> &'static str {
        "C07"
    }
    fn level(&self) -> &'static str {
        "exploration"
    }
    fn technique(&self) -> &'static str {
        "seeded whole-engine simulation: real router/session engine/tools/store on one tokio runtime against a scripted provider stub (every response byte, chunk boundary, drop point and HTTP status chosen by the seed), artifact-store faults, parallel runs; plus the store's compaction job drivers under the syscall seam with a seeded artifact-write failure; oracle = lifecycle automaton over the independently parsed log"
    }
    fn budget(&self, tier: Tier) -> Budget {
        match tier {
            Tier::Quick => Budget { runs: 640, secs: 150 },
            Tier::Thorough => Budget { runs: 24_000, secs: 2400 },
        }
    }
    fn generate(&self, run_seed: u64, tier: Tier) -> Value {
        serde_json::to_value(generate(run_seed, tier)).unwrap()
    }
    fn execute(&self, scenario: &Value, env: &Env) -> (Outcome, RunStats) {
        match serde_json::from_value::<Scenario>(scenario.clone()) {
            Ok(sc) => execute(&sc, env),
            Err(e) => (Outcome::Harness(format!("bad scenario: {e}")), RunStats::default()),
        }
    }
    fn shrink(&self, scenario: &Value) -> Vec<Value> {
        let Ok(sc) = serde_json::from_value::<Scenario>(scenario.clone()) else {
            return Vec::new();
        };
        let mut out: Vec<Scenario> = Vec::new();
        match &sc {
            Scenario::Runs(r) => {
                for i in (0..r.steps.len()).rev() {
                    if r.steps.len() > 1 {
                        let mut c = r.clone();
                        c.steps.remove(i);
                        if c.steps.iter().any(|s| matches!(s, Step::Post { .. } | Step::Session { .. })) {
                            out.push(Scenario::Runs(c));
                        }
                    }
                }
                for i in (0..r.script.len()).rev() {
                    if r.script.len() > 1 {
                        let mut c = r.clone();
                        c.script.remove(i);
                        out.push(Scenario::Runs(c));
                    }
                }
                for i in 0..r.script.len() {
                    if let Resp::Sse { events, .. } = &r.script[i] {
                        for k in (0..events.len()).rev() {
                            let mut c = r.clone();
                            if let Resp::Sse { events: e2, .. } = &mut c.script[i] {
                                e2.remove(k);
                            }
                            out.push(Scenario::Runs(c));
                        }
                    }
                    if !matches!(&r.script[i], Resp::Sse { chunking: Chunking::Whole, interleave: false, crlf: false, .. }) {
                        if let Resp::Sse { .. } = &r.script[i] {
                            let mut c = r.clone();
                            if let Resp::Sse { chunking, interleave, crlf, .. } = &mut c.script[i] {
                                *chunking = Chunking::Whole;
                                *interleave = false;
                                *crlf = false;
                            }
                            out.push(Scenario::Runs(c));
                        }
                    }
                }
                for i in 0..r.steps.len() {
                    if let Step::Post { thread, content, wait: false } = &r.steps[i] {
                        let mut c = r.clone();
                        c.steps[i] = Step::Post { thread: *thread, content: content.clone(), wait: true };
                        out.push(Scenario::Runs(c));
                    }
                }
                if r.cfg != ProviderCfg::default() {
                    let mut c = r.clone();
                    c.cfg = ProviderCfg::default();
                    out.push(Scenario::Runs(c));
                }
            }
            Scenario::Jobs(j) => {
                for i in (1..j.steps.len()).rev() {
                    if i == j.fail_step {
                        continue;
                    }
                    let mut c = j.clone();
                    c.steps.remove(i);
                    if i < c.fail_step {
                        c.fail_step -= 1;
                    }
                    out.push(Scenario::Jobs(c));
                }
                if j.fail_nth > 0 {
                    let mut c = j.clone();
                    c.fail_nth -= 1;
                    out.push(Scenario::Jobs(c));
                }
            }
        }
        out.into_iter().map(|s| serde_json::to_value(s).unwrap()).collect()
    }
    fn attempts(&self) -> u32 {
        3
    }
    fn rule(&self) -> String {
        "one run = one seeded scenario. 4 of 5 are engine scenarios: a provider configuration (tool_choice auto/none/required/named/allowed-tools, both history modes), a provider script of 2-8 responses (SSE with text, 0-3 function calls over 9 tool names incl. an unknown one with valid/invalid/non-JSON arguments delivered inline, as deltas or by a done event, invalid-JSON and schema-invalid events, [DONE] present/missing/twice, CRLF, 4 chunking modes, connection drop at a seeded byte; HTTP errors 400-503 with bodies of 0-9000 bytes incl. multi-byte text around byte 2048 that may echo the request; empty body; garbage; close without response; in 1 of 6 scenarios the last response, served to every later request, keeps asking for a tool so that only the engine's bound can end the run) and 1-6 steps (post a prompt / tool envelope incl. timeout, unknown tool, invalid args / checkpoint create or rewind / malformed envelope to the default thread or a branch, waiting or in parallel with earlier runs; thread-less sessions; make the artifact store unwritable so context compilation fails, and restore it). 1 of 5 are job scenarios: messages then 1-3 compaction-auto / schedule(execute) calls through the store's synchronous drivers with the k-th artifact write/create/rename inside one of them failing with ENOSPC/EIO/EACCES. After quiescence the log is parsed independently and checked: per accepted post exactly one run_spawned naming the returned session and exactly one run_ended; message < spawned < [selection_decided < context_compiled] < side-effects* < cursor_updated? < run_ended in file order; selection and compile both or neither, present whenever the provider was contacted and absent after context_compile_failed; the run's session_ended precedes run_ended; each session stream starts with session_started at seq 0, has exactly one session_ended which is its last frame and carries its highest seq; no run frames without a post; each job id spawned once, ended at most once and after its spawn; no engine task panics; a run that never ends (no new frame for 1.5 s after a task panic, or 20 s otherwise, or more than 100 tool calls handled without a session end) is a violation. distinct = hash of the scenario; non-trivial = a tool ran or a provider fault was served (engine) / a fault was injected inside a spawned job (jobs)".into()
    }
    fn assumptions(&self) -> Vec<String> {
        vec![
            "engine scenarios run on a real tokio runtime in real time with loop-back TCP and real subprocesses: the seed fixes inputs, provider bytes and faults, not every task switch; the oracle is schedule-insensitive (final-log automaton), so a failing scenario replays for logic errors but a violation that needs a particular task interleaving may need several attempts".into(),
            "sending input twice to one session id (API misuse) is not generated".into(),
            "PTY tasks are not exercised".into(),
        ]
    }
    fn components(&self) -> Value {
        json!({
            "real": ["ripd::server router and handlers (via verif_api::build_router)", "ripd::session (run_session, agent loop, SSE pipe, tool-call collector)", "ripd::runner / SessionEngine", "ripd::continuities store", "rip-kernel runtime", "rip-log", "rip-tools registry, built-in tools, bash subprocesses", "rip-workspace checkpoints", "rip-provider-openresponses request builder + validation", "reqwest/hyper client over loop-back TCP", "tokio current-thread runtime (real time)"],
            "stubbed": ["the provider: in-process scripted HTTP/1.1 server (chunked SSE)", "HTTP server side of the daemon: requests enter through tower::ServiceExt::oneshot, not a socket"],
            "simulated": ["jobs scenarios only: libc write/open/rename/clock/getrandom seam with seeded fault on the k-th artifact effect"]
        })
    }
}
