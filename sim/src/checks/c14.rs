//! C14 — rewind restores exactly the checkpointed files from any later state; an automatic
//! checkpoint precedes every file-editing tool and covers what it can change; a failing rewind
//! leaves the workspace as it was.
//!
//! Reduced form: sequential refinement against a checkpoint model through the real tool runner
//! and checkpoint hook, with the process working directory equal to or different from the root.

use std::collections::BTreeMap;
use std::path::PathBuf;

use rip_kernel::EventKind;
use serde::{Deserialize, Serialize};
use serde_json::{json, Value};

use crate::driver::{Budget, Check, Env, Outcome, RunStats, Tier, Violation};
use crate::prng::{fnv1a, Rng};
use crate::wsenv::{snapshot_tree, tool_exit, ToolEnv, Tree};

const NAMES: &[&str] = &["a.txt", "b.txt", "sub/c.txt", "sub/deep/d.txt", "e.md", "newdir/f.txt"];

#[derive(Clone, Debug, Serialize, Deserialize, PartialEq)]
pub enum Step {
    Checkpoint { paths: Vec<(u32, bool)> },
    WriteTool { name: u32, content: String, append: bool, atomic: bool },
    PatchAdd { name: u32 },
    PatchUpdate { name: u32, move_to: Option<u32> },
    PatchDelete { name: u32 },
    PatchMulti { a: u32, b: u32 },
    FsWrite { name: u32, content: String },
    FsDelete { name: u32 },
    FsMkdirAt { name: u32 },
    Rewind { which: u32 },
    /// fault: make the rewind fail half-way (0 = remove a stored blob, 1 = a covered path is a directory)
    RewindFault { which: u32, fault: u32 },
}

#[derive(Clone, Debug, Serialize, Deserialize, PartialEq)]
pub struct Scenario {
    pub cwd_is_root: bool,
    pub initial: Vec<(u32, String)>,
    pub steps: Vec<Step>,
}

pub struct C14;

pub fn generate(run_seed: u64, tier: Tier) -> Scenario {
    let mut rng = Rng::derive(run_seed, "ops");
    let mut initial = Vec::new();
    for i in 0..NAMES.len() as u32 {
        if rng.chance(1, 2) {
            initial.push((i, format!("initial {i}\nsecond line {}\n", rng.below(100))));
        }
    }
    let n = rng.range(3, if tier == Tier::Quick { 14 } else { 30 }) as usize;
    let mut steps = Vec::new();
    let name = |rng: &mut Rng| rng.below(NAMES.len() as u64) as u32;
    for k in 0..n {
        let s = match rng.below(22) {
            0..=3 => {
                let cnt = rng.range(1, 4);
                Step::Checkpoint { paths: (0..cnt).map(|_| (name(&mut rng), rng.chance(1, 2))).collect() }
            }
            4..=7 => Step::WriteTool { name: name(&mut rng), content: format!("written at step {k}\nmore {}\n", rng.below(1000)), append: rng.chance(1, 4), atomic: rng.chance(1, 2) },
            8 => Step::PatchAdd { name: name(&mut rng) },
            9 | 10 => Step::PatchUpdate { name: name(&mut rng), move_to: if rng.chance(1, 2) { Some(name(&mut rng)) } else { None } },
            11 => Step::PatchDelete { name: name(&mut rng) },
            12 => Step::PatchMulti { a: name(&mut rng), b: name(&mut rng) },
            13 | 14 => Step::FsWrite { name: name(&mut rng), content: format!("direct edit {k}\n") },
            15 => Step::FsDelete { name: name(&mut rng) },
            16 => Step::FsMkdirAt { name: name(&mut rng) },
            17..=20 => Step::Rewind { which: rng.below(16) as u32 },
            _ => Step::RewindFault { which: rng.below(16) as u32, fault: rng.below(2) as u32 },
        };
        steps.push(s);
    }
    Scenario { cwd_is_root: rng.chance(1, 2), initial, steps }
}

struct Ckpt {
    id: String,
    covers: BTreeMap<String, Option<Vec<u8>>>,
    auto: bool,
}

fn first_line(tree: &Tree, p: &str) -> Option<String> {
    tree.get(p).and_then(|b| String::from_utf8(b.clone()).ok()).and_then(|s| s.lines().next().map(|l| l.to_string()))
}

pub fn execute(sc: &Scenario, env: &Env) -> (Outcome, RunStats) {
    let mut stats = RunStats::default();
    let _ = std::fs::remove_dir_all(&env.root);
    let root = env.root.join("ws");
    let other = env.root.join("elsewhere");
    std::fs::create_dir_all(&root).ok();
    std::fs::create_dir_all(&other).ok();
    for (i, content) in &sc.initial {
        let p = root.join(NAMES[*i as usize]);
        if let Some(parent) = p.parent() {
            std::fs::create_dir_all(parent).ok();
        }
        std::fs::write(&p, content).ok();
        // the same relative names exist, with other bytes, under the other working directory
        let q = other.join(NAMES[*i as usize]);
        if let Some(parent) = q.parent() {
            std::fs::create_dir_all(parent).ok();
        }
        std::fs::write(&q, format!("WRONG BASE {i}\n")).ok();
    }
    let prev_cwd = std::env::current_dir().ok();
    if std::env::set_current_dir(if sc.cwd_is_root { &root } else { &other }).is_err() {
        return (Outcome::Harness("chdir".into()), stats);
    }
    let restore = || {
        let _ = std::env::set_current_dir(prev_cwd.clone().unwrap_or_else(|| PathBuf::from("/")));
    };
    let mut te = match ToolEnv::new(&root) {
        Ok(t) => t,
        Err(e) => {
            restore();
            return (Outcome::Harness(e), stats);
        }
    };
    let mut ckpts: Vec<Ckpt> = Vec::new();
    let mut violation: Option<Violation> = None;
    let mut hash: u64 = 0xcbf2_9ce4_8422_2325;
    let cwd_s = if sc.cwd_is_root { "cwd=root" } else { "cwd!=root" };

    for (k, step) in sc.steps.iter().enumerate() {
        let before = snapshot_tree(&root, true);
        let mut mixs = format!("{:?};", std::mem::discriminant(step));
        match step {
            Step::Checkpoint { paths } => {
                let files: Vec<PathBuf> = paths.iter().map(|(i, abs)| if *abs { root.join(NAMES[*i as usize]) } else { PathBuf::from(NAMES[*i as usize]) }).collect();
                let ev = te.create_checkpoint(&format!("manual{k}"), files);
                let created = ev.iter().find_map(|e| match &e.kind {
                    EventKind::CheckpointCreated { checkpoint_id, files, .. } => Some((checkpoint_id.clone(), files.clone())),
                    _ => None,
                });
                match created {
                    Some((id, listed)) => {
                        let mut covers = BTreeMap::new();
                        for (i, _) in paths {
                            let rel = NAMES[*i as usize].to_string();
                            covers.insert(rel.clone(), before.get(&rel).cloned());
                        }
                        let mut want: Vec<String> = paths.iter().map(|(i, _)| NAMES[*i as usize].to_string()).collect();
                        let mut got = listed.clone();
                        want.sort();
                        got.sort();
                        want.dedup();
                        got.dedup();
                        if want != got {
                            violation = Some(Violation { class: "checkpoint_files_wrong".into(), signature: "checkpoint_files_wrong".into(), detail: format!("step {k} ({cwd_s}): checkpoint lists {got:?}, requested {want:?}") });
                        }
                        ckpts.push(Ckpt { id, covers, auto: false });
                        stats.bump("checkpoints_created", 1);
                    }
                    None => {
                        // a directory in place of a file (FsMkdirAt) can make creation fail legitimately
                        let is_dir = paths.iter().any(|(i, _)| root.join(NAMES[*i as usize]).is_dir());
                        if !is_dir {
                            violation = Some(Violation { class: "checkpoint_refused".into(), signature: "checkpoint_refused_valid_paths".into(), detail: format!("step {k} ({cwd_s}): checkpoint of {paths:?} failed: {}", crate::wsenv::tool_text(&ev)) });
                        }
                    }
                }
            }
            Step::WriteTool { .. } | Step::PatchAdd { .. } | Step::PatchUpdate { .. } | Step::PatchDelete { .. } | Step::PatchMulti { .. } => {
                let (tool, args, can_change): (&str, Value, Vec<String>) = match step {
                    Step::WriteTool { name, content, append, atomic } => {
                        // now and then the path carries white space around it: whatever file the
                        // tool makes of that, the file it changes is the one to be covered (judged
                        // from the tree, no expectation about the name)
                        let n = NAMES[*name as usize];
                        let (path, can) = match k % 10 {
                            3 => (format!("{n} "), vec![]),
                            6 => (format!(" {n}"), vec![]),
                            8 => (format!("{n}\n"), vec![]),
                            _ => (n.to_string(), vec![n.to_string()]),
                        };
                        if can.is_empty() {
                            stats.bump("write_paths_with_surrounding_white_space", 1);
                        }
                        ("write", json!({"path": path, "content": content, "append": append, "atomic": atomic}), can)
                    }
                    Step::PatchAdd { name } => ("apply_patch", json!({"patch": format!("*** Begin Patch\n*** Add File: {}\n+added at {k}\n*** End Patch\n", NAMES[*name as usize])}), vec![NAMES[*name as usize].to_string()]),
                    Step::PatchUpdate { name, move_to } => {
                        let p = NAMES[*name as usize];
                        let l = first_line(&before, p).unwrap_or_else(|| "nothing".into());
                        let mv = move_to.map(|m| format!("*** Move to: {}\n", NAMES[m as usize])).unwrap_or_default();
                        let mut can = vec![p.to_string()];
                        if let Some(m) = move_to {
                            can.push(NAMES[*m as usize].to_string());
                        }
                        ("apply_patch", json!({"patch": format!("*** Begin Patch\n*** Update File: {p}\n{mv}@@\n-{l}\n+patched at {k}\n*** End Patch\n")}), can)
                    }
                    Step::PatchDelete { name } => ("apply_patch", json!({"patch": format!("*** Begin Patch\n*** Delete File: {}\n*** End Patch\n", NAMES[*name as usize])}), vec![NAMES[*name as usize].to_string()]),
                    Step::PatchMulti { a, b } => {
                        let (pa, pb) = (NAMES[*a as usize], NAMES[*b as usize]);
                        let la = first_line(&before, pa).unwrap_or_else(|| "nothing".into());
                        ("apply_patch", json!({"patch": format!("*** Begin Patch\n*** Update File: {pa}\n@@\n-{la}\n+multi {k}\n*** Delete File: {pb}\n*** End Patch\n")}), vec![pa.to_string(), pb.to_string()])
                    }
                    _ => unreachable!(),
                };
                // now and then the patch text is padded with blank lines / spaces (a pasted
                // envelope): whatever the tool makes of it, an edit needs its covering checkpoint
                let mut args = args;
                if tool == "apply_patch" {
                    let pad = match k % 9 {
                        2 => "\n",
                        5 => "  ",
                        7 => "\n\n ",
                        _ => "",
                    };
                    if !pad.is_empty() {
                        if let Some(p) = args.get("patch").and_then(|p| p.as_str()).map(|p| p.to_string()) {
                            args["patch"] = json!(format!("{pad}{p}"));
                            stats.bump("padded_patch_envelopes", 1);
                        }
                    }
                }
                let ev = te.run_tool(tool, args);
                let pos_ckpt = ev.iter().position(|e| matches!(e.kind, EventKind::CheckpointCreated { .. }));
                let pos_start = ev.iter().position(|e| matches!(e.kind, EventKind::ToolStarted { .. }));
                let after = snapshot_tree(&root, true);
                let changed: Vec<String> = after.keys().chain(before.keys()).filter(|p| after.get(*p) != before.get(*p)).cloned().collect::<std::collections::BTreeSet<_>>().into_iter().collect();
                mixs.push_str(&format!("{tool}:{:?}:{};", tool_exit(&ev), changed.len()));
                stats.bump(&format!("tool_runs:{tool}"), 1);
                match (pos_ckpt, pos_start) {
                    (Some(c), Some(s)) => {
                        if c > s {
                            violation = Some(Violation { class: "auto_checkpoint_order".into(), signature: "auto_checkpoint_after_tool_started".into(), detail: format!("step {k}: checkpoint_created at position {c}, tool_started at {s}") });
                        }
                        if let EventKind::CheckpointCreated { checkpoint_id, files, auto, .. } = &ev[c].kind {
                            if !*auto {
                                violation = Some(Violation { class: "auto_checkpoint_flag".into(), signature: "auto_checkpoint_not_flagged".into(), detail: format!("step {k}") });
                            }
                            for p in can_change.iter().chain(changed.iter()) {
                                if !files.contains(p) {
                                    violation = Some(Violation {
                                        class: "auto_checkpoint_coverage".into(),
                                        signature: format!("auto_checkpoint_misses_path:{tool}"),
                                        detail: format!("step {k} ({cwd_s}): {tool} can change / changed {p:?} but its automatic checkpoint covers only {files:?}"),
                                    });
                                }
                            }
                            let mut covers = BTreeMap::new();
                            for p in files {
                                covers.insert(p.clone(), before.get(p).cloned());
                            }
                            ckpts.push(Ckpt { id: checkpoint_id.clone(), covers, auto: true });
                            stats.bump("auto_checkpoints_checked", 1);
                        }
                    }
                    (None, _) => {
                        if !changed.is_empty() {
                            violation = Some(Violation {
                                class: "edit_without_auto_checkpoint".into(),
                                signature: format!("edit_without_auto_checkpoint:{tool}"),
                                detail: format!("step {k} ({cwd_s}): {tool} changed {changed:?} without an automatic checkpoint before it ({})", crate::wsenv::tool_text(&ev).lines().next().unwrap_or("")),
                            });
                        }
                    }
                    _ => {}
                }
            }
            Step::FsWrite { name, content } => {
                let p = root.join(NAMES[*name as usize]);
                if let Some(parent) = p.parent() {
                    let _ = std::fs::create_dir_all(parent);
                }
                let _ = std::fs::write(p, content);
            }
            Step::FsDelete { name } => {
                let _ = std::fs::remove_file(root.join(NAMES[*name as usize]));
            }
            Step::FsMkdirAt { name } => {
                let p = root.join(NAMES[*name as usize]);
                if !p.exists() {
                    let _ = std::fs::create_dir_all(&p);
                    let _ = std::fs::write(p.join("inside.txt"), "in a directory\n");
                }
            }
            Step::Rewind { which } | Step::RewindFault { which, .. } => {
                if ckpts.is_empty() {
                    continue;
                }
                let idx = *which as usize % ckpts.len();
                let c = &ckpts[idx];
                let mut injected = false;
                let mut undo_fault: Option<Box<dyn FnOnce()>> = None;
                if let Step::RewindFault { fault, .. } = step {
                    let store = root.join(".rip/checkpoints").join(&te.session).join(&c.id).join("files");
                    if *fault == 0 {
                        // remove the stored blob of the LAST covered existing path, so earlier ones are restored first
                        if let Some((p, Some(bytes))) = c.covers.iter().filter(|(_, v)| v.is_some()).last().map(|(p, v)| (p.clone(), v.clone())) {
                            let blob = store.join(&p);
                            if std::fs::remove_file(&blob).is_ok() {
                                injected = true;
                                stats.bump("fault:checkpoint_blob_removed", 1);
                                undo_fault = Some(Box::new(move || {
                                    if let Some(parent) = blob.parent() {
                                        let _ = std::fs::create_dir_all(parent);
                                    }
                                    let _ = std::fs::write(&blob, bytes);
                                }));
                            }
                        }
                    } else if let Some((p, _)) = c.covers.iter().filter(|(p, v)| v.is_some() && !root.join(p).exists()).last() {
                        // a covered path whose place is taken by a directory
                        let d = root.join(p);
                        if std::fs::create_dir_all(&d).is_ok() && std::fs::write(d.join("blocker.txt"), "x\n").is_ok() {
                            injected = true;
                            stats.bump("fault:covered_path_is_directory", 1);
                        }
                    }
                }
                let before_rw = snapshot_tree(&root, true);
                let ev = te.rewind(&c.id);
                let ok = ev.iter().any(|e| matches!(e.kind, EventKind::CheckpointRewound { .. }));
                let after = snapshot_tree(&root, true);
                mixs.push_str(&format!("rewind:{}:{ok}:{injected};", c.auto));
                if ok {
                    stats.bump("rewinds_checked", 1);
                    for (p, want) in &c.covers {
                        let got = after.get(p);
                        if got != want.as_ref() {
                            let show = |b: Option<&Vec<u8>>| b.map(|b| format!("{:?}", String::from_utf8_lossy(b))).unwrap_or_else(|| "absent".into());
                            violation = Some(Violation {
                                class: "rewind_wrong_bytes".into(),
                                signature: format!("rewind_wrong_bytes:{}:{}", if want.is_some() { "existing" } else { "missing_at_checkpoint" }, if c.auto { "auto" } else { "manual" }),
                                detail: format!("step {k} ({cwd_s}): after rewinding to checkpoint #{idx} ({}) {p:?} is {}, at checkpoint time it was {}", if c.auto { "automatic" } else { "manual" }, show(got), show(want.as_ref())),
                            });
                            break;
                        }
                    }
                    if violation.is_none() {
                        for p in after.keys().chain(before_rw.keys()) {
                            if !c.covers.contains_key(p) && after.get(p) != before_rw.get(p) {
                                // files inside a directory that had to make way for a covered file are not judged
                                if c.covers.keys().any(|cp| p.starts_with(&format!("{cp}/"))) {
                                    continue;
                                }
                                violation = Some(Violation { class: "rewind_touched_uncovered".into(), signature: "rewind_touched_uncovered".into(), detail: format!("step {k}: rewind changed {p:?}, which the checkpoint does not cover") });
                                break;
                            }
                        }
                    }
                } else {
                    stats.bump("failed_rewinds_checked", 1);
                    if after != before_rw {
                        let changed: Vec<String> = after.keys().chain(before_rw.keys()).filter(|p| after.get(*p) != before_rw.get(*p)).cloned().collect::<std::collections::BTreeSet<_>>().into_iter().take(4).collect();
                        violation = Some(Violation {
                            class: "failed_rewind_changed_workspace".into(),
                            signature: format!("failed_rewind_changed_workspace:{}", if injected { "injected_fault" } else { "no_fault" }),
                            detail: format!("step {k} ({cwd_s}): rewind to checkpoint #{idx} failed ({}) but changed {changed:?}", crate::wsenv::tool_text(&ev).lines().next().unwrap_or("")),
                        });
                    } else if !injected {
                        // without a fault a rewind may only fail when a covered path is occupied by a directory
                        let blocked = c.covers.iter().any(|(p, _)| root.join(p).is_dir() || p.split('/').scan(String::new(), |acc, comp| { if !acc.is_empty() { acc.push('/'); } acc.push_str(comp); Some(acc.clone()) }).any(|pre| root.join(&pre).is_file() && pre != *p));
                        if !blocked {
                            violation = Some(Violation {
                                class: "rewind_failed".into(),
                                signature: "rewind_failed_without_cause".into(),
                                detail: format!("step {k} ({cwd_s}): rewind to checkpoint #{idx} failed: {}", crate::wsenv::tool_text(&ev).lines().next().unwrap_or("")),
                            });
                        }
                    }
                }
                if let Some(f) = undo_fault {
                    f();
                }
            }
        }
        for b in mixs.as_bytes() {
            hash ^= *b as u64;
            hash = hash.wrapping_mul(0x0000_0100_0000_01B3);
        }
        if violation.is_some() {
            break;
        }
    }
    restore();
    stats.case_hash = hash ^ fnv1a(&[sc.cwd_is_root as u8]);
    stats.nontrivial = stats.counters.get("rewinds_checked").copied().unwrap_or(0) >= 1;
    stats.bump(if sc.cwd_is_root { "cwd_equals_root" } else { "cwd_differs_from_root" }, 1);
    match violation {
        Some(v) => (Outcome::Violation(v), stats),
        None => (Outcome::Ok, stats),
    }
}

impl Check for C14 {
    fn id(&self) -> &'static str {
        "C14"
    }
    fn level(&self) -> &'static str {
        "exploration"
    }
    fn technique(&self) -> &'static str {
        "seeded model-based refinement (reduced form: generator of checkpoint/edit/rewind histories with rewind-failure injection, checkpoint model, replay and minimisation; no scheduler) through the real tool runner and checkpoint hook"
    }
    fn budget(&self, tier: Tier) -> Budget {
        match tier {
            Tier::Quick => Budget { runs: 20_000, secs: 40 },
            Tier::Thorough => Budget { runs: 1_000_000, secs: 900 },
        }
    }
    fn generate(&self, run_seed: u64, tier: Tier) -> Value {
        serde_json::to_value(generate(run_seed, tier)).unwrap()
    }
    fn execute(&self, scenario: &Value, env: &Env) -> (Outcome, RunStats) {
        match serde_json::from_value::<Scenario>(scenario.clone()) {
            Ok(sc) => execute(&sc, env),
            Err(e) => (Outcome::Harness(format!("bad scenario: {e}")), RunStats::default()),
        }
    }
    fn shrink(&self, scenario: &Value) -> Vec<Value> {
        let Ok(sc) = serde_json::from_value::<Scenario>(scenario.clone()) else {
            return Vec::new();
        };
        let mut out = Vec::new();
        for k in (0..sc.steps.len()).rev() {
            if sc.steps.len() > 1 {
                let mut c = sc.clone();
                c.steps.remove(k);
                out.push(c);
            }
        }
        for k in (0..sc.initial.len()).rev() {
            let mut c = sc.clone();
            c.initial.remove(k);
            out.push(c);
        }
        if !sc.cwd_is_root {
            let mut c = sc.clone();
            c.cwd_is_root = true;
            out.push(c);
        }
        out.into_iter().map(|s| serde_json::to_value(s).unwrap()).collect()
    }
    fn rule(&self) -> String {
        "one evaluation = one history of 3-30 steps over six paths (existing, missing, nested): manual checkpoints over 1-4 paths spelled relative or absolute, write tool (overwrite/append, atomic or in place; now and then with white space around the path), apply_patch tool (add, update, update+move, delete, two-file; now and then with a blank-line / space padded envelope), direct edits, deletes, a directory put in a path's place, rewinds to any earlier checkpoint (manual or automatic, repeatedly), and rewinds with an injected failure (stored blob removed, covered path occupied by a directory); process cwd equal to or different from the root (where the same relative names hold other bytes); after each rewind every covered path is compared with its checkpoint-time bytes/absence, after each editing tool the automatic checkpoint's position and coverage are judged, after a failed rewind the tree must be unchanged; distinct = hash of (step kinds, outcomes) and cwd mode; non-trivial = at least one successful rewind judged".into()
    }
    fn assumptions(&self) -> Vec<String> {
        vec![
            "the edits themselves are not judged here (C12 judges patch semantics); the model takes the real tree after each edit as the current state".into(),
            "files inside a directory that occupied a covered path are not judged after a rewind".into(),
        ]
    }
    fn components(&self) -> Value {
        json!({"tool runner, write/apply_patch tools, workspace checkpoint hook, rip-workspace create/rewind": "real", "file system": "real tmpfs", "scheduling/clock": "not involved", "reference": "checkpoint model (harness)"})
    }
    fn extra_coverage(&self, c: &BTreeMap<String, u64>) -> Value {
        json!({"rewinds_checked": c.get("rewinds_checked").copied().unwrap_or(0), "failed_rewinds_checked": c.get("failed_rewinds_checked").copied().unwrap_or(0),
               "auto_checkpoints_checked": c.get("auto_checkpoints_checked").copied().unwrap_or(0),
               "cwd_equals_root": c.get("cwd_equals_root").copied().unwrap_or(0), "cwd_differs_from_root": c.get("cwd_differs_from_root").copied().unwrap_or(0),
               "fault_counts": {"checkpoint_blob_removed": c.get("fault:checkpoint_blob_removed").copied().unwrap_or(0), "covered_path_is_directory": c.get("fault:covered_path_is_directory").copied().unwrap_or(0)}})
    }
}
