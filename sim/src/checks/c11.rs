//! C11 — workspace mutations never overlap and are logged in the order they happened.
//!
//! E-sim: 2-5 parallel actors on the real router (thread posts with tool envelopes, thread posts
//! whose provider answer asks for tools — the agent-loop path —, thread-less sessions, background
//! tasks incl. cancellation while queued or running) race for the workspace. Every shell mutation
//! brackets its work with begin/end markers appended (O_APPEND, one write each) to a trace file
//! together with bash's EPOCHREALTIME; in-process mutations (write, apply_patch) are bracketed by
//! the file-system effects the syscall seam observes on their target. The simulator holds tasks at
//! the guarded emitter points for random short times (so frame emission lags behind tool
//! execution), staggers the actors' start times and cancels tasks at seeded moments. A gated
//! mutation (waits for a file the harness creates) checks that read-only tools are not queued
//! behind it.

use std::collections::BTreeMap;
use std::path::Path;
use std::sync::Mutex;
use std::time::{Duration, Instant, SystemTime, UNIX_EPOCH};

use serde::{Deserialize, Serialize};
use serde_json::{json, Value};

use crate::driver::{Budget, Check, Env, Outcome, RunStats, Tier, Violation};
use crate::esim::gates::{self, Plan};
use crate::esim::{self, ArgMode, Chunking, DoneMode, Engine, ProviderCfg, Resp, SseEv};
use crate::prng::{fnv1a, Rng};
use crate::seam::{self, Decision, Effect};

#[derive(Clone, Debug, Serialize, Deserialize, PartialEq)]
pub enum Tool {
    /// shell mutation with markers; `name` is "bash" or its alias "shell"
    Bash { name: String, work_ms: u64 },
    Write,
    Patch,
    Read,
    Ls,
    Grep,
    /// checkpoint envelope: create a checkpoint over this run's own pre-seeded files
    CkptCreate,
    /// checkpoint envelope: rewind to a checkpoint the harness prepared for this session (thread-less
    /// sessions only: a checkpoint belongs to the session that made it)
    CkptRewind,
}

const CKPT_FILES: usize = 3;
const CKPT_FILE_BYTES: usize = 192 * 1024;

impl Tool {
    fn mutating(&self) -> bool {
        matches!(self, Tool::Bash { .. } | Tool::Write | Tool::Patch | Tool::CkptCreate | Tool::CkptRewind)
    }
    /// mutating *tool calls* (the side-effects clause is about tools; checkpoint envelopes are not tools)
    fn yields_side_effects(&self) -> bool {
        matches!(self, Tool::Bash { .. } | Tool::Write | Tool::Patch)
    }
    fn ckpt_files(tok: &str, rewind: bool) -> Vec<String> {
        (0..CKPT_FILES).map(|i| format!("{}{tok}_{i}.bin", if rewind { "rw" } else { "ck" })).collect()
    }
    /// the input string that makes a run execute this tool / checkpoint command
    fn envelope_timed(&self, tok: &str, trace: &str, ckpt_id: Option<&str>, timeout_ms: Option<u64>) -> String {
        match (self, timeout_ms) {
            (Tool::CkptCreate | Tool::CkptRewind, _) | (_, None) => self.envelope(tok, trace, ckpt_id),
            (_, Some(t)) => json!({"tool": self.name(), "args": self.args(tok, trace), "timeout_ms": t}).to_string(),
        }
    }
    fn envelope(&self, tok: &str, trace: &str, ckpt_id: Option<&str>) -> String {
        match self {
            Tool::CkptCreate => json!({"checkpoint": {"action": "create", "label": format!("label {tok}"), "files": Tool::ckpt_files(tok, false)}}).to_string(),
            Tool::CkptRewind => json!({"checkpoint": {"action": "rewind", "id": ckpt_id.unwrap_or("missing")}}).to_string(),
            _ => json!({"tool": self.name(), "args": self.args(tok, trace)}).to_string(),
        }
    }
    fn name(&self) -> &str {
        match self {
            Tool::Bash { name, .. } => name.as_str(),
            Tool::Write => "write",
            Tool::Patch => "apply_patch",
            Tool::Read => "read",
            Tool::Ls => "ls",
            Tool::Grep => "grep",
            Tool::CkptCreate => "checkpoint_create",
            Tool::CkptRewind => "checkpoint_rewind",
        }
    }
    fn args(&self, tok: &str, trace: &str) -> Value {
        match self {
            Tool::Bash { work_ms, .. } if NOISY.load(std::sync::atomic::Ordering::SeqCst) => json!({"command": bash_cmd(tok, trace, *work_ms, None).replacen("; sleep", "; head -c 300 /dev/zero | tr '\\0' x; head -c 300 /dev/zero | tr '\\0' y 1>&2; sleep", 1), "max_bytes": 64}),
            Tool::Bash { work_ms, .. } => json!({"command": bash_cmd(tok, trace, *work_ms, None)}),
            Tool::Write => json!({"path": format!("w{tok}.txt"), "content": format!("written {tok}\n")}),
            Tool::Patch => json!({"patch": format!("*** Begin Patch\n*** Add File: p{tok}.txt\n+patched {tok}\n*** End Patch\n")}),
            Tool::Read => json!({"path": "seed.txt", "max_bytes": 4096}),
            Tool::Ls => json!({"path": "."}),
            Tool::Grep => json!({"pattern": "seed"}),
            Tool::CkptCreate | Tool::CkptRewind => json!({}),
        }
    }
}

fn bash_cmd(tok: &str, trace: &str, work_ms: u64, gate: Option<&str>) -> String {
    let work = match gate {
        Some(g) => format!("n=0; while [ ! -e '{g}' ] && [ $n -lt 1500 ]; do sleep 0.004; n=$((n+1)); done"),
        None => format!("sleep {}.{:03}", work_ms / 1000, work_ms % 1000),
    };
    format!("echo \"B {tok} $EPOCHREALTIME\" >> '{trace}'; echo {tok} > b{tok}.txt; {work}; echo \"E {tok} $EPOCHREALTIME\" >> '{trace}'")
}

#[derive(Clone, Debug, Serialize, Deserialize, PartialEq)]
pub enum Actor {
    /// thread post with a tool envelope
    ToolPost { tool: Tool },
    /// thread post with a prompt; the provider answers with these calls (agent-loop path)
    AgentPost { calls: Vec<Tool> },
    /// thread-less session with a tool envelope
    SessionTool { tool: Tool },
    /// background task; optionally cancelled this many ms after it was created
    Task { work_ms: u64, cancel_after_ms: Option<u64> },
}

#[derive(Clone, Debug, Serialize, Deserialize, PartialEq)]
pub struct Scenario {
    pub actors: Vec<(u64, Actor)>,
    pub plan: Plan,
    /// first start a gated shell mutation and require a read-only tool run to finish while it is held
    pub probe: Option<Tool>,
    pub workers: u8,
    /// (actor index, timeout_ms): the tool envelope of that actor carries a timeout shorter than
    /// the tool's work — the call fails with "timeout" while the work it started may still be going
    #[serde(default)]
    pub timeouts: Vec<(usize, u64)>,
    /// slow disk for the in-process mutations (write, apply_patch) of actors with a timeout: the
    /// first file-system effect on their target is delayed by this many ms
    #[serde(default)]
    pub slow_disk_ms: u64,
    /// the artifact store cannot take spilled tool output (`.rip/artifacts/tmp` is a regular file)
    /// and every shell tool call writes more than its preview limit on both streams before it
    /// works: the call's output capture fails while the command is still running
    #[serde(default)]
    pub broken_spill: bool,
}

/// set for the duration of a scenario with `broken_spill` (read where tool arguments are built)
static NOISY: std::sync::atomic::AtomicBool = std::sync::atomic::AtomicBool::new(false);

pub struct C11;

fn gen_tool(rng: &mut Rng, mutating_bias: bool) -> Tool {
    let k = if mutating_bias { rng.below(7) } else { rng.below(10) };
    match k {
        0..=2 => Tool::Bash { name: "bash".into(), work_ms: rng.range(5, 45) },
        3 => Tool::Bash { name: "shell".into(), work_ms: rng.range(5, 45) },
        4 | 5 => Tool::Write,
        6 => Tool::Patch,
        7 => Tool::Read,
        8 => Tool::Ls,
        _ => Tool::Grep,
    }
}

pub fn generate(run_seed: u64, _tier: Tier) -> Scenario {
    let mut rng = Rng::derive(run_seed, "c11");
    let n = rng.range(2, 5);
    let mut actors = Vec::new();
    for _ in 0..n {
        let delay = rng.below(25);
        let a = match rng.below(10) {
            0..=2 => Actor::ToolPost { tool: gen_tool(&mut rng, false) },
            3..=5 => Actor::AgentPost { calls: (0..rng.range(1, 2)).map(|_| gen_tool(&mut rng, true)).collect() },
            6 => Actor::SessionTool { tool: gen_tool(&mut rng, true) },
            _ => Actor::Task { work_ms: rng.range(5, 60), cancel_after_ms: if rng.chance(2, 5) { Some(rng.below(30)) } else { None } },
        };
        actors.push((delay, a));
    }
    let random = if rng.chance(3, 4) { Some((rng.next_u64(), 1, rng.range(2, 5), rng.range(2, 30))) } else { None };
    let probe = if rng.chance(1, 6) { Some(match rng.below(3) { 0 => Tool::Read, 1 => Tool::Ls, _ => Tool::Grep }) } else { None };
    // one emission of some run stalls for a long time (a contended buffer, a slow log append): all
    // other actors can do whole tool calls meanwhile
    let mut rules = Vec::new();
    if rng.chance(1, 2) {
        rules.push(gates::HoldRule { point: "session_emit:before_record".into(), nth: rng.below(30), release: gates::Release::AfterMs(rng.range(40, 150)) });
    }
    let workers = if rng.chance(1, 3) { 3 } else { 0 };
    // checkpoint envelopes (own sub-stream, so the draws above are what they were before these
    // actors existed): create through a thread post or a thread-less session, rewind through a
    // thread-less session
    let mut ck = Rng::derive(run_seed, "c11:checkpoints");
    if ck.chance(1, 2) {
        for _ in 0..ck.range(1, 2) {
            let delay = ck.below(30);
            let a = match ck.below(4) {
                0 => Actor::ToolPost { tool: Tool::CkptCreate },
                1 => Actor::SessionTool { tool: Tool::CkptCreate },
                _ => Actor::SessionTool { tool: Tool::CkptRewind },
            };
            actors.push((delay, a));
        }
    }
    // own sub-stream: in 1 of 3 scenarios one or two envelope actors with a mutating tool get a
    // timeout shorter than their work (shell: 1-12 ms against 5-45 ms of work; write / apply_patch:
    // 0-2 ms against a disk that takes 10-40 ms for the first effect)
    let mut trng = Rng::derive(run_seed, "c11:timeouts");
    let mut timeouts = Vec::new();
    let mut slow_disk_ms = 0;
    if trng.chance(1, 3) {
        let cands: Vec<usize> = actors.iter().enumerate().filter(|(_, (_, a))| matches!(a, Actor::ToolPost { tool } | Actor::SessionTool { tool } if tool.yields_side_effects())).map(|(i, _)| i).collect();
        for &i in cands.iter().take(2) {
            if trng.chance(2, 3) {
                let shell = matches!(&actors[i].1, Actor::ToolPost { tool: Tool::Bash { .. } } | Actor::SessionTool { tool: Tool::Bash { .. } });
                timeouts.push((i, if shell { trng.range(1, 12) } else { trng.below(3) }));
            }
        }
        if !timeouts.is_empty() {
            slow_disk_ms = trng.range(10, 40);
        }
    }
    let broken_spill = Rng::derive(run_seed, "c11:broken-spill").chance(1, 6);
    Scenario { actors, plan: Plan { rules, random }, probe, workers, timeouts, slow_disk_ms, broken_spill }
}

// ---------------------------------------------------------------------------------------------
// seam observer: in-process workspace mutations with wall-clock stamps

static FS_LOG: Mutex<Vec<(f64, String)>> = Mutex::new(Vec::new());
/// (file-name needles of the timed in-process mutations, delay in ms, needles already delayed)
static SLOW: Mutex<(Vec<String>, u64, Vec<String>)> = Mutex::new((Vec::new(), 0, Vec::new()));

fn now_s() -> f64 {
    SystemTime::now().duration_since(UNIX_EPOCH).map(|d| d.as_secs_f64()).unwrap_or(0.0)
}

fn observe(_actor: i32, e: &Effect) -> Decision {
    if e.kind.is_mutating() {
        // slow disk: the first effect on the target of a timed in-process mutation is recorded at
        // its real time and then delayed (the calling thread is a blocking-pool thread)
        let mut delay = 0;
        if let Ok(mut g) = SLOW.lock() {
            if g.1 > 0 {
                if let Some(n) = g.0.iter().find(|n| e.path.contains(n.as_str())).cloned() {
                    if !g.2.contains(&n) {
                        g.2.push(n);
                        delay = g.1;
                    }
                }
            }
        }
        let t = now_s();
        if let Ok(mut g) = FS_LOG.lock() {
            if g.len() < 200_000 {
                g.push((t, e.path.clone()));
                if let Some(p2) = &e.path2 {
                    g.push((t, p2.clone()));
                }
            }
        }
        if delay > 0 {
            std::thread::sleep(Duration::from_millis(delay));
        }
    }
    Decision::Proceed
}

fn viol(class: &str, sig: String, detail: String) -> Violation {
    Violation { class: class.into(), signature: sig, detail }
}

#[derive(Clone, Debug)]
struct Exec {
    tok: String,
    what: String,
    begin: f64,
    end: Option<f64>,
}

fn read_trace(path: &Path) -> Vec<(char, String, f64)> {
    let text = std::fs::read_to_string(path).unwrap_or_default();
    let mut out = Vec::new();
    for l in text.lines() {
        let mut it = l.split(' ');
        let (Some(k), Some(tok), Some(ts)) = (it.next(), it.next(), it.next()) else {
            continue;
        };
        if let Ok(t) = ts.replace(',', ".").parse::<f64>() {
            out.push((k.chars().next().unwrap_or('?'), tok.to_string(), t));
        }
    }
    out
}

pub fn execute(sc: &Scenario, env: &Env) -> (Outcome, RunStats) {
    struct NoisyReset;
    impl Drop for NoisyReset {
        fn drop(&mut self) {
            NOISY.store(false, std::sync::atomic::Ordering::SeqCst);
        }
    }
    NOISY.store(sc.broken_spill, std::sync::atomic::Ordering::SeqCst);
    let _noisy_reset = NoisyReset;
    let mut stats = RunStats::default();
    stats.case_hash = fnv1a(serde_json::to_string(sc).unwrap_or_default().as_bytes());
    let _ = esim::panics_take();
    // per-run provider scripts, addressed by the RUN<k> tag of the prompt
    let root = env.root.join("e");
    let trace = root.join("trace.log");
    let trace_s = trace.to_string_lossy().to_string();
    let gate = root.join("gate.open");
    let mut scripts: Vec<Vec<Resp>> = Vec::new();
    let mut toks: BTreeMap<String, (usize, Tool, bool)> = BTreeMap::new(); // tok -> (actor, tool, thread-attached)
    let mut n_tok = 0usize;
    let mut new_tok = |actor: usize, tool: &Tool, attached: bool, toks: &mut BTreeMap<String, (usize, Tool, bool)>| -> String {
        n_tok += 1;
        let t = format!("t{n_tok}x");
        toks.insert(t.clone(), (actor, tool.clone(), attached));
        t
    };
    let mut actor_tokens: Vec<Vec<String>> = Vec::new();
    for (k, (_, a)) in sc.actors.iter().enumerate() {
        let mut mine = Vec::new();
        match a {
            Actor::AgentPost { calls } => {
                let mut events = vec![SseEv::Created { id: format!("resp_{k}_0") }];
                for (i, c) in calls.iter().enumerate() {
                    let tok = new_tok(k, c, true, &mut toks);
                    events.push(SseEv::FnCall { output_index: i as u64, item_id: Some(format!("fc_{tok}")), call_id: Some(format!("call_{tok}")), name: c.name().to_string(), args: c.args(&tok, &trace_s).to_string(), mode: ArgMode::Inline, never_done: false, omit_call_id_on_done: false });
                    mine.push(tok);
                }
                events.push(SseEv::Completed { id: format!("resp_{k}_0") });
                let first = Resp::Sse { events, interleave: false, done: DoneMode::Present, chunking: Chunking::PerEvent, drop_after: None, crlf: false };
                let second = Resp::Sse { events: vec![SseEv::Created { id: format!("resp_{k}_1") }, SseEv::TextDelta { text: "done".into() }, SseEv::Completed { id: format!("resp_{k}_1") }], interleave: false, done: DoneMode::Present, chunking: Chunking::Whole, drop_after: None, crlf: false };
                scripts.push(vec![first, second]);
            }
            Actor::ToolPost { tool } => {
                mine.push(new_tok(k, tool, true, &mut toks));
                scripts.push(vec![]);
            }
            Actor::SessionTool { tool } => {
                mine.push(new_tok(k, tool, false, &mut toks));
                scripts.push(vec![]);
            }
            Actor::Task { work_ms, .. } => {
                mine.push(new_tok(k, &Tool::Bash { name: "task".into(), work_ms: *work_ms }, false, &mut toks));
                scripts.push(vec![]);
            }
        }
        actor_tokens.push(mine);
    }
    *esim::TAGGED.lock().unwrap() = Some(scripts);
    esim::WORKER_THREADS.store(sc.workers as usize, std::sync::atomic::Ordering::SeqCst);
    let engine = Engine::new(&root, &ProviderCfg::default(), vec![], true);
    esim::WORKER_THREADS.store(0, std::sync::atomic::Ordering::SeqCst);
    let engine = match engine {
        Ok(e) => e,
        Err(e) => {
            *esim::TAGGED.lock().unwrap() = None;
            return (Outcome::Harness(e), stats);
        }
    };
    let _ = std::fs::write(engine.ws.join("seed.txt"), "seed line\nsecond\n");
    if sc.broken_spill {
        let _ = std::fs::create_dir_all(engine.ws.join(".rip/artifacts"));
        let _ = std::fs::remove_dir_all(engine.ws.join(".rip/artifacts/tmp"));
        let _ = std::fs::write(engine.ws.join(".rip/artifacts/tmp"), "not a directory\n");
        stats.bump("fault:artifact_spill_dir_is_a_file", 1);
    }
    let _ = std::fs::write(&trace, "");
    FS_LOG.lock().unwrap().clear();
    {
        let mut needles = Vec::new();
        for (i, _) in &sc.timeouts {
            if let (Some(tok), Some((_, a))) = (actor_tokens.get(*i).and_then(|t| t.first()), sc.actors.get(*i)) {
                match a {
                    Actor::ToolPost { tool: Tool::Write } | Actor::SessionTool { tool: Tool::Write } => needles.push(format!("w{tok}.txt")),
                    Actor::ToolPost { tool: Tool::Patch } | Actor::SessionTool { tool: Tool::Patch } => needles.push(format!("p{tok}.txt")),
                    _ => {}
                }
            }
        }
        *SLOW.lock().unwrap() = (needles, sc.slow_disk_ms, Vec::new());
    }
    seam::set_mode(seam::MODE_OFF);
    seam::set_root_prefix(engine.ws.to_str().unwrap_or(""));
    seam::set_report_reads(false);
    seam::set_capture_data(false);
    seam::set_effect_handler(Some(observe));
    seam::set_mode(seam::MODE_MONITOR);
    gates::install(sc.plan.clone());
    let res = run(sc, &engine, &trace, &gate, &actor_tokens, &toks, &mut stats);
    gates::release_all();
    let (_, holds) = gates::uninstall();
    for (k, v) in holds {
        stats.bump(&format!("fault:task_held_at:{k}"), v);
    }
    seam::set_mode(seam::MODE_OFF);
    seam::set_effect_handler(None);
    seam::set_report_reads(true);
    seam::set_root_prefix("");
    *esim::TAGGED.lock().unwrap() = None;
    drop(engine);
    match res {
        Ok(None) => (Outcome::Ok, stats),
        Ok(Some(v)) => (Outcome::Violation(v), stats),
        Err(e) => (Outcome::Harness(e), stats),
    }
}

fn drive(engine: &Engine, cap: Duration, mut until: impl FnMut() -> bool) -> bool {
    let start = Instant::now();
    engine.rt.block_on(async {
        loop {
            if until() {
                return true;
            }
            if start.elapsed() > cap {
                return false;
            }
            tokio::time::sleep(Duration::from_millis(1)).await;
        }
    })
}

#[allow(clippy::too_many_arguments)]
fn run(sc: &Scenario, engine: &Engine, trace: &Path, gate: &Path, actor_tokens: &[Vec<String>], toks: &BTreeMap<String, (usize, Tool, bool)>, stats: &mut RunStats) -> Result<Option<Violation>, String> {
    let trace_s = trace.to_string_lossy().to_string();
    let (_, v) = engine.call_json("POST", "/threads/ensure", None)?;
    let tid = v["thread_id"].as_str().unwrap_or("").to_string();
    let log_path = engine.data.join("events.jsonl");
    let mut run_sessions: Vec<String> = Vec::new();
    let mut plain_sessions: Vec<String> = Vec::new();
    let mut tasks: Vec<(String, Option<u64>, Instant, bool)> = Vec::new();

    // --- preparation for checkpoint actors, before anything is observed: the files a create covers;
    // for a rewind the session it will run in, a checkpoint of that session over its own files
    // (made through the daemon's checkpoint hook) and a later edit the rewind has to undo
    let mut prepared_sessions: BTreeMap<usize, (String, String)> = BTreeMap::new();
    for (i, (_, a)) in sc.actors.iter().enumerate() {
        let (Actor::ToolPost { tool } | Actor::SessionTool { tool }) = a else {
            continue;
        };
        let tok = &actor_tokens[i][0];
        match tool {
            Tool::CkptCreate => {
                for (k, f) in Tool::ckpt_files(tok, false).iter().enumerate() {
                    std::fs::write(engine.ws.join(f), vec![b'a' + k as u8; CKPT_FILE_BYTES]).map_err(|e| format!("seed file: {e}"))?;
                }
            }
            Tool::CkptRewind => {
                let files = Tool::ckpt_files(tok, true);
                for (k, f) in files.iter().enumerate() {
                    std::fs::write(engine.ws.join(f), vec![b'k' + k as u8; CKPT_FILE_BYTES]).map_err(|e| format!("seed file: {e}"))?;
                }
                let (st, v) = engine.call_json("POST", "/sessions", None)?;
                if st != 201 {
                    return Err(format!("create session: {st}"));
                }
                let sid = v["session_id"].as_str().unwrap_or("").to_string();
                let hook = ripd::verif_api::WorkspaceCheckpointHook::new(engine.ws.clone()).map_err(|e| format!("hook: {e}"))?;
                let rec = rip_tools::CheckpointHook::create(&hook, rip_tools::CheckpointRequest { session_id: sid.clone(), label: format!("prepared {tok}"), files: files.iter().map(std::path::PathBuf::from).collect(), auto: false, tool_name: None }).map_err(|e| format!("prepare checkpoint: {e}"))?;
                for f in &files {
                    std::fs::write(engine.ws.join(f), b"edited after the checkpoint\n").map_err(|e| format!("edit: {e}"))?;
                }
                prepared_sessions.insert(i, (sid, rec.id));
            }
            _ => {}
        }
    }
    FS_LOG.lock().unwrap().clear();

    // --- optional probe: a gated mutation must not block read-only tools
    let mut probe_tok: Option<String> = None;
    if let Some(ro) = &sc.probe {
        let tok = "probe0x".to_string();
        let cmd = bash_cmd(&tok, &trace_s, 0, Some(gate.to_str().unwrap_or("")));
        let (st, v) = engine.call_json("POST", &format!("/threads/{tid}/messages"), Some(json!({"content": json!({"tool": "bash", "args": {"command": cmd}}).to_string()})))?;
        if st != 202 {
            return Err(format!("probe post: {st}"));
        }
        run_sessions.push(v["session_id"].as_str().unwrap_or("").to_string());
        if !drive(engine, Duration::from_secs(10), || read_trace(trace).iter().any(|(k, t, _)| *k == 'B' && *t == tok)) {
            return Err("gated mutation did not start within 10 s".into());
        }
        let (st, v) = engine.call_json("POST", &format!("/threads/{tid}/messages"), Some(json!({"content": json!({"tool": ro.name(), "args": ro.args("ro", &trace_s)}).to_string()})))?;
        if st != 202 {
            return Err(format!("probe read-only post: {st}"));
        }
        let ro_sid = v["session_id"].as_str().unwrap_or("").to_string();
        run_sessions.push(ro_sid.clone());
        let finished = drive(engine, Duration::from_secs(4), || crate::model::parse_truth_file(&log_path).map(|t| t.frames.iter().any(|f| f.ty == "continuity_run_ended" && f.s("run_session_id") == Some(ro_sid.as_str()))).unwrap_or(false));
        stats.bump("read_only_probe_while_mutation_held", 1);
        let still_held = !read_trace(trace).iter().any(|(k, t, _)| *k == 'E' && *t == tok);
        let _ = std::fs::write(gate, "open");
        if !finished && still_held {
            return Ok(Some(viol("read_only_tool_blocked", format!("read_only_tool_blocked:{}", ro.name()), format!("a {} run posted while a shell mutation was in progress did not finish within 4 s (the mutation was still held)", ro.name()))));
        }
        probe_tok = Some(tok);
    }

    // --- start the actors at their seeded times
    let t0 = Instant::now();
    let mut pending: Vec<(u64, usize)> = sc.actors.iter().enumerate().map(|(i, (d, _))| (*d, i)).collect();
    pending.sort();
    loop {
        let now_ms = t0.elapsed().as_millis() as u64;
        while let Some((d, i)) = pending.first().copied() {
            if d > now_ms {
                break;
            }
            pending.remove(0);
            match &sc.actors[i].1 {
                Actor::ToolPost { tool } => {
                    let tok = &actor_tokens[i][0];
                    let timeout = sc.timeouts.iter().find(|(a, _)| *a == i).map(|x| x.1);
                    if timeout.is_some() {
                        stats.bump(&format!("fault:tool_timeout_shorter_than_work:{}", tool.name()), 1);
                    }
                    let content = tool.envelope_timed(tok, &trace_s, None, timeout);
                    let (st, v) = engine.call_json("POST", &format!("/threads/{tid}/messages"), Some(json!({"content": content})))?;
                    if st != 202 {
                        return Err(format!("post: {st}"));
                    }
                    run_sessions.push(v["session_id"].as_str().unwrap_or("").to_string());
                    stats.bump("actors:thread_tool_envelope", 1);
                }
                Actor::AgentPost { .. } => {
                    let (st, v) = engine.call_json("POST", &format!("/threads/{tid}/messages"), Some(json!({"content": format!("do the work RUN{i}")})))?;
                    if st != 202 {
                        return Err(format!("post: {st}"));
                    }
                    run_sessions.push(v["session_id"].as_str().unwrap_or("").to_string());
                    stats.bump("actors:thread_agent_loop", 1);
                }
                Actor::SessionTool { tool } => {
                    let tok = &actor_tokens[i][0];
                    let (sid, ckpt) = match prepared_sessions.get(&i) {
                        Some((sid, ckpt)) => (sid.clone(), Some(ckpt.clone())),
                        None => {
                            let (st, v) = engine.call_json("POST", "/sessions", None)?;
                            if st != 201 {
                                return Err(format!("create session: {st}"));
                            }
                            (v["session_id"].as_str().unwrap_or("").to_string(), None)
                        }
                    };
                    let timeout = sc.timeouts.iter().find(|(a, _)| *a == i).map(|x| x.1);
                    if timeout.is_some() {
                        stats.bump(&format!("fault:tool_timeout_shorter_than_work:{}", tool.name()), 1);
                    }
                    let input = tool.envelope_timed(tok, &trace_s, ckpt.as_deref(), timeout);
                    let (st, _) = engine.call("POST", &format!("/sessions/{sid}/input"), Some(json!({"input": input})))?;
                    if st != 202 {
                        return Err(format!("input: {st}"));
                    }
                    plain_sessions.push(sid);
                    stats.bump("actors:session_tool_envelope", 1);
                }
                Actor::Task { work_ms, cancel_after_ms } => {
                    let tok = &actor_tokens[i][0];
                    let (st, v) = engine.call_json("POST", "/tasks", Some(json!({"tool": "bash", "args": {"command": bash_cmd(tok, &trace_s, *work_ms, None)}})))?;
                    if st != 201 {
                        return Err(format!("create task: {st}"));
                    }
                    tasks.push((v["task_id"].as_str().unwrap_or("").to_string(), *cancel_after_ms, Instant::now(), false));
                    stats.bump("actors:task", 1);
                }
            }
        }
        for t in tasks.iter_mut() {
            if let (Some(ms), false) = (t.1, t.3) {
                if t.2.elapsed().as_millis() as u64 >= ms {
                    let (st, _) = engine.call("POST", &format!("/tasks/{}/cancel", t.0), Some(json!({"reason": "sim"})))?;
                    if st != 202 {
                        return Err(format!("cancel: {st}"));
                    }
                    t.3 = true;
                    stats.bump("fault:task_cancelled", 1);
                }
            }
        }
        if pending.is_empty() && tasks.iter().all(|t| t.1.is_none() || t.3) {
            break;
        }
        drive(engine, Duration::from_millis(1), || false);
    }
    // --- quiescence
    let done = drive(engine, Duration::from_secs(60), || {
        let Ok(t) = crate::model::parse_truth_file(&log_path) else {
            return false;
        };
        run_sessions.iter().all(|s| t.frames.iter().any(|f| f.ty == "continuity_run_ended" && f.s("run_session_id") == Some(s.as_str())))
            && plain_sessions.iter().all(|s| t.frames.iter().any(|f| f.stream_id == *s && f.ty == "session_ended"))
            && tasks.iter().all(|(id, ..)| t.frames.iter().any(|f| f.stream_id == *id && f.ty == "tool_task_status" && matches!(f.s("status"), Some("exited") | Some("failed") | Some("cancelled"))))
    });
    gates::release_all();
    if !done {
        let p = esim::panics_take();
        if !p.is_empty() {
            return Ok(Some(viol("engine_task_panicked", "engine_task_panicked".into(), format!("{p:?}"))));
        }
        return Err("actors did not finish within 60 s".into());
    }
    engine.settle(5);
    if !sc.timeouts.is_empty() {
        // work a timed-out call started may outlive the call: give a shell command time to reach its
        // end marker (it is gone for good when the tool runner killed it) and a delayed write time
        // to land
        let timed: Vec<(String, u64)> = sc.timeouts.iter().filter_map(|(i, _)| match sc.actors.get(*i).map(|a| &a.1) {
            Some(Actor::ToolPost { tool: Tool::Bash { work_ms, .. } }) | Some(Actor::SessionTool { tool: Tool::Bash { work_ms, .. } }) => actor_tokens.get(*i).and_then(|t| t.first()).map(|t| (t.clone(), *work_ms)),
            _ => None,
        }).collect();
        let longest = timed.iter().map(|x| x.1).max().unwrap_or(0).max(sc.slow_disk_ms);
        drive(engine, Duration::from_millis(longest + 150), || {
            let tr = read_trace(trace);
            !timed.is_empty() && timed.iter().all(|(tok, _)| tr.iter().any(|(k, t, _)| *k == 'E' && t == tok))
        });
    }
    let truth = crate::model::parse_truth_file(&log_path).map_err(|e| format!("truth: {}", e.reason))?;

    // --- executions and their real intervals
    let tr = read_trace(trace);
    let fs = std::mem::take(&mut *FS_LOG.lock().unwrap());
    let mut execs: Vec<Exec> = Vec::new();
    let mut all_toks: Vec<(String, Tool)> = toks.iter().map(|(k, v)| (k.clone(), v.1.clone())).collect();
    if let Some(p) = &probe_tok {
        all_toks.push((p.clone(), Tool::Bash { name: "bash".into(), work_ms: 0 }));
    }
    for (tok, tool) in &all_toks {
        match tool {
            Tool::Bash { name, .. } => {
                let b: Vec<f64> = tr.iter().filter(|(k, t, _)| *k == 'B' && t == tok).map(|x| x.2).collect();
                let e: Vec<f64> = tr.iter().filter(|(k, t, _)| *k == 'E' && t == tok).map(|x| x.2).collect();
                if b.len() > 1 {
                    return Ok(Some(viol("mutation_ran_twice", "mutation_ran_twice".into(), format!("{tok} ({name}) began {} times", b.len()))));
                }
                if let Some(b0) = b.first() {
                    execs.push(Exec { tok: tok.clone(), what: name.clone(), begin: *b0, end: e.first().copied() });
                }
            }
            Tool::CkptCreate | Tool::CkptRewind => {
                // every effect on a path that carries one of this command's file names: the copies into
                // the checkpoint store (create; rewind's own safety snapshot) and the restored files
                let needle = format!("{}{tok}_", if *tool == Tool::CkptRewind { "rw" } else { "ck" });
                let ts: Vec<f64> = fs.iter().filter(|(_, p)| p.contains(&needle)).map(|x| x.0).collect();
                if let (Some(a), Some(b)) = (ts.iter().cloned().reduce(f64::min), ts.iter().cloned().reduce(f64::max)) {
                    execs.push(Exec { tok: tok.clone(), what: tool.name().to_string(), begin: a, end: Some(b) });
                    stats.bump(&format!("checkpoint_commands_observed:{}", tool.name()), 1);
                }
            }
            Tool::Write | Tool::Patch => {
                let needle = format!("{}{tok}.txt", if *tool == Tool::Write { "w" } else { "p" });
                let ts: Vec<f64> = fs.iter().filter(|(_, p)| p.contains(&needle)).map(|x| x.0).collect();
                if let (Some(a), Some(b)) = (ts.iter().cloned().reduce(f64::min), ts.iter().cloned().reduce(f64::max)) {
                    execs.push(Exec { tok: tok.clone(), what: tool.name().to_string(), begin: a, end: Some(b) });
                }
            }
            _ => {}
        }
    }
    execs.sort_by(|a, b| a.begin.partial_cmp(&b.begin).unwrap());
    stats.bump("mutating_executions", execs.len() as u64);
    stats.nontrivial = execs.len() >= 2;
    for w in 0..execs.len() {
        for z in (w + 1)..execs.len() {
            let (a, b) = (&execs[w], &execs[z]);
            // a began first; they overlap when b began before a ended (a cancelled task has no end
            // marker: it is then only checked as the later one)
            if let Some(ae) = a.end {
                if b.begin < ae {
                    let kinds = {
                        let mut k = [a.what.as_str(), b.what.as_str()];
                        k.sort();
                        format!("{}+{}", k[0], k[1])
                    };
                    return Ok(Some(viol("mutations_overlap", format!("mutations_overlap:{kinds}"), format!("{} ({}) ran {:.6}..{:.6}; {} ({}) began at {:.6} — {:.3} ms before the first ended", a.tok, a.what, a.begin, ae, b.tok, b.what, b.begin, (ae - b.begin) * 1000.0))));
                }
            }
        }
    }

    // --- side-effects frames: one per mutating tool call of a thread run, placed and ordered
    let t = truth.stream("continuity", &tid);
    let mut frame_order: Vec<String> = Vec::new();
    for (tok, (_actor, tool, attached)) in toks.iter() {
        if !*attached || !tool.yields_side_effects() {
            continue;
        }
        // the call's tool_started frame carries the token in its arguments
        let started = truth.frames.iter().find(|f| f.ty == "tool_started" && f.v.get("args").map(|a| a.to_string().contains(tok.as_str())).unwrap_or(false));
        let Some(started) = started else {
            continue;
        };
        let tool_id = started.s("tool_id").unwrap_or("").to_string();
        let sid = started.stream_id.clone();
        let fx: Vec<&&crate::model::Frame> = t.iter().filter(|f| f.ty == "continuity_tool_side_effects" && f.s("tool_id") == Some(tool_id.as_str())).collect();
        if fx.len() != 1 {
            return Ok(Some(viol("side_effects_frame_count", format!("side_effects_frame_count:{}:{}", tool.name(), fx.len().min(2)), format!("tool call {tool_id} ({}, {tok}) of run {sid} has {} side-effects frames on the thread", tool.name(), fx.len()))));
        }
        let fxf = fx[0];
        let tool_end = truth.frames.iter().find(|f| f.stream_id == sid && (f.ty == "tool_ended" || f.ty == "tool_failed") && f.s("tool_id") == Some(tool_id.as_str()));
        let run_end = t.iter().find(|f| f.ty == "continuity_run_ended" && f.s("run_session_id") == Some(sid.as_str()));
        if let Some(te) = tool_end {
            if fxf.line_no < te.line_no {
                return Ok(Some(viol("side_effects_before_tool_finished", "side_effects_before_tool_finished".into(), format!("{tok}: side-effects frame at line {}, tool end frame at line {}", fxf.line_no, te.line_no))));
            }
        }
        if let Some(re) = run_end {
            if fxf.line_no > re.line_no {
                return Ok(Some(viol("side_effects_after_run_ended", "side_effects_after_run_ended".into(), format!("{tok}: side-effects frame at line {}, run_ended at line {}", fxf.line_no, re.line_no))));
            }
        }
        let expect_paths: Option<Vec<String>> = match tool {
            Tool::Write => Some(vec![format!("w{tok}.txt")]),
            Tool::Patch => Some(vec![format!("p{tok}.txt")]),
            _ => None,
        };
        if let Some(exp) = expect_paths {
            let ok = tool_end.map(|te| te.ty == "tool_ended" && te.v.get("exit_code").and_then(|c| c.as_i64()) == Some(0)).unwrap_or(false);
            let got: Vec<String> = fxf.v.get("affected_paths").and_then(|a| a.as_array()).map(|a| a.iter().filter_map(|x| x.as_str().map(|s| s.to_string())).collect()).unwrap_or_default();
            if ok && got != exp {
                return Ok(Some(viol("side_effects_paths_wrong", format!("side_effects_paths_wrong:{}", tool.name()), format!("{tok}: frame lists {got:?}, the tool changed {exp:?}"))));
            }
        }
    }
    // order of frames vs real order of the mutations
    let mut by_line: Vec<(usize, String)> = Vec::new();
    for f in t.iter().filter(|f| f.ty == "continuity_tool_side_effects") {
        let tool_id = f.s("tool_id").unwrap_or("");
        if let Some(st) = truth.frames.iter().find(|g| g.ty == "tool_started" && g.s("tool_id") == Some(tool_id)) {
            let a = st.v.get("args").map(|a| a.to_string()).unwrap_or_default();
            if let Some(e) = execs.iter().find(|e| a.contains(e.tok.as_str())) {
                by_line.push((f.line_no, e.tok.clone()));
            }
        }
    }
    by_line.sort();
    frame_order.extend(by_line.into_iter().map(|x| x.1));
    let real_order: Vec<String> = execs.iter().filter(|e| frame_order.contains(&e.tok)).map(|e| e.tok.clone()).collect();
    stats.bump("side_effects_frames_ordered", frame_order.len() as u64);
    if frame_order != real_order {
        return Ok(Some(viol("side_effects_order_differs_from_real_order", "side_effects_order_differs_from_real_order".into(), format!("thread lists side effects in order {frame_order:?}; the mutations really ran in order {real_order:?} ({:?})", execs.iter().map(|e| format!("{}:{}@{:.6}", e.tok, e.what, e.begin)).collect::<Vec<_>>()))));
    }
    // a cancelled task: the request is recorded before the cancelled status (C17) — here only that
    // a task which never got the lock did not run
    let p = esim::panics_take();
    if !p.is_empty() {
        return Ok(Some(viol("engine_task_panicked", "engine_task_panicked".into(), format!("{p:?}"))));
    }
    Ok(None)
}

impl Check for C11 {
    fn id(&self) -> &'static str {
        "C11"
    }
    fn level(&self) -> &'static str {
        "exploration"
    }
    fn technique(&self) -> &'static str {
        "seeded whole-engine simulation of 2-5 parallel actors (tool-envelope runs, provider-driven agent-loop runs, thread-less sessions, background tasks with seeded cancellation) on the real router; start times, work durations, runtime flavour and random holds at the guarded emitter points come from the seed; real execution intervals are taken from begin/end markers appended by the shell commands themselves and from the file-system effects the libc seam observes for in-process tools; oracles: intervals pairwise disjoint, one side-effects frame per mutating call placed between tool end and run end with the changed paths, thread order of those frames = real order; a gated mutation checks that read-only tools are not queued"
    }
    fn budget(&self, tier: Tier) -> Budget {
        match tier {
            Tier::Quick => Budget { runs: 640, secs: 160 },
            Tier::Thorough => Budget { runs: 24_000, secs: 2400 },
        }
    }
    fn generate(&self, run_seed: u64, tier: Tier) -> Value {
        serde_json::to_value(generate(run_seed, tier)).unwrap()
    }
    fn execute(&self, scenario: &Value, env: &Env) -> (Outcome, RunStats) {
        match serde_json::from_value::<Scenario>(scenario.clone()) {
            Ok(sc) => execute(&sc, env),
            Err(e) => (Outcome::Harness(format!("bad scenario: {e}")), RunStats::default()),
        }
    }
    fn shrink(&self, scenario: &Value) -> Vec<Value> {
        let Ok(sc) = serde_json::from_value::<Scenario>(scenario.clone()) else {
            return Vec::new();
        };
        let mut out: Vec<Scenario> = Vec::new();
        if sc.actors.len() > 1 {
            for i in (0..sc.actors.len()).rev() {
                let mut c = sc.clone();
                c.actors.remove(i);
                c.timeouts = c.timeouts.iter().filter(|(a, _)| *a != i).map(|(a, t)| (if *a > i { *a - 1 } else { *a }, *t)).collect();
                out.push(c);
            }
        }
        for k in 0..sc.timeouts.len() {
            let mut c = sc.clone();
            c.timeouts.remove(k);
            out.push(c);
        }
        if sc.probe.is_some() {
            let mut c = sc.clone();
            c.probe = None;
            out.push(c);
        }
        if sc.plan.random.is_some() {
            let mut c = sc.clone();
            c.plan.random = None;
            out.push(c);
        }
        for i in 0..sc.actors.len() {
            if let Actor::AgentPost { calls } = &sc.actors[i].1 {
                if calls.len() > 1 {
                    let mut c = sc.clone();
                    c.actors[i].1 = Actor::AgentPost { calls: calls[..1].to_vec() };
                    out.push(c);
                }
            }
            if sc.actors[i].0 > 0 {
                let mut c = sc.clone();
                c.actors[i].0 = 0;
                out.push(c);
            }
        }
        if sc.workers > 0 {
            let mut c = sc.clone();
            c.workers = 0;
            out.push(c);
        }
        out.into_iter().map(|s| serde_json::to_value(s).unwrap()).collect()
    }
    fn attempts(&self) -> u32 {
        10
    }
    fn rule(&self) -> String {
        "one run = one seeded scenario: 2-5 actors started 0-25 ms apart — thread post with a tool envelope (bash or its alias shell with 5-45 ms of work, write, apply_patch, read, ls, grep), thread post with a prompt whose scripted provider answer asks for 1-2 mutating tools (agent-loop path; per-run scripts addressed by a tag in the prompt), thread-less session with a tool envelope, background shell task with 5-60 ms of work, 2 in 5 cancelled 0-30 ms after creation (so: while queued behind a mutation, while running, or after the end); current-thread or 3-worker runtime; in 3 of 4 scenarios random holds of 0-30 ms at every emitter scheduling point with probability 1/2..1/5, and in 1 of 2 scenarios one seeded emission (the n-th visit of the session emitter, n in 0..30) stalls for 40-150 ms (frame emission lags behind tool execution); 1 in 6 scenarios first starts a gated shell mutation and posts a read-only tool run which must finish within 4 s while the mutation is held. Every shell mutation appends 'B <token> <EPOCHREALTIME>' and 'E …' lines to a trace file around its work; write/apply_patch intervals are the first..last file-system effect on their target seen by the seam. Checked: no mutation begins before an earlier-begun one ended (any pair: tool/tool, tool/task, task/task), no mutation runs twice, each mutating tool call of a thread run has exactly one side-effects frame on the thread, after the call's tool_ended/failed frame and before run_ended, listing the changed path for successful write/apply_patch, and the thread order of those frames equals the order in which the mutations really ran. distinct = hash of the scenario; non-trivial = at least 2 mutating executions".into()
    }
    fn assumptions(&self) -> Vec<String> {
        vec![
            "real-time engine simulation: an overlap or a reordering is reported only when it was actually observed (sound), and whether a defective lock scope is exposed in a given run depends on real task timing, helped by the seeded holds, work durations and start offsets".into(),
            "PTY tasks are not among the actors; a cancelled task has no end marker and is only checked as the later of a pair; checkpoint create / rewind commands take part in the overlap clause only (they are not tool calls and have no side-effects frame); a rewind runs in a thread-less session because a checkpoint belongs to the session that made it (the harness prepares that checkpoint through the daemon's checkpoint hook before anything is observed)".into(),
            "timestamps of shell markers (bash EPOCHREALTIME) and in-process effects (CLOCK_REALTIME) come from the same machine clock".into(),
        ]
    }
    fn components(&self) -> Value {
        json!({
            "real": ["ripd::workspace_lock", "ripd::session (tool envelope path and agent loop path)", "ripd::tasks engine, pipes runner, cancellation", "ripd::server routes", "ripd::continuities (side-effects frames)", "rip-tools built-ins and bash subprocesses", "checkpoint create / rewind commands (session checkpoint path, rip-tools runner, ripd checkpoint hook, rip-workspace)", "tokio runtime (current-thread or 3 workers, real time)"],
            "stubbed": ["the provider (scripted stub, per-run scripts)", "daemon HTTP listener (tower oneshot)"],
            "simulated": ["holds at the guarded emitter scheduling points decided by the seed", "libc seam in monitor mode stamps in-process workspace mutations"]
        })
    }
}
