//! C06 — a stream subscriber sees every frame exactly once, in order.
//!
//! A-sim: the real router, handlers, session engine, task engine and continuity store on one
//! tokio runtime. The guarded async scheduling points (emitters: before recording a frame and between recording and publishing it
//! to the live channel; stream handlers: between subscribing and taking the history snapshot) are
//! owned by the simulator: a seeded plan holds the producer or a subscriber at a chosen visit of a
//! chosen point while the other side runs, and random short holds are sprinkled over all points.
//! Subscribers attach through GET …/events before the stream starts, at a held point, after a
//! delay, or after the end; what each receives is compared with the stream in the log.

use std::sync::atomic::{AtomicBool, AtomicU16, Ordering};
use std::sync::{Arc, Mutex};
use std::time::{Duration, Instant};

use axum::body::Body;
use axum::http::Request;
use http_body_util::BodyExt;
use serde::{Deserialize, Serialize};
use serde_json::{json, Value};
use tower::ServiceExt;

use crate::driver::{Budget, Check, Env, Outcome, RunStats, Tier, Violation};
use crate::esim::gates::{self, HoldRule, Plan, Release};
use crate::esim::{self, Chunking, DoneMode, Engine, ProviderCfg, Resp, SseEv};
use crate::prng::{fnv1a, Rng};

#[derive(Clone, Debug, Serialize, Deserialize, PartialEq)]
pub enum Kind {
    /// POST /sessions + input; the watched stream is the session
    Session { input: String },
    /// POST /threads/{id}/messages; the watched stream is the run's session
    SessionViaThread { input: String },
    /// POST /tasks; the watched stream is the task
    Task { command: String },
    /// n posts to a thread; the watched stream is the thread
    Thread { inputs: Vec<String> },
}

#[derive(Clone, Debug, Serialize, Deserialize, PartialEq)]
pub enum When {
    BeforeStart,
    AtHold,
    AfterMs(u64),
    AfterEnd,
}

#[derive(Clone, Debug, Serialize, Deserialize, PartialEq)]
pub struct Scenario {
    /// store-level variant (S-sim): producers append to one thread under the baton scheduler while
    /// subscribers perform the join protocol (subscribe, then replay) at scheduler-chosen moments
    #[serde(default)]
    pub store: Option<StoreSc>,
    pub kind: Kind,
    pub with_provider: bool,
    pub script: Vec<Resp>,
    pub plan: Plan,
    pub subs: Vec<When>,
    /// how long a held subscriber stays held after the producer was started
    pub sub_hold_ms: u64,
    /// 0 = current-thread runtime, n = multi-thread runtime with n workers
    #[serde(default)]
    pub workers: u8,
    /// slow-consumer scenario: the provider answers with this many text deltas (two frames each, so
    /// the stream outgrows the live channel's buffer) while one subscriber that attached before the
    /// start does not read its response body until the stream has ended
    #[serde(default)]
    pub lag_deltas: Option<u32>,
    /// thread streams only: the watched thread is a fresh branch (low seqs) of a thread that already
    /// has a history (high seqs) and receives a post before every post to the watched one — the
    /// store publishes all threads on one live channel, so the subscriber's filter sees both
    #[serde(default)]
    pub busy_other_thread: bool,
    /// capacity of the live channels (sessions, tasks, the store's thread channel) for this scenario
    /// instead of the built-in 16 384 (tuning knob, guarded hook): with a handful of slots every
    /// subscriber that is a little slower than the producer lags and takes the handler's recovery
    /// path (re-read the history, continue after the last delivered seq) — on all three stream kinds
    #[serde(default)]
    pub channel_capacity: Option<u32>,
    /// the first subscriber that attaches before the start does not read its response body until
    /// the stream has ended (used together with `channel_capacity`)
    #[serde(default)]
    pub stall_first: bool,
}

#[derive(Clone, Debug, Serialize, Deserialize, PartialEq)]
pub struct StoreSc {
    pub sim_seed: u64,
    pub setup_messages: u32,
    pub producers: Vec<Vec<crate::world::Op>>,
    /// per subscriber: number of producer operations to wait for before joining (approximate
    /// start offset; the exact interleaving is the scheduler's)
    pub subscribers: Vec<u32>,
    pub sched: crate::storesim::SchedSpec,
    pub drop_caches_first: bool,
}

pub struct C06;

fn generate_store(run_seed: u64) -> StoreSc {
    use crate::world::Op;
    let mut rng = Rng::derive(run_seed, "c06-store");
    let np = rng.range(1, 2) as usize;
    let mut producers = vec![Vec::new(); np];
    for _ in 0..rng.range(2, 10) {
        let a = rng.usize_below(np);
        let op = match rng.below(6) {
            0..=3 => Op::AppendMessage { thread: 0, size: if rng.chance(1, 6) { 3 } else { 1 } },
            4 => Op::FullRun { thread: 0, size: 1, effects: rng.below(2) as u32, cursor_key: None },
            _ => Op::ManualCheckpoint { thread: 0, sel: crate::world::CutSel::None, stride: None, summary: crate::world::SummarySel::Text },
        };
        producers[a].push(op);
    }
    let mut srng = Rng::derive(run_seed, "c06-store-sched");
    StoreSc { sim_seed: crate::prng::mix_label(run_seed, "sim"), setup_messages: rng.below(4) as u32, producers, subscribers: (0..rng.range(1, 3)).map(|_| rng.below(6) as u32).collect(), sched: crate::storesim::SchedSpec::generate(&mut srng, 200), drop_caches_first: false }
}

fn execute_store(sc: &StoreSc, env: &Env) -> (Outcome, RunStats) {
    use crate::storesim;
    use crate::world::{Op, World};
    let mut stats = RunStats::default();
    stats.bump("stream_kind:thread_store_level", 1);
    let dirs = storesim::begin_run(&env.root, sc.sim_seed, 1_000_000);
    let world = Arc::new(World::new(dirs.clone()));
    let fail = |o: Outcome, mut st: RunStats| {
        st.sim_time_ns = storesim::end_run();
        (o, st)
    };
    if let Err(e) = storesim::open_world(&world) {
        return fail(Outcome::Harness(format!("open: {e}")), stats);
    }
    let mut setup = vec![Op::EnsureDefault];
    for _ in 0..sc.setup_messages {
        setup.push(Op::AppendMessage { thread: 0, size: 1 });
    }
    let rep = storesim::run_phase(&world, &[setup], 0, crate::sched::SimConfig { policy: crate::sched::Policy::Sequential, ..Default::default() }, |_| crate::sched::Verdict::proceed());
    if let Some(p) = storesim::harness_problem(&rep) {
        return fail(Outcome::Harness(p), stats);
    }
    let tid = match world.reg.lock().unwrap().threads.first().cloned() {
        Some(t) => t,
        None => return fail(Outcome::Harness("no default thread".into()), stats),
    };
    if sc.drop_caches_first {
        crate::seam::passthrough(|| {
            let _ = std::fs::remove_dir_all(dirs.data.join("continuity_streams"));
        });
        stats.bump("fault:cache_dir_removed", 1);
    }
    // actors
    let progress = Arc::new(std::sync::atomic::AtomicU64::new(0));
    type Joined = (Vec<rip_kernel::Event>, tokio::sync::broadcast::Receiver<rip_kernel::Event>);
    let joined: Arc<Mutex<Vec<Option<Joined>>>> = Arc::new(Mutex::new((0..sc.subscribers.len()).map(|_| None).collect()));
    let mut sim = crate::sched::Sim::new(sc.sched.config(0));
    for (i, ops) in sc.producers.iter().enumerate() {
        let (w, ops, pr) = (world.clone(), ops.clone(), progress.clone());
        sim.actor(&format!("p{i}"), move || {
            for (k, op) in ops.iter().enumerate() {
                let r = w.exec(i, k, op);
                w.record(r);
                pr.fetch_add(1, Ordering::SeqCst);
            }
        });
    }
    for (j, wait_ops) in sc.subscribers.iter().enumerate() {
        let (w, pr, jn, tid2, wait_ops) = (world.clone(), progress.clone(), joined.clone(), tid.clone(), *wait_ops as u64);
        sim.actor(&format!("s{j}"), move || {
            // a named scheduling point per poll lets the scheduler run the producers meanwhile
            let mut spins = 0;
            while pr.load(Ordering::SeqCst) < wait_ops && spins < 40 {
                rip_kernel::verif::yield_point("c06_subscriber_waits");
                spins += 1;
            }
            let store = w.st().store.clone();
            // the join protocol of the thread stream handler: subscribe first, then history
            let rx = store.subscribe();
            let past = store.replay_events(&tid2).unwrap_or_default();
            jn.lock().unwrap()[j] = Some((past, rx));
        });
    }
    let rep = sim.run(|_| crate::sched::Verdict::proceed());
    stats.sim_time_ns = storesim::end_run();
    if let Some(p) = storesim::harness_problem(&rep) {
        return (Outcome::Harness(p), stats);
    }
    stats.bump("context_switches", rep.context_switches);
    stats.case_hash = rep.trace_hash ^ fnv1a(serde_json::to_string(&sc.producers).unwrap_or_default().as_bytes());
    stats.nontrivial = rep.context_switches >= 2;
    let truth = match crate::model::parse_truth_file(&dirs.data.join("events.jsonl")) {
        Ok(t) => t,
        Err(e) => return (Outcome::Harness(format!("truth: {}", e.reason)), stats),
    };
    let expected: Vec<(u64, String)> = truth.stream("continuity", &tid).iter().map(|f| (f.seq, f.id.clone())).collect();
    let mut g = joined.lock().unwrap();
    for (j, slot) in g.iter_mut().enumerate() {
        let Some((past, rx)) = slot.as_mut() else {
            continue;
        };
        let last = past.last().map(|e| e.seq);
        let mut got: Vec<(u64, String)> = past.iter().map(|e| (e.seq, e.id.clone())).collect();
        loop {
            match rx.try_recv() {
                Ok(ev) => {
                    // the handler's live filter
                    if ev.session_id != tid {
                        continue;
                    }
                    if last.map(|l| ev.seq <= l).unwrap_or(false) {
                        continue;
                    }
                    got.push((ev.seq, ev.id.clone()));
                }
                Err(tokio::sync::broadcast::error::TryRecvError::Lagged(_)) => continue,
                Err(_) => break,
            }
        }
        stats.bump("subscribers:store_level", 1);
        if got != expected {
            let gs: Vec<u64> = got.iter().map(|x| x.0).collect();
            let es: Vec<u64> = expected.iter().map(|x| x.0).collect();
            let missing: Vec<u64> = es.iter().filter(|s| !gs.contains(s)).copied().collect();
            let class = if !missing.is_empty() { "subscriber_missed_frame" } else if gs.windows(2).any(|w| w[0] == w[1]) || { let mut s2 = gs.clone(); s2.sort(); s2.windows(2).any(|w| w[0] == w[1]) } { "subscriber_got_frame_twice" } else { "subscriber_frames_out_of_order" };
            return (Outcome::Violation(viol(class, format!("{class}:thread_store_level"), format!("subscriber #{j} (subscribe, then replay_events of {tid}, then live frames with seq > {last:?}) has seqs {gs:?}; the thread holds {es:?} (missing {missing:?})"))), stats);
        }
    }
    (Outcome::Ok, stats)
}

fn tool_input(rng: &mut Rng) -> String {
    match rng.below(3) {
        0 => json!({"tool": "bash", "args": {"command": "for i in 1 2 3 4; do echo line$i; done; echo err 1>&2"}}).to_string(),
        1 => json!({"tool": "write", "args": {"path": "f.txt", "content": "x\n"}}).to_string(),
        _ => json!({"tool": "ls", "args": {"path": "."}}).to_string(),
    }
}

pub fn generate(run_seed: u64, _tier: Tier) -> Scenario {
    let mut rng = Rng::derive(run_seed, "c06");
    if Rng::derive(run_seed, "c06-kind").chance(1, 4) {
        return Scenario { store: Some(generate_store(run_seed)), kind: Kind::Thread { inputs: vec![] }, with_provider: false, script: vec![], plan: Plan::default(), subs: vec![], sub_hold_ms: 0, workers: 0, lag_deltas: None, busy_other_thread: false, channel_capacity: None, stall_first: false };
    }
    let mut lag = Rng::derive(run_seed, "c06-lag");
    if lag.chance(1, 50) {
        // 16 384 is the documented buffer of the live channels; the stream is made a little longer
        // (now and then much longer) than that
        let n = if lag.chance(1, 4) { lag.range(12_000, 20_000) } else { lag.range(8_200, 9_000) } as u32;
        let mut events = vec![SseEv::Created { id: "resp_1".into() }];
        for i in 0..n {
            events.push(SseEv::TextDelta { text: format!("d{i} ") });
        }
        events.push(SseEv::Completed { id: "resp_1".into() });
        let script = vec![Resp::Sse { events, interleave: false, done: DoneMode::Present, chunking: Chunking::Whole, drop_after: None, crlf: false }];
        let mut subs = vec![When::BeforeStart, When::BeforeStart];
        if lag.chance(1, 2) {
            subs.push(When::AfterEnd);
        }
        return Scenario { store: None, kind: Kind::Session { input: "say a great deal".into() }, with_provider: true, script, plan: Plan::default(), subs, sub_hold_ms: 0, workers: if lag.chance(1, 3) { 3 } else { 0 }, lag_deltas: Some(n), busy_other_thread: false, channel_capacity: None, stall_first: false };
    }
    let with_provider = rng.chance(2, 3);
    let input = |rng: &mut Rng| if rng.chance(2, 3) { format!("say something {}", rng.below(100)) } else { tool_input(rng) };
    let kind = match rng.below(10) {
        0..=3 => Kind::Session { input: input(&mut rng) },
        4 | 5 => Kind::SessionViaThread { input: input(&mut rng) },
        6 | 7 => Kind::Task { command: match rng.below(4) { 0 => "for i in 1 2 3 4 5 6; do echo out$i; done".to_string(), 1 => "echo a; echo b 1>&2; sleep 0.02; echo c; exit 3".to_string(), 2 => "for i in 1 2 3 4 5 6 7 8; do echo o$i; echo e$i 1>&2; done".to_string(), _ => "printf 'x%.0s' $(seq 1 3000); echo".to_string() } },
        _ => Kind::Thread { inputs: (0..rng.range(1, 3)).map(|_| input(&mut rng)).collect() },
    };
    let mut script = Vec::new();
    let n_deltas = rng.range(1, 12);
    let mut events = vec![SseEv::Created { id: "resp_1".into() }];
    for i in 0..n_deltas {
        events.push(SseEv::TextDelta { text: format!("d{i} ") });
    }
    events.push(SseEv::Completed { id: "resp_1".into() });
    script.push(Resp::Sse { events, interleave: false, done: DoneMode::Present, chunking: if rng.chance(1, 2) { Chunking::PerEvent } else { Chunking::Whole }, drop_after: None, crlf: false });
    let (producer_point, sub_point_async, sub_point_sync) = match &kind {
        Kind::Session { .. } | Kind::SessionViaThread { .. } => ("session_emit:", "session_stream:after_subscribe", "session_subscribe"),
        Kind::Task { .. } => ("task_emit:", "task_stream:after_subscribe", "task_subscribe"),
        Kind::Thread { .. } => ("session_emit:", "thread_stream:after_subscribe", "continuity_subscribe"),
    };
    // the synchronous point parks an OS thread, so it needs a multi-thread runtime
    let sync_sub = rng.chance(1, 2);
    let sub_point = if sync_sub { sub_point_sync } else { sub_point_async };
    let mut workers = if rng.chance(1, 3) { 3 } else { 0 };
    let mut rules = Vec::new();
    let mut subs: Vec<When> = Vec::new();
    match rng.below(10) {
        0..=4 => {
            // hold the producer at one of its emit points, attach there
            let which = if rng.chance(1, 2) { format!("{producer_point}between_record_and_publish") } else { format!("{producer_point}before_record") };
            rules.push(HoldRule { point: which, nth: rng.below(14), release: Release::Manual });
            subs.push(When::AtHold);
        }
        5 | 6 | 7 => {
            // hold a subscriber between subscribe and snapshot while the producer runs
            rules.push(HoldRule { point: sub_point.to_string(), nth: 0, release: Release::Manual });
            subs.push(if rng.chance(2, 3) { When::BeforeStart } else { When::AfterMs(rng.below(10)) });
            if sync_sub {
                workers = 4;
            }
        }
        _ => {}
    }
    for _ in 0..rng.below(3) {
        subs.push(match rng.below(5) {
            0 => When::BeforeStart,
            1 => When::AfterEnd,
            2 => When::AtHold,
            _ => When::AfterMs(rng.below(30)),
        });
    }
    if subs.is_empty() {
        subs.push(When::AfterMs(rng.below(20)));
    }
    let random = if rng.chance(2, 3) { Some((rng.next_u64(), 1, rng.range(2, 6), rng.range(1, 12))) } else { None };
    let busy_other_thread = matches!(kind, Kind::Thread { .. }) && Rng::derive(run_seed, "c06-other-thread").chance(1, 2);
    // own sub-stream: 1 in 3 scenarios run with a handful of slots in the live channels; in half of
    // those one subscriber attached before the start stops reading until the stream has ended
    let mut crng = Rng::derive(run_seed, "c06-capacity");
    let (mut channel_capacity, mut stall_first) = (None, false);
    if crng.chance(1, 3) {
        channel_capacity = Some([1u32, 2, 3, 4, 8, 16, 64][crng.usize_below(7)]);
        if crng.chance(1, 2) {
            stall_first = true;
            if !subs.contains(&When::BeforeStart) {
                subs.insert(0, When::BeforeStart);
            }
        }
    }
    Scenario { store: None, kind, with_provider, script, plan: Plan { rules, random }, subs, sub_hold_ms: rng.below(40), workers, lag_deltas: None, busy_other_thread, channel_capacity, stall_first }
}

// ---------------------------------------------------------------------------------------------

pub struct Sub {
    pub when: When,
    pub buf: Arc<Mutex<Vec<u8>>>,
    pub attached: Arc<AtomicBool>,
    pub status: Arc<AtomicU16>,
    pub handle: tokio::task::JoinHandle<()>,
    /// a slow consumer: does not read the response body while this flag is set
    pub stall: Option<Arc<AtomicBool>>,
}

pub fn spawn_sub(engine: &Engine, uri: &str, when: When) -> Sub {
    spawn_sub_stalled(engine, uri, when, None)
}

pub fn spawn_sub_stalled(engine: &Engine, uri: &str, when: When, stall: Option<Arc<AtomicBool>>) -> Sub {
    let st2 = stall.clone();
    let buf = Arc::new(Mutex::new(Vec::new()));
    let attached = Arc::new(AtomicBool::new(false));
    let status = Arc::new(AtomicU16::new(0));
    let (b2, a2, s2) = (buf.clone(), attached.clone(), status.clone());
    let app = engine.app.clone();
    let uri = uri.to_string();
    let handle = engine.rt.spawn(async move {
        let Ok(req) = Request::builder().method("GET").uri(uri).body(Body::empty()) else {
            return;
        };
        let Ok(resp) = app.oneshot(req).await else {
            a2.store(true, Ordering::SeqCst);
            return;
        };
        s2.store(resp.status().as_u16(), Ordering::SeqCst);
        a2.store(true, Ordering::SeqCst);
        let mut body = resp.into_body();
        if let Some(flag) = st2 {
            // the handler has subscribed and taken its snapshot; the body (history + live frames)
            // is simply not polled — what a client that stopped reading its socket looks like
            while flag.load(Ordering::SeqCst) {
                tokio::time::sleep(Duration::from_millis(2)).await;
            }
        }
        while let Some(Ok(frame)) = body.frame().await {
            if let Some(d) = frame.data_ref() {
                b2.lock().unwrap().extend_from_slice(d);
            }
        }
    });
    Sub { when, buf, attached, status, handle, stall }
}

pub fn parse_sse_frames(bytes: &[u8]) -> Vec<Value> {
    let text = String::from_utf8_lossy(bytes);
    let mut out = Vec::new();
    for block in text.split("\n\n") {
        let mut data = String::new();
        for line in block.lines() {
            if let Some(d) = line.strip_prefix("data:") {
                if !data.is_empty() {
                    data.push('\n');
                }
                data.push_str(d.strip_prefix(' ').unwrap_or(d));
            }
        }
        if !data.is_empty() {
            if let Ok(v) = serde_json::from_str::<Value>(&data) {
                out.push(v);
            }
        }
    }
    out
}

fn drive(engine: &Engine, cap: Duration, mut until: impl FnMut() -> bool) -> bool {
    let start = Instant::now();
    engine.rt.block_on(async {
        loop {
            if until() {
                return true;
            }
            if start.elapsed() > cap {
                return false;
            }
            tokio::time::sleep(Duration::from_millis(1)).await;
        }
    })
}

fn viol(class: &str, sig: String, detail: String) -> Violation {
    Violation { class: class.into(), signature: sig, detail }
}

pub fn execute(sc: &Scenario, env: &Env) -> (Outcome, RunStats) {
    if let Some(st) = &sc.store {
        return execute_store(st, env);
    }
    let mut stats = RunStats::default();
    stats.case_hash = fnv1a(serde_json::to_string(sc).unwrap_or_default().as_bytes());
    let _ = esim::panics_take();
    esim::WORKER_THREADS.store(sc.workers as usize, Ordering::SeqCst);
    struct KnobReset;
    impl Drop for KnobReset {
        fn drop(&mut self) {
            esim::knobs::set_event_channel_capacity(0);
        }
    }
    esim::knobs::set_event_channel_capacity(sc.channel_capacity.unwrap_or(0) as usize);
    let _knob_reset = KnobReset;
    if let Some(c) = sc.channel_capacity {
        stats.bump(&format!("knob:event_channel_capacity={c}"), 1);
    }
    let engine = Engine::new(&env.root.join("e"), &ProviderCfg::default(), sc.script.clone(), sc.with_provider);
    esim::WORKER_THREADS.store(0, Ordering::SeqCst);
    let engine = match engine {
        Ok(e) => e,
        Err(e) => return (Outcome::Harness(e), stats),
    };
    stats.bump(if sc.workers > 0 { "runtime:multi_thread" } else { "runtime:current_thread" }, 1);
    let tid = match engine.call_json("POST", "/threads/ensure", None) {
        Ok((_, v)) => v.get("thread_id").and_then(|t| t.as_str()).unwrap_or("").to_string(),
        Err(e) => return (Outcome::Harness(format!("ensure: {e}")), stats),
    };
    // the watched thread as a branch of a thread with a history
    let mut other: Option<String> = None;
    let mut tid = tid;
    if sc.busy_other_thread {
        let prep = (|| -> Result<String, String> {
            let mut runs = Vec::new();
            for _ in 0..2 {
                let (st, v) = engine.call_json("POST", &format!("/threads/{tid}/messages"), Some(json!({"content": json!({"tool": "ls", "args": {"path": "."}}).to_string()})))?;
                if st != 202 {
                    return Err(format!("prepare post: {st}"));
                }
                runs.push(v["session_id"].as_str().unwrap_or("").to_string());
            }
            let log_path = engine.data.join("events.jsonl");
            if !drive(&engine, Duration::from_secs(30), || crate::model::parse_truth_file(&log_path).map(|t| runs.iter().all(|s| t.frames.iter().any(|f| f.ty == "continuity_run_ended" && f.s("run_session_id") == Some(s.as_str())))).unwrap_or(false)) {
                return Err("preparation runs did not end".into());
            }
            let (st, v) = engine.call_json("POST", &format!("/threads/{tid}/branch"), Some(json!({})))?;
            if st != 200 && st != 201 {
                return Err(format!("branch: {st} {v}"));
            }
            Ok(v["thread_id"].as_str().unwrap_or("").to_string())
        })();
        match prep {
            Ok(b) => {
                other = Some(tid.clone());
                tid = b;
                stats.bump("thread_scenarios_with_a_busier_other_thread", 1);
            }
            Err(e) => return (Outcome::Harness(e), stats),
        }
    }
    gates::install(sc.plan.clone());
    let result = run_scenario(sc, &engine, &tid, other.as_deref(), &mut stats);
    gates::release_all();
    let (visits, holds) = gates::uninstall();
    for (k, v) in visits {
        stats.bump(&format!("point_visits:{k}"), v);
    }
    for (k, v) in holds {
        stats.bump(&format!("fault:task_held_at:{k}"), v);
    }
    drop(engine);
    if sc.channel_capacity.is_some() {
        stats.bump("knob:channels_built_with_scenario_capacity", esim::knobs::channels_built() as u64);
    }
    match result {
        Ok(None) => (Outcome::Ok, stats),
        Ok(Some(v)) => (Outcome::Violation(v), stats),
        Err(e) => (Outcome::Harness(e), stats),
    }
}

fn run_scenario(sc: &Scenario, engine: &Engine, tid: &str, other: Option<&str>, stats: &mut RunStats) -> Result<Option<Violation>, String> {
    let kind_name = match &sc.kind {
        Kind::Session { .. } => "session",
        Kind::SessionViaThread { .. } => "session_via_thread",
        Kind::Task { .. } => "task",
        Kind::Thread { .. } => "thread",
    };
    stats.bump(&format!("stream_kind:{kind_name}"), 1);
    // --- phase 0: create the stream's owner where it exists before the producer starts
    let mut stream_id = String::new();
    let mut uri = String::new();
    let mut stream_kind = "session";
    match &sc.kind {
        Kind::Session { .. } => {
            let (st, v) = engine.call_json("POST", "/sessions", None)?;
            if st != 201 {
                return Err(format!("create session: {st}"));
            }
            stream_id = v["session_id"].as_str().unwrap_or("").to_string();
            uri = format!("/sessions/{stream_id}/events");
        }
        Kind::Thread { .. } => {
            stream_id = tid.to_string();
            uri = format!("/threads/{tid}/events");
            stream_kind = "continuity";
        }
        _ => {}
    }
    let mut subs: Vec<Sub> = Vec::new();
    let (sub_point, sub_point_sync) = match &sc.kind {
        Kind::Task { .. } => ("task_stream:", "task_subscribe"),
        Kind::Thread { .. } => ("thread_stream:", "continuity_subscribe"),
        _ => ("session_stream:", "session_subscribe"),
    };
    let attach = |subs: &mut Vec<Sub>, when: When, uri: &str| {
        let stall = if when == When::BeforeStart && ((sc.lag_deltas.is_some() && subs.len() == 1) || (sc.stall_first && subs.is_empty())) { Some(Arc::new(AtomicBool::new(true))) } else { None };
        let s = spawn_sub_stalled(engine, uri, when, stall);
        let att = s.attached.clone();
        // a producer held inside its emitter keeps the stream's buffer locked: the subscriber then
        // completes its snapshot only after the release
        let cap = if gates::held_at("session_emit:") + gates::held_at("task_emit:") > 0 { Duration::from_millis(120) } else { Duration::from_secs(3) };
        drive(engine, cap, || att.load(Ordering::SeqCst) || gates::held_at(sub_point) + gates::held_at(sub_point_sync) > 0);
        subs.push(s);
    };
    if !uri.is_empty() {
        for w in sc.subs.iter().filter(|w| **w == When::BeforeStart) {
            attach(&mut subs, w.clone(), &uri);
        }
    }
    // --- phase 1: start the producer
    let mut run_sessions: Vec<String> = Vec::new();
    match &sc.kind {
        Kind::Session { input } => {
            let (st, _) = engine.call("POST", &format!("/sessions/{stream_id}/input"), Some(json!({"input": input})))?;
            if st != 202 {
                return Err(format!("input: {st}"));
            }
        }
        Kind::SessionViaThread { input } => {
            let (st, v) = engine.call_json("POST", &format!("/threads/{tid}/messages"), Some(json!({"content": input})))?;
            if st != 202 {
                return Err(format!("post: {st}"));
            }
            stream_id = v["session_id"].as_str().unwrap_or("").to_string();
            uri = format!("/sessions/{stream_id}/events");
            run_sessions.push(stream_id.clone());
        }
        Kind::Task { command } => {
            let (st, v) = engine.call_json("POST", "/tasks", Some(json!({"tool": "bash", "args": {"command": command}})))?;
            if st != 201 {
                return Err(format!("create task: {st} {v}"));
            }
            stream_id = v["task_id"].as_str().unwrap_or("").to_string();
            uri = format!("/tasks/{stream_id}/events");
            stream_kind = "task";
        }
        Kind::Thread { inputs } => {
            for input in inputs {
                if let Some(o) = other {
                    let (st, v) = engine.call_json("POST", &format!("/threads/{o}/messages"), Some(json!({"content": input})))?;
                    if st != 202 {
                        return Err(format!("post to the other thread: {st}"));
                    }
                    run_sessions.push(v["session_id"].as_str().unwrap_or("").to_string());
                }
                let (st, v) = engine.call_json("POST", &format!("/threads/{tid}/messages"), Some(json!({"content": input})))?;
                if st != 202 {
                    return Err(format!("post: {st}"));
                }
                run_sessions.push(v["session_id"].as_str().unwrap_or("").to_string());
            }
        }
    }
    if matches!(sc.kind, Kind::SessionViaThread { .. } | Kind::Task { .. }) {
        // the stream exists only now: "before start" = before the producer task has run
        for w in sc.subs.iter().filter(|w| **w == When::BeforeStart) {
            attach(&mut subs, w.clone(), &uri);
        }
    }
    let log_path = engine.data.join("events.jsonl");
    let ended = |sid: &str, kind: &str| -> bool {
        let Ok(t) = crate::model::parse_truth_file(&log_path) else {
            return false;
        };
        match kind {
            "session" => t.frames.iter().any(|f| f.stream_id == sid && f.ty == "session_ended"),
            "task" => t.frames.iter().any(|f| f.stream_id == sid && f.ty == "tool_task_status" && matches!(f.s("status"), Some("exited") | Some("failed") | Some("cancelled"))),
            _ => false,
        }
    };
    let all_done = |run_sessions: &[String], stream_id: &str| -> bool {
        match stream_kind {
            "continuity" => {
                let Ok(t) = crate::model::parse_truth_file(&log_path) else {
                    return false;
                };
                run_sessions.iter().all(|s| t.frames.iter().any(|f| f.ty == "continuity_run_ended" && f.s("run_session_id") == Some(s.as_str())))
            }
            k => ended(stream_id, k) && run_sessions.iter().all(|s| {
                let Ok(t) = crate::model::parse_truth_file(&log_path) else {
                    return false;
                };
                t.frames.iter().any(|f| f.ty == "continuity_run_ended" && f.s("run_session_id") == Some(s.as_str()))
            }),
        }
    };
    // --- phase 2: timed and held attachments
    let producer_rule = sc.plan.rules.iter().find(|r| r.point.contains("_emit:")).cloned();
    let sub_rule = sc.plan.rules.iter().any(|r| r.point.contains("_stream:") || r.point.ends_with("_subscribe"));
    let mut timed: Vec<u64> = sc.subs.iter().filter_map(|w| if let When::AfterMs(ms) = w { Some(*ms) } else { None }).collect();
    timed.sort();
    let t0 = Instant::now();
    let mut at_hold_done = false;
    let n_at_hold = sc.subs.iter().filter(|w| **w == When::AtHold).count();
    loop {
        let now_ms = t0.elapsed().as_millis() as u64;
        while let Some(ms) = timed.first().copied() {
            if ms <= now_ms {
                timed.remove(0);
                attach(&mut subs, When::AfterMs(ms), &uri);
            } else {
                break;
            }
        }
        if !at_hold_done {
            if let Some(r) = &producer_rule {
                if gates::held_at(&r.point) > 0 {
                    stats.bump("attach_while_producer_held", n_at_hold as u64);
                    for _ in 0..n_at_hold {
                        attach(&mut subs, When::AtHold, &uri);
                    }
                    at_hold_done = true;
                    gates::release_all();
                }
            }
        }
        if sub_rule && !at_hold_done && now_ms >= sc.sub_hold_ms {
            // the held subscriber has been overtaken by the producer for long enough
            stats.bump("subscriber_held_between_subscribe_and_snapshot", 1);
            for _ in 0..n_at_hold {
                attach(&mut subs, When::AtHold, &uri);
            }
            at_hold_done = true;
            gates::release_all();
        }
        if all_done(&run_sessions, &stream_id) && timed.is_empty() {
            break;
        }
        if t0.elapsed() > Duration::from_secs(30) {
            gates::release_all();
            return Err("producer did not finish within 30 s".into());
        }
        // producer may have finished before the hold point was ever reached
        if producer_rule.is_some() && !at_hold_done && all_done(&run_sessions, &stream_id) {
            break;
        }
        drive(engine, Duration::from_millis(1), || false);
    }
    gates::release_all();
    if !at_hold_done {
        for _ in 0..n_at_hold {
            attach(&mut subs, When::AfterEnd, &uri);
        }
    }
    drive(engine, Duration::from_secs(30), || all_done(&run_sessions, &stream_id));
    for w in sc.subs.iter().filter(|w| **w == When::AfterEnd) {
        attach(&mut subs, w.clone(), &uri);
    }
    // --- phase 3: let deliveries finish, then compare
    for sub in &subs {
        if let Some(f) = &sub.stall {
            f.store(false, Ordering::SeqCst);
            stats.bump("fault:subscriber_stalled_until_stream_end", 1);
        }
    }
    engine.settle(5);
    let truth = crate::model::parse_truth_file(&log_path).map_err(|e| format!("truth: {}", e.reason))?;
    let mut expected: Vec<(u64, String)> = truth.stream(stream_kind, &stream_id).iter().map(|f| (f.seq, f.id.clone())).collect();
    expected.sort();
    stats.bump("frames_in_watched_streams", expected.len() as u64);
    let want = expected.len();
    if sc.lag_deltas.is_some() {
        stats.bump("slow_consumer_scenarios", 1);
        stats.bump("slow_consumer_stream_frames", want as u64);
        // long streams: wait on the byte count settling rather than re-parsing megabytes every tick
        let mut last = (0usize, Instant::now());
        drive(engine, Duration::from_secs(30), || {
            let n: usize = subs.iter().map(|s| s.buf.lock().unwrap().len()).sum();
            if n != last.0 {
                last = (n, Instant::now());
            }
            last.1.elapsed() > Duration::from_millis(400)
        });
    } else {
        drive(engine, Duration::from_secs(8), || subs.iter().all(|s| parse_sse_frames(&s.buf.lock().unwrap()).len() >= want));
    }
    stats.nontrivial = expected.len() >= 3;
    let mut verdict = None;
    for (i, s) in subs.iter().enumerate() {
        stats.bump(&format!("subscribers:{}", match s.when { When::BeforeStart => "before_start", When::AtHold => "at_held_point", When::AfterMs(_) => "during", When::AfterEnd => "after_end" }), 1);
        let st = s.status.load(Ordering::SeqCst);
        if st != 200 {
            if verdict.is_none() {
                verdict = Some(viol("stream_not_served", format!("stream_not_served:{kind_name}:{st}"), format!("subscriber #{i} ({:?}) got status {st} for {uri}", s.when)));
            }
            continue;
        }
        let got: Vec<(u64, String)> = parse_sse_frames(&s.buf.lock().unwrap()).iter().map(|v| (v["seq"].as_u64().unwrap_or(u64::MAX), v["id"].as_str().unwrap_or("").to_string())).collect();
        if got != expected && verdict.is_none() {
            let got_seqs: Vec<u64> = got.iter().map(|g| g.0).collect();
            let exp_seqs: Vec<u64> = expected.iter().map(|g| g.0).collect();
            let missing: Vec<u64> = exp_seqs.iter().filter(|s| !got_seqs.contains(s)).copied().collect();
            let mut dup = false;
            let mut sorted = got_seqs.clone();
            sorted.sort();
            for w in sorted.windows(2) {
                if w[0] == w[1] {
                    dup = true;
                }
            }
            let ordered = got_seqs.windows(2).all(|w| w[0] < w[1]);
            let class = if !missing.is_empty() {
                "subscriber_missed_frame"
            } else if dup {
                "subscriber_got_frame_twice"
            } else if !ordered {
                "subscriber_frames_out_of_order"
            } else {
                "subscriber_frames_differ"
            };
            let when = match s.when {
                _ if s.stall.is_some() => "stalled_reader",
                When::BeforeStart => "attached_before_start",
                When::AtHold => "attached_at_held_point",
                When::AfterMs(_) => "attached_during",
                When::AfterEnd => "attached_after_end",
            };
            let short = |v: &[u64]| if v.len() > 40 { format!("[{} seqs: {:?} … {:?}]", v.len(), &v[..6], &v[v.len() - 6..]) } else { format!("{v:?}") };
            let when = if sc.channel_capacity.is_some() { format!("{when}:small_channel") } else { when.to_string() };
            verdict = Some(viol(class, format!("{class}:{kind_name}:{when}"), format!("subscriber #{i} ({:?}) of {uri} received seqs {}; the stream has {} (missing {}); plan {:?}", s.when, short(&got_seqs), short(&exp_seqs), short(&missing), sc.plan.rules)));
        }
    }
    for s in &subs {
        s.handle.abort();
    }
    let p = esim::panics_take();
    if verdict.is_none() && !p.is_empty() {
        verdict = Some(viol("engine_task_panicked", "engine_task_panicked".into(), format!("{p:?}")));
    }
    Ok(verdict)
}

impl Check for C06 {
    fn id(&self) -> &'static str {
        "C06"
    }
    fn level(&self) -> &'static str {
        "exploration"
    }
    fn technique(&self) -> &'static str {
        "seeded simulation of subscriber/producer interleavings on the real router: guarded async scheduling points inside the session and task emitters (before record, between record and publish) and inside the three stream handlers (between subscribe and snapshot) are owned by the simulator, which holds the producer or a subscriber at a seeded visit while the other side runs, plus random short holds at every point; subscribers attach before, at the held point, during and after; oracle = received (seq,id) list equals the stream in the log"
    }
    fn budget(&self, tier: Tier) -> Budget {
        match tier {
            Tier::Quick => Budget { runs: 800, secs: 150 },
            Tier::Thorough => Budget { runs: 40_000, secs: 2400 },
        }
    }
    fn generate(&self, run_seed: u64, tier: Tier) -> Value {
        serde_json::to_value(generate(run_seed, tier)).unwrap()
    }
    fn execute(&self, scenario: &Value, env: &Env) -> (Outcome, RunStats) {
        match serde_json::from_value::<Scenario>(scenario.clone()) {
            Ok(sc) => execute(&sc, env),
            Err(e) => (Outcome::Harness(format!("bad scenario: {e}")), RunStats::default()),
        }
    }
    fn shrink(&self, scenario: &Value) -> Vec<Value> {
        let Ok(sc) = serde_json::from_value::<Scenario>(scenario.clone()) else {
            return Vec::new();
        };
        let mut out: Vec<Scenario> = Vec::new();
        if let Some(st) = &sc.store {
            for a in 0..st.producers.len() {
                for k in (0..st.producers[a].len()).rev() {
                    let mut c = sc.clone();
                    if let Some(s2) = c.store.as_mut() {
                        s2.producers[a].remove(k);
                        s2.sched.schedules = None;
                    }
                    out.push(c);
                }
            }
            if st.subscribers.len() > 1 {
                for j in (0..st.subscribers.len()).rev() {
                    let mut c = sc.clone();
                    if let Some(s2) = c.store.as_mut() {
                        s2.subscribers.remove(j);
                        s2.sched.schedules = None;
                    }
                    out.push(c);
                }
            }
            return out.into_iter().map(|s| serde_json::to_value(s).unwrap()).collect();
        }
        if sc.subs.len() > 1 {
            for i in (0..sc.subs.len()).rev() {
                let mut c = sc.clone();
                c.subs.remove(i);
                out.push(c);
            }
        }
        if sc.plan.random.is_some() {
            let mut c = sc.clone();
            c.plan.random = None;
            out.push(c);
        }
        for i in 0..sc.plan.rules.len() {
            if sc.plan.rules[i].nth > 0 {
                let mut c = sc.clone();
                c.plan.rules[i].nth -= 1;
                out.push(c);
                let mut c = sc.clone();
                c.plan.rules[i].nth = 0;
                out.push(c);
            }
        }
        if let Kind::Thread { inputs } = &sc.kind {
            if inputs.len() > 1 {
                let mut c = sc.clone();
                c.kind = Kind::Thread { inputs: inputs[..1].to_vec() };
                out.push(c);
            }
        }
        if sc.with_provider {
            let mut c = sc.clone();
            c.with_provider = false;
            out.push(c);
        }
        if let Some(Resp::Sse { events, .. }) = sc.script.first() {
            if events.len() > 3 {
                let mut c = sc.clone();
                if let Resp::Sse { events: e2, .. } = &mut c.script[0] {
                    e2.remove(1);
                }
                out.push(c);
            }
        }
        out.into_iter().map(|s| serde_json::to_value(s).unwrap()).collect()
    }
    fn attempts(&self) -> u32 {
        3
    }
    fn rule(&self) -> String {
        "1 in 4 runs is a store-level scenario in S-sim: 1-2 producer threads append 2-10 frames (messages, whole runs, checkpoints) to one thread under the baton scheduler (every fs effect, lock operation and the subscribe() entry is a scheduling point, i.e. also between the truth append, each cache append and the broadcast) while 1-3 subscriber threads perform the thread stream's join protocol at scheduler-chosen moments — subscribe(), then replay_events(), then the live frames with seq above the last replayed one (cache loss is outside this property's quantifier and is judged in C03/C04); what each collects must equal the thread in the log. The other runs are engine scenarios: a watched stream (a session started by POST /sessions + input, the session of a run started by a thread post, a background task, or a thread receiving 1-3 posts), produced by the stub runtime, a scripted provider answer of 3-14 frames, or a tool envelope; a hold plan (one of: hold the producer at the n-th visit (n in 0..14) of its before-record point or of the point between recording a frame and publishing it and attach a subscriber exactly there; hold a subscriber between its subscribe and its history snapshot for 0-40 ms while the producer runs; none) plus, in 2 of 3 scenarios, random holds of 0-12 ms at every visited point with probability 1/2..1/6; 1-4 subscribers attaching before the start, at the held point, 0-30 ms after the start, or after the end. After the producer finished and all holds were released, each subscriber must have received exactly the (seq,id) list the log holds for that stream, in order (missing / duplicated / reordered frames are distinct violation classes); distinct = hash of the scenario; non-trivial = watched stream has at least 3 frames".into()
    }
    fn assumptions(&self) -> Vec<String> {
        vec![
            "interleavings are explored at the guarded scheduling points (emitters, stream handlers) and at whatever real-time task switches tokio makes; a subscriber that lags more than the 16384-frame live channel is not generated".into(),
            "the runtime is single-threaded: two tasks never execute between two scheduling points at once; the multi-thread window between publish and record is reached by holding the producer at the point between them".into(),
            "PTY tasks are not exercised".into(),
        ]
    }
    fn components(&self) -> Value {
        json!({
            "real": ["ripd::server stream handlers (sessions, tasks, threads) and routes", "ripd::session emitters", "ripd::tasks TaskEmitter, pipes runner, bash subprocesses", "ripd::continuities store (subscribe/replay/append)", "ripd::runner SessionEngine", "tokio broadcast channels, axum SSE bodies", "tokio current-thread runtime (real time)"],
            "stubbed": ["the provider (scripted HTTP stub)", "daemon HTTP listener (tower oneshot; SSE bodies are read as http-body frames)"],
            "simulated": ["scheduling at the guarded rip_kernel::verif::yield_async points: seeded holds / releases decided by the simulator"]
        })
    }
}
