//! C10 — branch and handoff record correct lineage and never touch the parent.

use std::collections::BTreeMap;
use std::sync::{Arc, Mutex};

use serde::{Deserialize, Serialize};
use serde_json::{json, Value};

use crate::driver::{Budget, Check, Env, Outcome, RunStats, Tier, Violation};
use crate::model;
use crate::prng::{fnv1a, Rng};
use crate::sched::{Policy, Sim, SimConfig, Verdict};
use crate::seam;
use crate::storesim;
use crate::threadmodel::ThreadView;
use crate::world::{gen_op, Op, World};

#[derive(Clone, Debug, Serialize, Deserialize, PartialEq)]
pub enum Sel {
    None,
    Seq(u64),
    /// head + k
    BeyondHead(u64),
    /// from_seq = seq of k-th frame
    SeqOfFrame(u32),
    Message(u32),
    UnknownMessage,
    NonMessageFrame(u32),
    Both(u32),
}

#[derive(Clone, Debug, Serialize, Deserialize, PartialEq)]
pub enum Summary {
    Text,
    Artifact,
    Neither,
    UnreadableArtifact,
    TextAndUnreadableArtifact,
}

#[derive(Clone, Debug, Serialize, Deserialize, PartialEq)]
pub struct Lineage {
    /// fail the next write to the artifact store with ENOSPC while this request runs
    #[serde(default)]
    pub fail_artifact_write: bool,
    pub handoff: bool,
    pub thread: u32,
    pub sel: Sel,
    pub summary: Summary,
}

#[derive(Clone, Debug, Serialize, Deserialize, PartialEq)]
pub struct Scenario {
    pub sim_seed: u64,
    pub history: Vec<Op>,
    pub lineage_ops: Vec<Lineage>,
}

pub struct C10;

static FAIL_ARTIFACT_WRITE: std::sync::atomic::AtomicBool = std::sync::atomic::AtomicBool::new(false);

pub fn generate(run_seed: u64, tier: Tier) -> Scenario {
    let mut rng = Rng::derive(run_seed, "ops");
    let mut history = vec![Op::EnsureDefault];
    let n = rng.range(1, if tier == Tier::Quick { 25 } else { 60 }) as usize;
    for _ in 0..n {
        let op = match rng.below(10) {
            0..=2 => Op::AppendMessage { thread: rng.below(2) as u32, size: rng.range(0, 2) as u32 },
            3 | 4 => Op::FullRun { thread: rng.below(2) as u32, size: 1, effects: rng.below(3) as u32, cursor_key: None },
            5 => Op::RunSpawned { thread: rng.below(2) as u32, msg: rng.below(16) as u32 },
            6 => Op::RunEnded { thread: rng.below(2) as u32, msg: rng.below(16) as u32 },
            _ => gen_op(&mut rng, false),
        };
        history.push(op);
    }
    let k = rng.range(3, 14) as usize;
    let mut lineage_ops = Vec::new();
    for _ in 0..k {
        let sel = match rng.below(16) {
            0 | 1 => Sel::None,
            2 => Sel::Seq(0),
            3 => Sel::Seq(*rng.pick(&[1u64, 2, 3, u64::MAX, 1 << 33])),
            4 => Sel::BeyondHead(rng.range(1, 3)),
            5 => Sel::BeyondHead(0),
            6 | 7 => Sel::SeqOfFrame(rng.below(64) as u32),
            8..=11 => Sel::Message(rng.below(64) as u32),
            12 => Sel::UnknownMessage,
            13 | 14 => Sel::NonMessageFrame(rng.below(64) as u32),
            _ => Sel::Both(rng.below(8) as u32),
        };
        let handoff = rng.chance(1, 2);
        lineage_ops.push(Lineage {
            fail_artifact_write: handoff && rng.chance(1, 6),
            handoff,
            thread: rng.below(3) as u32,
            sel,
            summary: if !handoff {
                Summary::Neither
            } else {
                match rng.below(8) {
                    0..=3 => Summary::Text,
                    4 => Summary::Artifact,
                    5 => Summary::Neither,
                    6 => Summary::UnreadableArtifact,
                    _ => Summary::TextAndUnreadableArtifact,
                }
            },
        });
    }
    // own sub-stream: 1 in 8 source threads end in a long run of non-message frames (260-420 tool
    // side-effect frames after the last message: beyond any bounded tail window)
    let mut tail = Rng::derive(run_seed, "c10:long-tail");
    if tail.chance(1, 8) {
        let thread = tail.below(2) as u32;
        history.push(Op::FullRun { thread, size: 1, effects: 0, cursor_key: None });
        for _ in 0..tail.range(260, 420) {
            history.push(Op::ToolSideEffects { thread, msg: 1_000, paths: 1 });
        }
    }
    Scenario {
        sim_seed: crate::prng::mix_label(run_seed, "sim"),
        history,
        lineage_ops,
    }
}

struct Shared {
    violation: Option<Violation>,
    stats: RunStats,
    hash: u64,
}

pub fn execute(sc: &Scenario, env: &Env) -> (Outcome, RunStats) {
    let dirs = storesim::begin_run(&env.root, sc.sim_seed, 250_000);
    let world = Arc::new(World::new(dirs.clone()));
    let shared = Arc::new(Mutex::new(Shared { violation: None, stats: RunStats::default(), hash: 0xcbf2_9ce4_8422_2325 }));
    if let Err(e) = storesim::open_world(&world) {
        let mut st = RunStats::default();
        st.sim_time_ns = storesim::end_run();
        return (Outcome::Harness(format!("open: {e}")), st);
    }
    let (w, sh, scn) = (world.clone(), shared.clone(), sc.clone());
    let mut sim = Sim::new(SimConfig { policy: Policy::Sequential, yield_on_reads: false, yield_on_locks: false, ..SimConfig::default() });
    sim.actor("driver", move || {
        for (k, op) in scn.history.iter().enumerate() {
            let r = w.exec(0, k, op);
            w.record(r);
        }
        let truth_path = w.dirs.truth_path();
        for (k, l) in scn.lineage_ops.iter().enumerate() {
            if sh.lock().unwrap().violation.is_some() {
                return;
            }
            let st = w.st();
            let store = st.store.as_ref();
            let before = seam::passthrough(|| model::parse_truth_file(&truth_path));
            let Ok(before) = before else {
                sh.lock().unwrap().violation = Some(Violation { class: "harness".into(), signature: "harness".into(), detail: "truth unparseable before lineage op".into() });
                return;
            };
            let threads = w.threads_sorted(store);
            if threads.is_empty() {
                return;
            }
            let parent = threads[l.thread as usize % threads.len()].clone();
            let view = ThreadView::new(&before, &parent);
            let msgs = view.messages();
            let head = view.head_seq();
            let (from_message_id, from_seq): (Option<String>, Option<u64>) = match &l.sel {
                Sel::None => (None, None),
                Sel::Seq(s) => (None, Some(*s)),
                Sel::BeyondHead(k) => (None, Some(head.saturating_add(*k))),
                Sel::SeqOfFrame(i) => (None, view.frames.get(*i as usize % view.frames.len().max(1)).map(|f| f.seq)),
                Sel::Message(i) => (if msgs.is_empty() { Some("nope".into()) } else { Some(msgs[*i as usize % msgs.len()].id.clone()) }, None),
                Sel::UnknownMessage => (Some("00000000-0000-4000-8000-00000000dead".into()), None),
                Sel::NonMessageFrame(i) => {
                    let non: Vec<_> = view.frames.iter().filter(|f| !f.is_message()).collect();
                    (Some(non[*i as usize % non.len().max(1)].id.clone()), None)
                }
                Sel::Both(i) => (Some(if msgs.is_empty() { "x".into() } else { msgs[*i as usize % msgs.len()].id.clone() }), Some(0)),
            };
            let (md, art): (Option<String>, Option<String>) = match l.summary {
                Summary::Text => (Some(format!("summary {k}")), None),
                Summary::Neither => (None, None),
                Summary::Artifact => {
                    let id = format!("{:064x}", 0xabc0_0000u128 + k as u128);
                    seam::passthrough(|| {
                        let dir = w.dirs.blobs_dir();
                        let _ = std::fs::create_dir_all(&dir);
                        let _ = std::fs::write(dir.join(&id), b"{\"schema\":\"rip.handoff_context_bundle.v1\"}");
                    });
                    (None, Some(id))
                }
                // ids that do not resolve to a readable blob: never written, empty, and ids that
                // resolve to a directory once the blob store exists
                // ... and the id of a blob that does exist, padded with white space (the id as given
                // is what gets recorded, so the id as given must resolve)
                Summary::UnreadableArtifact => (None, Some(match k % 7 {
                    0 => "e".repeat(64),
                    1 => String::new(),
                    2 => ".".to_string(),
                    3 => "../blobs".to_string(),
                    4 => "..".to_string(),
                    n => {
                        let id = format!("{:064x}", 0xabc1_0000u128 + k as u128);
                        seam::passthrough(|| {
                            let dir = w.dirs.blobs_dir();
                            let _ = std::fs::create_dir_all(&dir);
                            let _ = std::fs::write(dir.join(&id), b"{\"schema\":\"rip.handoff_context_bundle.v1\"}");
                        });
                        if n == 5 { format!(" {id}") } else { format!("{id}\n") }
                    }
                })),
                Summary::TextAndUnreadableArtifact => (Some(format!("summary {k}")), Some("d".repeat(64))),
            };
            FAIL_ARTIFACT_WRITE.store(l.fail_artifact_write, std::sync::atomic::Ordering::SeqCst);
            let result = if l.handoff {
                store.handoff(&parent, Some(format!("h{k}")), (md.clone(), art.clone()), from_message_id.clone(), from_seq, ("actor0".into(), "sim".into()))
            } else {
                store.branch(&parent, Some(format!("b{k}")), from_message_id.clone(), from_seq, "actor0".into(), "sim".into())
            };
            let fault_fired = l.fail_artifact_write && !FAIL_ARTIFACT_WRITE.swap(false, std::sync::atomic::Ordering::SeqCst);
            let after = seam::passthrough(|| model::parse_truth_file(&truth_path));
            let Ok(after) = after else {
                sh.lock().unwrap().violation = Some(Violation { class: "truth_unparseable".into(), signature: "truth_unparseable_after_lineage".into(), detail: "events.jsonl does not parse after a branch/handoff".into() });
                return;
            };
            let opname = if l.handoff { "handoff" } else { "branch" };
            let expect = view.lineage_cut(from_message_id.as_deref(), from_seq);
            let expect = match (&expect, l.handoff, &md, &art) {
                (Ok(_), true, None, None) => Err("handoff without summary".to_string()),
                _ => expect,
            };
            let mut g = sh.lock().unwrap();
            g.stats.bump(&format!("{opname}:{}", if result.is_ok() { "ok" } else { "refused" }), 1);
            g.stats.bump(&format!("sel:{}", match &l.sel { Sel::None => "none", Sel::Seq(_) | Sel::SeqOfFrame(_) => "seq", Sel::BeyondHead(_) => "beyond_head", Sel::Message(_) => "message", Sel::UnknownMessage => "unknown_message", Sel::NonMessageFrame(_) => "non_message", Sel::Both(_) => "both" }), 1);
            let mix = format!("{opname}:{:?}:{};", l.sel, result.is_ok());
            for b in mix.as_bytes() {
                g.hash ^= *b as u64;
                g.hash = g.hash.wrapping_mul(0x0000_0100_0000_01B3);
            }
            let fail = |g: &mut Shared, class: &str, sig: String, detail: String| {
                g.violation = Some(Violation { class: class.into(), signature: sig, detail: format!("{opname} #{k} on {parent} (from_message_id={from_message_id:?}, from_seq={from_seq:?}, summary={:?}): {detail}", l.summary) });
            };
            // the source thread gains no frame, whatever the outcome
            let pb = before.thread(&parent).len();
            let pa = after.thread(&parent).len();
            if pa != pb {
                fail(&mut g, "parent_touched", format!("parent_touched:{opname}:{}", if result.is_ok() { "ok" } else { "refused" }), format!("source thread went from {pb} to {pa} frames"));
                return;
            }
            // earlier bytes unchanged
            if after.frames.len() < before.frames.len() || after.frames[..before.frames.len()].iter().zip(before.frames.iter()).any(|(a, b)| a.v != b.v) {
                fail(&mut g, "earlier_frames_changed", format!("earlier_frames_changed:{opname}"), "frames recorded earlier changed".into());
                return;
            }
            match (&result, &expect) {
                (Ok((child, seq, mid)), Ok((eseq, emid))) => {
                    if seq != eseq || mid != emid {
                        fail(&mut g, "wrong_cut", format!("wrong_cut:{opname}:{}", sel_name(&l.sel)), format!("returned cut (seq {seq}, message {mid:?}), expected (seq {eseq}, message {emid:?})"));
                        return;
                    }
                    let cf = after.thread(child);
                    if cf.len() < 2 || cf[0].ty != "continuity_created" || cf[0].seq != 0 {
                        fail(&mut g, "child_shape", format!("child_shape:{opname}:first_frame"), format!("child's first frame is {:?}", cf.first().map(|f| (&f.ty, f.seq))));
                        return;
                    }
                    let want_ty = if l.handoff { "continuity_handoff_created" } else { "continuity_branched" };
                    if cf[1].ty != want_ty || cf[1].seq != 1 {
                        fail(&mut g, "child_shape", format!("child_shape:{opname}:second_frame"), format!("child's second frame is ({}, seq {}), expected ({want_ty}, seq 1)", cf[1].ty, cf[1].seq));
                        return;
                    }
                    if cf.len() != 2 {
                        fail(&mut g, "child_shape", format!("child_shape:{opname}:extra_frames"), format!("child has {} frames right after creation", cf.len()));
                        return;
                    }
                    let lf = cf[1];
                    let (kseq, kmid, kparent) = if l.handoff { ("from_seq", "from_message_id", "from_thread_id") } else { ("parent_seq", "parent_message_id", "parent_thread_id") };
                    if lf.u(kseq) != Some(*eseq) || lf.s(kmid).map(|s| s.to_string()) != *emid || lf.s(kparent) != Some(parent.as_str()) {
                        fail(&mut g, "lineage_frame_wrong", format!("lineage_frame_wrong:{opname}"), format!("lineage frame records ({:?}, {:?}, {:?})", lf.u(kseq), lf.s(kmid), lf.s(kparent)));
                        return;
                    }
                    if *eseq > head {
                        fail(&mut g, "cut_outside_source", format!("cut_outside_source:{opname}"), format!("cut {eseq} beyond source head {head}"));
                        return;
                    }
                    if l.handoff {
                        // a handoff always carries a resolvable summary
                        let inline = lf.s("summary_markdown").is_some();
                        let art_ok = lf.s("summary_artifact_id").map(|id| seam::passthrough(|| std::fs::read(w.dirs.blobs_dir().join(id)).map(|b| serde_json::from_slice::<Value>(&b).is_ok()).unwrap_or(false))).unwrap_or(false);
                        if !inline && !art_ok {
                            fail(&mut g, "handoff_summary_unresolvable", "handoff_summary_unresolvable".into(), format!("handoff frame carries summary_artifact_id={:?} (unreadable) and no inline markdown", lf.s("summary_artifact_id")));
                            return;
                        }
                        if matches!(l.summary, Summary::Text) && !art_ok {
                            fail(&mut g, "handoff_summary_unresolvable", "handoff_summary_artifact_missing_for_text".into(), "handoff given summary text did not produce a readable summary artifact".into());
                            return;
                        }
                        g.stats.bump("handoff_summaries_resolved", 1);
                    }
                    g.stats.bump("lineage_ok_checked", 1);
                }
                (Err(_), Err(_)) => {
                    g.stats.bump("refusals_checked", 1);
                }
                (Ok((_, seq, mid)), Err(why)) => {
                    fail(&mut g, "accepted_bad_selector", format!("accepted_bad_selector:{opname}:{}", sel_name(&l.sel)), format!("request should be refused ({why}) but returned cut (seq {seq}, message {mid:?})"));
                    return;
                }
                (Err(e), Ok((eseq, emid))) => {
                    // an unreadable summary artifact id is the caller's problem; not judged;
                    // after an injected artifact-store write error the request may fail
                    if fault_fired {
                        g.stats.bump("fault:artifact_write_enospc_refused", 1);
                    } else if l.handoff && matches!(l.summary, Summary::UnreadableArtifact | Summary::TextAndUnreadableArtifact) {
                        g.stats.bump("refused_unreadable_artifact", 1);
                    } else {
                        fail(&mut g, "refused_valid_selector", format!("refused_valid_selector:{opname}:{}", sel_name(&l.sel)), format!("valid request refused with {e:?}; expected cut (seq {eseq}, message {emid:?})"));
                        return;
                    }
                }
            }
        }
    });
    let sh_obs = shared.clone();
    let rep = sim.run(move |ev| {
        if let crate::sched::Point::Fs(e) = &ev.point {
            if e.kind.is_mutating()
                && e.path.contains("/artifacts/")
                && FAIL_ARTIFACT_WRITE.swap(false, std::sync::atomic::Ordering::SeqCst)
            {
                sh_obs.lock().unwrap().stats.bump("fault:artifact_write_enospc", 1);
                return Verdict { decision: crate::seam::Decision::Fail(libc::ENOSPC), stop: false };
            }
        }
        Verdict::proceed()
    });
    world.close();
    let sim_time = storesim::end_run();
    let mut g = shared.lock().unwrap();
    let mut stats = std::mem::take(&mut g.stats);
    stats.sim_time_ns = sim_time;
    stats.case_hash = g.hash ^ fnv1a(format!("{}", sc.history.len()).as_bytes());
    stats.nontrivial = stats.counters.get("lineage_ok_checked").copied().unwrap_or(0) >= 1 && stats.counters.get("refusals_checked").copied().unwrap_or(0) >= 1;
    if let Some(p) = storesim::harness_problem(&rep) {
        return (Outcome::Harness(p), stats);
    }
    if let Some(v) = g.violation.take() {
        if v.class == "harness" {
            return (Outcome::Harness(v.detail), stats);
        }
        return (Outcome::Violation(v), stats);
    }
    if let Some((_, m)) = rep.panics.first() {
        return (Outcome::Violation(Violation { class: "panic".into(), signature: "panic".into(), detail: m.clone() }), stats);
    }
    (Outcome::Ok, stats)
}

fn sel_name(s: &Sel) -> &'static str {
    match s {
        Sel::None => "none",
        Sel::Seq(_) | Sel::SeqOfFrame(_) => "seq",
        Sel::BeyondHead(_) => "beyond_head",
        Sel::Message(_) => "message",
        Sel::UnknownMessage => "unknown_message",
        Sel::NonMessageFrame(_) => "non_message",
        Sel::Both(_) => "both",
    }
}

impl Check for C10 {
    fn id(&self) -> &'static str {
        "C10"
    }
    fn level(&self) -> &'static str {
        "exploration"
    }
    fn technique(&self) -> &'static str {
        "seeded histories x selector enumeration against the real store; refinement against the ThreadTruth lineage model; parent-untouched invariant checked on the parsed truth log after every call"
    }
    fn budget(&self, tier: Tier) -> Budget {
        match tier {
            Tier::Quick => Budget { runs: 12_000, secs: 40 },
            Tier::Thorough => Budget { runs: 600_000, secs: 900 },
        }
    }
    fn generate(&self, run_seed: u64, tier: Tier) -> Value {
        serde_json::to_value(generate(run_seed, tier)).unwrap()
    }
    fn execute(&self, scenario: &Value, env: &Env) -> (Outcome, RunStats) {
        match serde_json::from_value::<Scenario>(scenario.clone()) {
            Ok(sc) => execute(&sc, env),
            Err(e) => (Outcome::Harness(format!("bad scenario: {e}")), RunStats::default()),
        }
    }
    fn shrink(&self, scenario: &Value) -> Vec<Value> {
        let Ok(sc) = serde_json::from_value::<Scenario>(scenario.clone()) else {
            return Vec::new();
        };
        let mut out = Vec::new();
        for k in (0..sc.lineage_ops.len()).rev() {
            if sc.lineage_ops.len() > 1 {
                let mut c = sc.clone();
                c.lineage_ops.remove(k);
                out.push(c);
            }
        }
        for k in (1..sc.history.len()).rev() {
            let mut c = sc.clone();
            c.history.remove(k);
            out.push(c);
        }
        out.into_iter().map(|s| serde_json::to_value(s).unwrap()).collect()
    }
    fn rule(&self) -> String {
        "one evaluation = one seeded source history (messages, overlapping runs, side effects, checkpoints, jobs) followed by 3-14 branch/handoff requests with selectors none / from_seq in {0, mid, any frame's seq, head, head+k, huge} / from_message_id in {each message, unknown, id of a non-message frame} / both, and summaries as text, artifact id, neither, unreadable artifact; every request is judged against the lineage model and the parsed truth log before/after; this property has no schedule or fault in its quantifier — the simulator supplies generator, model, replay and minimisation; distinct = hash of (request, selector, outcome) sequence; non-trivial = at least one accepted and one refused request judged".into()
    }
    fn assumptions(&self) -> Vec<String> {
        vec![
            "whether a refused request may leave an orphan child thread is not part of the property and not judged".into(),
            "a handoff given an unreadable summary artifact id may be accepted or refused".into(),
            "the lineage race with concurrent posts to the child is C01".into(),
        ]
    }
    fn components(&self) -> Value {
        json!({"ContinuityStore/EventLog/handoff bundle writer": "real", "file system": "real tmpfs", "clock/randomness": "simulated", "scheduling": "single actor", "reference": "ThreadTruth::lineage_cut"})
    }
    fn extra_coverage(&self, c: &BTreeMap<String, u64>) -> Value {
        let sels: BTreeMap<&String, &u64> = c.iter().filter(|(k, _)| k.starts_with("sel:")).collect();
        json!({"selectors": sels, "accepted_checked": c.get("lineage_ok_checked").copied().unwrap_or(0), "refusals_checked": c.get("refusals_checked").copied().unwrap_or(0), "fault_counts": {"artifact_write_enospc": c.get("fault:artifact_write_enospc").copied().unwrap_or(0)}})
    }
}
