//! C16 — the tool loop answers each provider call exactly once and never runs a barred tool.
//!
//! E-sim: the real router / session engine / tools against the scripted provider stub. The stub
//! records every request body it receives; the oracle compares them, the session's tool frames and
//! the workspace with a from-scratch model of "which function calls did this response emit".

use std::collections::BTreeMap;
use std::time::Duration;

use serde::{Deserialize, Serialize};
use serde_json::{json, Value};

use crate::checks::c07::{self, PostRec};
use crate::driver::{Budget, Check, Env, Outcome, RunStats, Tier, Violation};
use crate::esim::{self, ArgMode, Chunking, DoneMode, Engine, ProviderCfg, Resp, SseEv};
use crate::model::canon;
use crate::prng::{fnv1a, Rng};

#[derive(Clone, Debug, Serialize, Deserialize, PartialEq)]
pub struct RunIn {
    pub on_thread: bool,
    pub prompt: String,
}

#[derive(Clone, Debug, Serialize, Deserialize, PartialEq)]
pub struct Scenario {
    pub cfg: ProviderCfg,
    pub script: Vec<Resp>,
    pub runs: Vec<RunIn>,
}

pub struct C16;

const NAMES: &[&str] = &["write", "read", "ls", "bash", "shell", "apply_patch", "grep", "no_such_tool"];

fn gen_call(rng: &mut Rng, uniq: u64, output_index: u64, prev_call_id: Option<String>) -> SseEv {
    // now and then a name that the request schema does not allow in a function_call item
    let name = if rng.chance(1, 24) { "bad name!".to_string() } else { NAMES[rng.usize_below(NAMES.len())].to_string() };
    let args = match rng.below(16) {
        0 => format!("{{not json {uniq}"),
        1 => json!({"path": 5, "u": uniq}).to_string(),
        _ => match name.as_str() {
            "write" => json!({"path": format!("w{uniq}.txt"), "content": format!("c{uniq}\n")}).to_string(),
            "read" => json!({"path": "seed.txt", "max_bytes": 1000 + uniq}).to_string(),
            "ls" => json!({"path": ".", "max_depth": 1 + uniq}).to_string(),
            "grep" => json!({"pattern": format!("seed{uniq}")}).to_string(),
            "bash" | "shell" => json!({"command": format!("echo x > b{uniq}.txt")}).to_string(),
            "apply_patch" => json!({"patch": format!("*** Begin Patch\n*** Add File: p{uniq}.txt\n+patched {uniq}\n*** End Patch\n")}).to_string(),
            _ => json!({"u": uniq}).to_string(),
        },
    };
    // a duplicate call id is only attributable when both items carry their own item id
    let mut force_item_id = false;
    let call_id = if rng.chance(1, 14) {
        None
    } else if let (true, Some(p)) = (rng.chance(1, 16), prev_call_id) {
        force_item_id = true;
        Some(p)
    } else if rng.chance(1, 24) {
        // longer than the request schema allows for call_id: the answer cannot be a valid request
        Some(format!("call_{uniq}_{}", "x".repeat(70)))
    } else {
        Some(format!("call_{uniq}"))
    };
    SseEv::FnCall {
        output_index,
        item_id: if !force_item_id && rng.chance(1, 7) { None } else { Some(format!("fc_{uniq}")) },
        call_id,
        name,
        args,
        mode: match rng.below(4) {
            0 | 1 => ArgMode::Inline,
            2 => ArgMode::Deltas(rng.range(1, 4) as u32),
            _ => ArgMode::DoneEvent,
        },
        never_done: rng.chance(1, 16),
        omit_call_id_on_done: rng.chance(1, 6),
    }
}

fn gen_resp(rng: &mut Rng, uniq: &mut u64, resp_no: u64, max_calls: u64, clean: bool) -> Resp {
    if !clean && rng.chance(1, 14) {
        return match rng.below(3) {
            0 => Resp::HttpError { status: 500, echo_request: false, body: "boom".into() },
            1 => Resp::EmptyBody,
            _ => Resp::CloseWithoutResponse,
        };
    }
    let id = format!("resp_{resp_no}");
    let mut events = Vec::new();
    let has_id = rng.chance(11, 12);
    if has_id {
        events.push(SseEv::Created { id: id.clone() });
    }
    if rng.chance(1, 2) {
        events.push(SseEv::TextDelta { text: format!("t{resp_no} ") });
    }
    let k = rng.range(if max_calls > 0 { 1 } else { 0 }, max_calls.max(0));
    let mut idx: Vec<u64> = (0..k).collect();
    if rng.chance(1, 3) {
        rng.shuffle(&mut idx);
    }
    // some providers do not send output_index at all: the output order is then the arrival order
    let omit_index = k >= 2 && rng.chance(1, 6);
    if omit_index {
        idx = vec![u64::MAX; k as usize];
    }
    let mut prev: Option<String> = None;
    for i in 0..k as usize {
        *uniq += 1;
        let c = gen_call(rng, *uniq, idx[i], prev.clone());
        if let SseEv::FnCall { call_id, item_id, .. } = &c {
            prev = if item_id.is_some() { call_id.clone() } else { None };
        }
        events.push(c);
        if rng.chance(1, 10) {
            events.push(SseEv::InvalidJson);
        }
    }
    if has_id && rng.chance(3, 4) {
        events.push(SseEv::Completed { id });
    }
    let (bytes, _) = esim::render_sse(&events, false, &DoneMode::Present, false);
    Resp::Sse {
        events,
        interleave: !omit_index && rng.chance(1, 3),
        done: if rng.chance(1, 6) { DoneMode::Missing } else { DoneMode::Present },
        chunking: match rng.below(4) {
            0 => Chunking::Whole,
            1 => Chunking::PerEvent,
            2 => Chunking::Bytes(rng.range(1, 300) as u32),
            _ => Chunking::Seeded(rng.next_u64()),
        },
        drop_after: if !clean && rng.chance(1, 14) { Some(rng.below(bytes.len() as u64 + 1) as u32) } else { None },
        crlf: rng.chance(1, 6),
    }
}

fn gen_tool_choice(rng: &mut Rng) -> String {
    match rng.below(12) {
        0..=3 => "auto".into(),
        4 => "none".into(),
        5 => "required".into(),
        6 | 7 => format!("function:{}", rng.pick(&["write", "read", "bash", "ls"])),
        8 => format!("json:{}", json!({"type": "function", "name": rng.pick(&["write", "shell"])})),
        9 => format!("json:{}", json!({"type": "allowed_tools", "mode": rng.pick(&["auto", "required"]), "tools": [{"type": "function", "name": "read"}, {"type": "function", "name": rng.pick(&["ls", "write", "bash"])}]})),
        10 => format!("json:{}", json!({"type": "allowed_tools", "mode": "auto", "tools": [{"type": "web_search_preview"}]})),
        _ => format!("json:{}", json!({"type": "allowed_tools", "mode": "none", "tools": [{"type": "function", "name": "write"}]})),
    }
}

/// Tools excluded by the configured tool choice — written from the OpenResponses meaning of the
/// parameter, not from the code under test.
pub fn excluded(tool_choice: &str, name: &str) -> bool {
    let tc = tool_choice.trim();
    match tc {
        "" | "auto" | "required" => false,
        "none" => true,
        _ => {
            if let Some(f) = tc.strip_prefix("function:") {
                return f.trim() != name;
            }
            let j = tc.strip_prefix("json:").unwrap_or(tc);
            let Ok(v) = serde_json::from_str::<Value>(j) else {
                return false;
            };
            match v.get("type").and_then(|t| t.as_str()) {
                Some("function") => v.get("name").and_then(|n| n.as_str()) != Some(name),
                Some("allowed_tools") => {
                    if v.get("mode").and_then(|m| m.as_str()) == Some("none") {
                        return true;
                    }
                    let listed = v.get("tools").and_then(|t| t.as_array()).map(|a| a.iter().any(|t| t.get("type").and_then(|x| x.as_str()) == Some("function") && t.get("name").and_then(|x| x.as_str()) == Some(name))).unwrap_or(false);
                    !listed
                }
                _ => false,
            }
        }
    }
}

pub fn generate(run_seed: u64, tier: Tier) -> Scenario {
    let mut rng = Rng::derive(run_seed, "c16");
    let mut uniq = 0u64;
    let cfg = ProviderCfg {
        tool_choice: gen_tool_choice(&mut rng),
        stateless_history: rng.chance(1, 2),
        parallel_tool_calls: rng.chance(1, 3),
        api_key: None,
        headers: vec![],
        followup_user_message: if rng.chance(1, 4) { Some("please continue".into()) } else { None },
    };
    let n = rng.range(1, if tier == Tier::Quick { 3 } else { 5 });
    let mut script = Vec::new();
    for i in 0..n {
        let r = gen_resp(&mut rng, &mut uniq, i, 4, false);
        script.push(r);
    }
    // the last response repeats for every later request: usually a plain answer; sometimes it keeps
    // asking for tools, so only the engine's own bound ends the run
    let looping = rng.chance(1, 4);
    let loop_calls = if looping { rng.range(1, 5) } else { 0 };
    let last = gen_resp(&mut rng, &mut uniq, n, loop_calls, true);
    script.push(last);
    let runs = (0..rng.range(1, 2)).map(|i| RunIn { on_thread: rng.chance(2, 3), prompt: format!("task {i}") }).collect();
    Scenario { cfg, script, runs }
}

// ---------------------------------------------------------------------------------------------
// model of the calls a response emits

#[derive(Clone, Debug)]
pub struct ModelCall {
    pub output_index: u64,
    pub call_id: Option<String>,
    pub name: String,
    pub args: Value,
    /// finished, attributable and carrying a call id: must be handled
    pub required: bool,
}

fn parse_args(raw: &str) -> Value {
    serde_json::from_str::<Value>(raw).unwrap_or_else(|_| Value::String(raw.to_string()))
}

/// (calls, response id seen, cleanly delivered)
/// Whether a scripted drop leaves the response complete from the engine's point of view: the
/// cut lies at or beyond the end of the body, or beyond the terminal marker (the engine stops
/// reading there).
fn drop_is_harmless(events: &[SseEv], interleave: bool, done: &DoneMode, crlf: bool, d: usize) -> bool {
    let (bytes, _) = esim::render_sse(events, interleave, done, crlf);
    if d >= bytes.len() {
        return true;
    }
    let marker: &[u8] = if crlf { b"data: [DONE]\r\n\r\n" } else { b"data: [DONE]\n\n" };
    match bytes.windows(marker.len()).position(|w| w == marker) {
        Some(p) => d >= p + marker.len(),
        None => false,
    }
}

pub fn model_response(r: &Resp) -> (Vec<ModelCall>, Option<String>, bool) {
    match r {
        Resp::Sse { events, drop_after, interleave, done, crlf, .. } if drop_after.map(|d| drop_is_harmless(events, *interleave, done, *crlf, d as usize)).unwrap_or(true) => {
            let mut calls = Vec::new();
            let mut rid = None;
            for e in events {
                match e {
                    SseEv::Created { id } | SseEv::Completed { id } => rid = Some(id.clone()),
                    SseEv::FnCall { output_index, item_id, call_id, name, args, never_done, omit_call_id_on_done, .. } => {
                        let attributable = item_id.is_some() || !*omit_call_id_on_done;
                        calls.push(ModelCall { output_index: *output_index, call_id: call_id.clone(), name: name.clone(), args: parse_args(args), required: !*never_done && call_id.is_some() && attributable });
                    }
                    _ => {}
                }
            }
            (calls, rid, true)
        }
        _ => (Vec::new(), None, false),
    }
}

fn viol(class: &str, sig: String, detail: String) -> Violation {
    Violation { class: class.into(), signature: sig, detail }
}

fn input_items(body: &Value) -> Vec<Value> {
    match body.get("input") {
        Some(Value::Array(a)) => a.clone(),
        Some(Value::String(s)) => vec![json!({"type": "message", "role": "user", "content": s})],
        _ => Vec::new(),
    }
}

fn strip_followup(mut items: Vec<Value>, cfg: &ProviderCfg) -> Vec<Value> {
    if let Some(msg) = &cfg.followup_user_message {
        if let Some(last) = items.last() {
            let is_user = last.get("role").and_then(|r| r.as_str()) == Some("user");
            if is_user && last.to_string().contains(msg.as_str()) && last.get("type").and_then(|t| t.as_str()) != Some("function_call_output") {
                items.pop();
            }
        }
    }
    items
}

pub fn execute(sc: &Scenario, env: &Env) -> (Outcome, RunStats) {
    let mut stats = RunStats::default();
    let _ = esim::panics_take();
    let engine = match Engine::new(&env.root.join("e"), &sc.cfg, sc.script.clone(), true) {
        Ok(e) => e,
        Err(e) => return (Outcome::Harness(e), stats),
    };
    let _ = std::fs::write(engine.ws.join("seed.txt"), "seed line\nsecond\n");
    let tid = match engine.call_json("POST", "/threads/ensure", None) {
        Ok((_, v)) => v.get("thread_id").and_then(|t| t.as_str()).unwrap_or("").to_string(),
        Err(e) => return (Outcome::Harness(format!("ensure: {e}")), stats),
    };
    stats.case_hash = fnv1a(serde_json::to_string(sc).unwrap_or_default().as_bytes());
    let mut req_cursor = 0usize;
    for run in &sc.runs {
        // start the run
        let mut posts: Vec<PostRec> = Vec::new();
        let mut sessions: Vec<String> = Vec::new();
        let sid = if run.on_thread {
            match engine.call_json("POST", &format!("/threads/{tid}/messages"), Some(json!({"content": run.prompt}))) {
                Ok((202, v)) => {
                    let s = v.get("session_id").and_then(|x| x.as_str()).unwrap_or("").to_string();
                    posts.push(PostRec { thread_id: tid.clone(), message_id: v.get("message_id").and_then(|x| x.as_str()).unwrap_or("").to_string(), session_id: s.clone() });
                    s
                }
                Ok((st, v)) => return (Outcome::Harness(format!("post: status {st} {v}")), stats),
                Err(e) => return (Outcome::Harness(format!("post: {e}")), stats),
            }
        } else {
            let s = match engine.call_json("POST", "/sessions", None) {
                Ok((201, v)) => v.get("session_id").and_then(|x| x.as_str()).unwrap_or("").to_string(),
                Ok((st, v)) => return (Outcome::Harness(format!("create session: status {st} {v}")), stats),
                Err(e) => return (Outcome::Harness(format!("create session: {e}")), stats),
            };
            match engine.call("POST", &format!("/sessions/{s}/input"), Some(json!({"input": run.prompt}))) {
                Ok((202, _)) => {}
                Ok((st, _)) => return (Outcome::Harness(format!("input: status {st}")), stats),
                Err(e) => return (Outcome::Harness(format!("input: {e}")), stats),
            }
            sessions.push(s.clone());
            s
        };
        // wait for the end of the run, or for evidence that it does not stop calling tools
        let hard_cap = 80usize;
        let mut runaway = false;
        let sid2 = sid.clone();
        let waited = engine.wait_until(Duration::from_secs(90), |t| {
            let started = t.frames.iter().filter(|f| f.stream_id == sid2 && f.ty == "tool_started").count();
            if started > hard_cap {
                runaway = true;
                return true;
            }
            let ended = t.frames.iter().any(|f| f.stream_id == sid2 && f.ty == "session_ended");
            ended && posts.iter().all(|p| t.frames.iter().any(|f| f.ty == "continuity_run_ended" && f.s("run_session_id") == Some(p.session_id.as_str())))
        });
        let truth = match waited {
            Ok(t) => t,
            Err(e) => {
                let p = esim::panics_take();
                if !p.is_empty() {
                    return (Outcome::Violation(viol("engine_task_panicked", "engine_task_panicked".into(), format!("{p:?}"))), stats);
                }
                return (Outcome::Harness(e), stats);
            }
        };
        if runaway {
            return (Outcome::Violation(viol("tool_calls_unbounded", "tool_calls_unbounded".into(), format!("session {sid} handled more than {hard_cap} tool calls and is still running (tool_choice {:?})", sc.cfg.tool_choice))), stats);
        }
        engine.settle(5);
        let reqs_all = engine.requests();
        // runs are sequential: everything the stub recorded since the previous run ended belongs
        // to this run (connection indices need not be contiguous — a connection the client opens
        // and abandons consumes an index without a request)
        let mut reqs: Vec<&esim::Recorded> = reqs_all.iter().skip(req_cursor).collect();
        reqs.sort_by_key(|r| r.index);
        req_cursor += reqs.len();
        let s = truth.stream("session", &sid);
        let reason = s.iter().find(|f| f.ty == "session_ended").and_then(|f| f.s("reason")).unwrap_or("?").to_string();
        stats.bump(&format!("run_ended:{reason}"), 1);
        stats.bump("requests", reqs.len() as u64);

        // --- validation gate and request accounting
        let started_frames = s.iter().filter(|f| f.ty == "openresponses_request_started").count();
        if started_frames != reqs.len() {
            // a request whose connection failed before the stub parsed it is still "sent"; the stub
            // records every request it could read, and it always reads the whole request
            return (Outcome::Violation(viol("request_accounting", "request_frames_vs_received".into(), format!("session {sid}: {started_frames} request_started frames, provider received {}", reqs.len()))), stats);
        }
        let cap = reqs.first().and_then(|r| r.json.as_ref()).and_then(|j| j.get("max_tool_calls")).and_then(|m| m.as_u64()).unwrap_or(32) as usize;
        for r in &reqs {
            let Some(body) = &r.json else {
                return (Outcome::Violation(viol("request_not_json", "request_not_json".into(), format!("request #{} body is not JSON", r.index))), stats);
            };
            // constraints of the create-response schema that provider-supplied strings can break,
            // checked here independently of the validator under test
            for it in input_items(body) {
                let ty = it.get("type").and_then(|t| t.as_str()).unwrap_or("");
                if ty == "function_call" || ty == "function_call_output" {
                    let cid = it.get("call_id").and_then(|c| c.as_str()).unwrap_or("");
                    if cid.is_empty() || cid.len() > 64 {
                        return (Outcome::Violation(viol("invalid_request_sent", "invalid_request_sent:call_id_length".into(), format!("request #{} carries a {ty} item whose call_id has {} characters (schema: 1..64)", r.index, cid.len()))), stats);
                    }
                }
                if ty == "function_call" {
                    let name = it.get("name").and_then(|c| c.as_str()).unwrap_or("");
                    if name.is_empty() || name.len() > 64 || !name.chars().all(|c| c.is_ascii_alphanumeric() || c == '_' || c == '-') {
                        return (Outcome::Violation(viol("invalid_request_sent", "invalid_request_sent:function_name".into(), format!("request #{} carries a function_call item named {name:?} (schema: ^[a-zA-Z0-9_-]+$, 1..64)", r.index))), stats);
                    }
                }
            }
            if let Err(errs) = rip_openresponses::validate_create_response_body(body) {
                return (Outcome::Violation(viol("invalid_request_sent", "invalid_request_sent".into(), format!("request #{} fails schema validation: {:?}", r.index, &errs[..errs.len().min(3)]))), stats);
            }
        }
        if reason == "invalid_request" {
            stats.bump("validation_gate_fired", 1);
        }

        // --- segment the session's tool frames by request
        let mut segs: Vec<Vec<&crate::model::Frame>> = vec![Vec::new(); reqs.len() + 1];
        let mut cur = 0usize;
        for f in &s {
            if f.ty == "openresponses_request_started" {
                cur += 1;
            } else if f.ty == "tool_started" {
                segs[cur].push(f);
            }
        }
        if !segs[0].is_empty() {
            return (Outcome::Violation(viol("tool_ran_before_any_request", "tool_ran_before_any_request".into(), format!("session {sid}"))), stats);
        }
        let total_started: usize = segs.iter().map(|x| x.len()).sum();
        if total_started > cap {
            return (Outcome::Violation(viol("tool_call_bound_exceeded", "tool_call_bound_exceeded".into(), format!("session {sid}: {total_started} tool calls handled, the request announced max_tool_calls={cap}"))), stats);
        }
        stats.bump("tool_calls_handled", total_started as u64);
        if total_started == cap {
            stats.bump("runs_that_hit_the_bound", 1);
        }

        let mut cum = 0usize;
        let mut rid_known = false;
        for (i, _r) in reqs.iter().enumerate() {
            // the script entry the stub actually served for this request
            let script_idx = reqs[i].index.min(sc.script.len() - 1);
            let (calls, rid, clean) = model_response(&sc.script[script_idx]);
            if rid.is_some() {
                rid_known = true;
            }
            let seg = &segs[i + 1];
            let next = reqs.get(i + 1);
            if !clean {
                if let Resp::Sse { .. } = &sc.script[script_idx] {
                    stats.bump("fault:provider_connection_drop_at_byte", 1);
                } else {
                    stats.bump("fault:provider_error_response", 1);
                }
            }
            // at most once; nothing executed that was not asked for
            let mut remaining: Vec<&ModelCall> = calls.iter().collect();
            for f in seg {
                let name = f.s("name").unwrap_or("");
                let args = f.v.get("args").cloned().unwrap_or(Value::Null);
                match remaining.iter().position(|c| c.name == name && canon(&c.args) == canon(&args)) {
                    Some(p) => {
                        remaining.remove(p);
                    }
                    None => {
                        let dup = calls.iter().any(|c| c.name == name && canon(&c.args) == canon(&args));
                        let (class, sig) = if dup { ("call_executed_twice", "call_executed_twice") } else { ("call_not_emitted_by_provider", "call_not_emitted_by_provider") };
                        return (Outcome::Violation(viol(class, sig.into(), format!("response #{i} of session {sid}: tool_started name={name} args={args}; response emitted {:?}", calls.iter().map(|c| format!("{}:{}", c.name, c.args)).collect::<Vec<_>>()))), stats);
                    }
                }
            }
            // barred tools never run
            for f in seg {
                let name = f.s("name").unwrap_or("");
                if excluded(&sc.cfg.tool_choice, name) {
                    stats.bump("barred_calls", 1);
                    let tool_id = f.s("tool_id").unwrap_or("");
                    let ran = s.iter().any(|g| (g.ty == "tool_ended" || g.ty == "tool_stdout" || g.ty == "tool_stderr") && g.s("tool_id") == Some(tool_id));
                    let args = f.v.get("args").cloned().unwrap_or(Value::Null);
                    let touched = ["path", "command", "patch"].iter().filter_map(|k| args.get(*k).and_then(|v| v.as_str())).flat_map(|s| s.split(|c: char| !(c.is_ascii_alphanumeric() || c == '.')).map(|x| x.to_string()).collect::<Vec<_>>()).any(|w| (w.starts_with('w') || w.starts_with('b') || w.starts_with('p')) && w.ends_with(".txt") && engine.ws.join(&w).exists());
                    if ran || touched {
                        return (Outcome::Violation(viol("barred_tool_executed", format!("barred_tool_executed:{}", if touched { "workspace_changed" } else { "tool_frames" }), format!("tool_choice {:?} excludes {name}, but call {tool_id} ran (args {args})", sc.cfg.tool_choice))), stats);
                    }
                }
            }
            cum += seg.len();
            let required: Vec<&ModelCall> = {
                let mut v: Vec<&ModelCall> = calls.iter().filter(|c| c.required).collect();
                v.sort_by_key(|c| c.output_index);
                v
            };
            let optional = calls.iter().filter(|c| !c.required && c.call_id.is_some()).count();
            match next {
                None => {
                    // an answer that cannot be expressed as a schema-valid request must not be sent
                    let name_ok = |n: &str| !n.is_empty() && n.len() <= 64 && n.chars().all(|c| c.is_ascii_alphanumeric() || c == '_' || c == '-');
                    let unanswerable = seg.iter().any(|f| {
                        let name = f.s("name").unwrap_or("");
                        calls.iter().any(|c| c.name == name && (c.call_id.as_deref().map(|x| x.len() > 64).unwrap_or(false) || (sc.cfg.stateless_history && !name_ok(&c.name))))
                    }) || calls.iter().any(|c| c.required && (c.call_id.as_deref().map(|x| x.len() > 64).unwrap_or(false) || (sc.cfg.stateless_history && !name_ok(&c.name))));
                    if unanswerable {
                        stats.bump("unanswerable_calls_runs", 1);
                    }
                    let must_continue = clean && !required.is_empty() && cum < cap && (sc.cfg.stateless_history || rid_known) && !unanswerable;
                    if must_continue {
                        return (Outcome::Violation(viol("calls_never_answered", "calls_never_answered:no_followup_request".into(), format!("response #{i} of session {sid} emitted {} complete calls ({:?}), {cum} calls handled so far (bound {cap}), run ended with {reason:?} without a follow-up request", required.len(), required.iter().map(|c| c.call_id.clone().unwrap_or_default()).collect::<Vec<_>>()))), stats);
                    }
                }
                Some(nr) => {
                    let body = nr.json.as_ref().unwrap();
                    let items = strip_followup(input_items(body), &sc.cfg);
                    let prev_items = strip_followup(input_items(reqs[i].json.as_ref().unwrap()), &sc.cfg);
                    let new_items: Vec<Value> = if sc.cfg.stateless_history {
                        if items.len() < prev_items.len() || items[..prev_items.len()] != prev_items[..] {
                            return (Outcome::Violation(viol("history_not_extended", "history_not_extended".into(), format!("stateless request #{} input ({} items) does not extend request #{} input ({} items)", i + 1, items.len(), i, prev_items.len()))), stats);
                        }
                        items[prev_items.len()..].to_vec()
                    } else {
                        items.clone()
                    };
                    let answers: Vec<String> = new_items.iter().filter(|it| it.get("type").and_then(|t| t.as_str()) == Some("function_call_output")).map(|it| it.get("call_id").and_then(|c| c.as_str()).unwrap_or("").to_string()).collect();
                    let want: Vec<String> = required.iter().map(|c| c.call_id.clone().unwrap()).collect();
                    let ok = if optional == 0 {
                        answers == want
                    } else {
                        // calls the model does not oblige the engine to handle may be answered too
                        let mut it = answers.iter();
                        want.iter().all(|w| it.any(|a| a == w)) && answers.len() <= want.len() + optional
                    };
                    if !ok {
                        let class = if answers.len() < want.len() {
                            "call_not_answered"
                        } else if answers.len() > want.len() {
                            "call_answered_twice_or_phantom"
                        } else {
                            "answers_out_of_order"
                        };
                        return (Outcome::Violation(viol(class, class.into(), format!("request #{} of session {sid} answers call ids {:?}; response #{i} emitted (by output_index) {:?}", i + 1, answers, want))), stats);
                    }
                    if answers.len() != seg.len() {
                        return (Outcome::Violation(viol("answers_vs_executions", "answers_vs_executions".into(), format!("request #{} answers {} calls, {} tool_started frames after response #{i}", i + 1, answers.len(), seg.len()))), stats);
                    }
                    // each answer is for the tool that was called
                    for it in new_items.iter().filter(|it| it.get("type").and_then(|t| t.as_str()) == Some("function_call_output")) {
                        let cid = it.get("call_id").and_then(|c| c.as_str()).unwrap_or("");
                        let out = it.get("output").and_then(|o| o.as_str()).and_then(|o| serde_json::from_str::<Value>(o).ok());
                        if let Some(out) = out {
                            if let Some(tool) = out.get("tool").and_then(|t| t.as_str()) {
                                let names: Vec<&str> = calls.iter().filter(|c| c.call_id.as_deref() == Some(cid)).map(|c| c.name.as_str()).collect();
                                if !names.is_empty() && !names.contains(&tool) {
                                    return (Outcome::Violation(viol("answer_for_wrong_tool", "answer_for_wrong_tool".into(), format!("call {cid} was for {names:?}, answered with the output of {tool}"))), stats);
                                }
                                if excluded(&sc.cfg.tool_choice, tool) && out.get("ok").and_then(|o| o.as_bool()) == Some(true) {
                                    return (Outcome::Violation(viol("barred_tool_executed", "barred_tool_executed:answer_ok".into(), format!("tool_choice {:?} excludes {tool}, but call {cid} was answered ok=true", sc.cfg.tool_choice))), stats);
                                }
                            }
                        }
                    }
                    if !sc.cfg.stateless_history {
                        stats.bump("followups_stateful", 1);
                    } else {
                        stats.bump("followups_stateless", 1);
                    }
                }
            }
        }
        stats.nontrivial = stats.nontrivial || total_started > 0;
    }
    let p = esim::panics_take();
    if !p.is_empty() {
        return (Outcome::Violation(viol("engine_task_panicked", "engine_task_panicked".into(), format!("{p:?}"))), stats);
    }
    let _ = BTreeMap::<u8, u8>::new();
    let _ = c07::check_jobs;
    (Outcome::Ok, stats)
}

impl Check for C16 {
    fn id(&self) -> &'static str {
        "C16"
    }
    fn level(&self) -> &'static str {
        "exploration"
    }
    fn technique(&self) -> &'static str {
        "seeded whole-engine simulation: real router/session engine/tool runner/tools against a scripted provider stub that records every request; provider scripts (call items, argument deltas, done events, missing/duplicate ids, shuffled output_index, interleaving, chunking, missing [DONE], drops, error responses, endless tool requests) and tool_choice/history configuration drawn from the seed; oracle = from-scratch model of the calls each response emits, compared with recorded request bodies, tool frames and workspace files"
    }
    fn budget(&self, tier: Tier) -> Budget {
        match tier {
            Tier::Quick => Budget { runs: 800, secs: 150 },
            Tier::Thorough => Budget { runs: 30_000, secs: 2400 },
        }
    }
    fn generate(&self, run_seed: u64, tier: Tier) -> Value {
        serde_json::to_value(generate(run_seed, tier)).unwrap()
    }
    fn execute(&self, scenario: &Value, env: &Env) -> (Outcome, RunStats) {
        match serde_json::from_value::<Scenario>(scenario.clone()) {
            Ok(sc) => execute(&sc, env),
            Err(e) => (Outcome::Harness(format!("bad scenario: {e}")), RunStats::default()),
        }
    }
    fn shrink(&self, scenario: &Value) -> Vec<Value> {
        let Ok(sc) = serde_json::from_value::<Scenario>(scenario.clone()) else {
            return Vec::new();
        };
        let mut out: Vec<Scenario> = Vec::new();
        if sc.runs.len() > 1 {
            for i in (0..sc.runs.len()).rev() {
                let mut c = sc.clone();
                c.runs.remove(i);
                out.push(c);
            }
        }
        for i in (0..sc.script.len()).rev() {
            if sc.script.len() > 1 {
                let mut c = sc.clone();
                c.script.remove(i);
                out.push(c);
            }
        }
        for i in 0..sc.script.len() {
            if let Resp::Sse { events, .. } = &sc.script[i] {
                for k in (0..events.len()).rev() {
                    let mut c = sc.clone();
                    if let Resp::Sse { events: e2, .. } = &mut c.script[i] {
                        e2.remove(k);
                    }
                    out.push(c);
                }
                let mut c = sc.clone();
                if let Resp::Sse { chunking, interleave, crlf, done, .. } = &mut c.script[i] {
                    if *chunking != Chunking::Whole || *interleave || *crlf || *done != DoneMode::Present {
                        *chunking = Chunking::Whole;
                        *interleave = false;
                        *crlf = false;
                        *done = DoneMode::Present;
                        out.push(c);
                    }
                }
            }
        }
        for r in 0..sc.runs.len() {
            if sc.runs[r].on_thread {
                let mut c = sc.clone();
                c.runs[r].on_thread = false;
                out.push(c);
            }
        }
        if sc.cfg.followup_user_message.is_some() {
            let mut c = sc.clone();
            c.cfg.followup_user_message = None;
            out.push(c);
        }
        if sc.cfg.parallel_tool_calls {
            let mut c = sc.clone();
            c.cfg.parallel_tool_calls = false;
            out.push(c);
        }
        out.into_iter().map(|s| serde_json::to_value(s).unwrap()).collect()
    }
    fn attempts(&self) -> u32 {
        3
    }
    fn rule(&self) -> String {
        "one run = one seeded scenario: configuration (tool_choice auto/none/required/function:<name>/JSON named function/allowed_tools lists incl. hosted-only and mode none; stateful or stateless history; optional follow-up user message; parallel_tool_calls), a provider script of 2-6 responses each emitting 0-4 function calls over 8 tool names (an unknown one included) with valid, invalid or non-JSON arguments delivered inline / as 1-4 deltas / by an arguments.done event, missing item ids, missing call ids, call id given only on the added event, duplicate call ids, items never finished, shuffled output_index, interleaved items, invalid-JSON events between them, missing response id, 4 chunkings, CRLF, missing [DONE], connection drop at a seeded byte, HTTP 500 / empty body / close; in 1 of 4 scenarios the last response (served to every later request) keeps asking for 1-5 tools so that only the engine's bound can end the run; 1-2 sequential runs started through POST /threads/{id}/messages or POST /sessions + input. Checked per run against a from-scratch model of the calls each served response emits: every request the stub received passes the OpenResponses create-response schema and request_started frames = requests received; tool frames after response i are calls of response i, each at most once; a name excluded by the tool choice (model written from the parameter's meaning) has no tool_ended/stdout/stderr frames, leaves no file behind and is not answered ok=true; the next request answers exactly the complete calls, by call id, in output_index order, one answer per execution, each with the output of the tool that was called; a follow-up exists whenever complete calls were emitted, the bound is not reached and a response id is known (or history is stateless); tool calls per run <= max_tool_calls announced in the request, and a run that handles more than 80 calls is reported at once; in stateless mode each input (minus the trailing compatibility message) extends the previous one. distinct = hash of the scenario; non-trivial = at least one tool call handled".into()
    }
    fn assumptions(&self) -> Vec<String> {
        vec![
            "real-time engine simulation (see C07); runs inside a scenario are sequential so that requests are attributable to runs".into(),
            "calls that cannot be attributed (finished item with neither id nor call id) or that carry no call id at all are not required to be handled; if they are, at-most-once still applies".into(),
            "the trailing follow-up compatibility user message is not part of the history for the 'extends' clause (ADR-0005: history = initial input + function_call + function_call_output items)".into(),
            "specific hosted-tool choices ({\"type\":\"web_search_preview\"}) are not generated: whether they exclude local function tools is not specified".into(),
        ]
    }
    fn components(&self) -> Value {
        json!({
            "real": ["ripd::server router and handlers", "ripd::session agent loop, SSE pipe, tool-call collector, tool_choice enforcement, validation gate", "ripd::provider_openresponses request builders", "rip-provider-openresponses", "rip-openresponses schema validator (also used by the oracle on received bodies)", "rip-tools built-in tools incl. bash subprocesses", "ripd::continuities", "reqwest/hyper client", "tokio current-thread runtime (real time)"],
            "stubbed": ["the provider: in-process scripted HTTP/1.1 server that records requests", "daemon HTTP listener (requests enter via tower oneshot)"],
            "simulated": []
        })
    }
}
