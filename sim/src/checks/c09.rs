//! C09 — compaction follows message count alone; idempotent, deterministic and replay-safe.

use std::collections::BTreeMap;
use std::sync::{Arc, Mutex};

use serde::{Deserialize, Serialize};
use serde_json::{json, Value};

use crate::driver::{Budget, Check, Env, Outcome, RunStats, Tier, Violation};
use crate::model::{self, canon, Frame, Truth};
use crate::prng::{fnv1a, Rng};
use crate::sched::{Policy, Sim, SimConfig, Verdict};
use crate::seam;
use crate::storesim::{self, SchedSpec};
use crate::threadmodel::ThreadView;
use crate::world::{gen_bool, gen_small, gen_stride, CutSel, Dirs, Op, SummarySel, World};

#[derive(Clone, Debug, Serialize, Deserialize, PartialEq)]
pub struct Scenario {
    pub sim_seed: u64,
    /// second execution with other random bytes (ids, hash seeds) for the determinism clause
    pub alt_seed: u64,
    pub steps: Vec<Op>,
    pub concurrent: Vec<Vec<Op>>,
    pub sched: SchedSpec,
}

pub struct C09;

fn gen_step(rng: &mut Rng) -> Op {
    let thread = if rng.chance(4, 5) { 0 } else { 1 };
    match rng.below(30) {
        0..=11 => Op::AppendMessage { thread, size: rng.range(0, 3) as u32 },
        12 | 13 => Op::FullRun { thread, size: rng.range(1, 2) as u32, effects: rng.below(3) as u32, cursor_key: None },
        14..=16 => Op::ManualCheckpoint {
            thread,
            sel: match rng.below(6) {
                0 => CutSel::None,
                1 | 2 => CutSel::Message(rng.below(32) as u32),
                3 => CutSel::SeqFrac { num: rng.below(5) as u32, den: 4 },
                4 => CutSel::SeqAbs(rng.below(12)),
                _ => crate::world::gen_cutsel(rng),
            },
            stride: gen_stride(rng),
            summary: if rng.chance(9, 10) { SummarySel::Text } else { SummarySel::Neither },
        },
        17..=21 => Op::CompactionAuto { thread, stride: gen_stride(rng), max_new: gen_small(rng), dry_run: gen_bool(rng) },
        22..=25 => Op::CompactionSchedule { thread, stride: gen_stride(rng), max_new: gen_small(rng), block: gen_bool(rng), execute: gen_bool(rng), dry_run: gen_bool(rng) },
        26 | 27 => Op::CutPoints { thread, stride: gen_stride(rng), limit: gen_small(rng) },
        28 => Op::CompactionStatus { thread, stride: gen_stride(rng) },
        _ => Op::Branch { thread, sel: CutSel::None },
    }
}

pub fn generate(run_seed: u64, tier: Tier) -> Scenario {
    let mut rng = Rng::derive(run_seed, "ops");
    let mut steps = vec![Op::EnsureDefault];
    let n = rng.range(4, if tier == Tier::Quick { 40 } else { 90 }) as usize;
    for _ in 0..n {
        steps.push(gen_step(&mut rng));
    }
    let mut concurrent: Vec<Vec<Op>> = Vec::new();
    if rng.chance(1, 3) {
        let k = rng.range(2, 3) as usize;
        concurrent = vec![Vec::new(); k];
        for _ in 0..rng.range(3, 10) {
            let a = rng.usize_below(k);
            let op = match rng.below(6) {
                0 | 1 => Op::CompactionAuto { thread: 0, stride: Some(rng.range(1, 3)), max_new: gen_small(&mut rng), dry_run: None },
                2 | 3 => Op::CompactionSchedule { thread: 0, stride: Some(rng.range(1, 3)), max_new: gen_small(&mut rng), block: gen_bool(&mut rng), execute: gen_bool(&mut rng), dry_run: None },
                _ => Op::AppendMessage { thread: 0, size: 1 },
            };
            concurrent[a].push(op);
        }
    }
    let mut srng = Rng::derive(run_seed, "sched-spec");
    Scenario {
        sim_seed: crate::prng::mix_label(run_seed, "sim"),
        alt_seed: crate::prng::mix_label(run_seed, "alt"),
        steps,
        concurrent,
        sched: SchedSpec::generate(&mut srng, 400),
    }
}

/// Plan per docs/03_contracts/compaction.md: latest-first stride cut points that are not yet
/// checkpointed, at most max_new (1..=32), looking at the latest 32 cut points.
fn model_plan(view: &ThreadView, stride: Option<u64>, max_new: Option<u32>) -> Result<Vec<Value>, String> {
    let cps = view.cut_points(stride.or(Some(10_000)), Some(32))?;
    let max_new = max_new.unwrap_or(1).clamp(1, 32) as usize;
    Ok(cps["cut_points"]
        .as_array()
        .unwrap()
        .iter()
        .filter(|c| c["already_checkpointed"] == json!(false))
        .take(max_new)
        .map(|c| json!({"target_message_ordinal": c["target_message_ordinal"], "to_seq": c["to_seq"], "to_message_id": c["to_message_id"]}))
        .collect())
}

fn read_summary(dirs: &Dirs, id: &str) -> Result<Value, String> {
    let b = std::fs::read(dirs.blobs_dir().join(id)).map_err(|e| format!("summary artifact {id} unreadable: {e}"))?;
    serde_json::from_slice(&b).map_err(|e| format!("summary artifact {id} does not parse: {e}"))
}

/// Per-job clauses over a thread's frames: every spawned summarizer job has exactly one ended
/// frame after it (unless it was scheduled with execute=false), its created checkpoints exist
/// between the two with matching coverage, and a completed job created exactly what it planned.
fn job_violation(dirs: &Dirs, thread: &str, frames: &[&Frame]) -> Option<Violation> {
    let v = |class: &str, sig: &str, detail: String| Some(Violation { class: class.into(), signature: sig.into(), detail: format!("thread {thread}: {detail}") });
    let mut spawned: BTreeMap<String, &Frame> = BTreeMap::new();
    let mut ended: BTreeMap<String, Vec<&Frame>> = BTreeMap::new();
    let mut deferred: Vec<String> = Vec::new();
    for f in frames {
        match f.ty.as_str() {
            "continuity_job_spawned" if f.s("job_kind") == Some("compaction_summarizer_v1") => {
                let id = f.s("job_id").unwrap_or("").to_string();
                if spawned.insert(id.clone(), f).is_some() {
                    return v("job_bracket", "job_spawned_twice", format!("job {id} spawned twice"));
                }
            }
            "continuity_job_ended" if f.s("job_kind") == Some("compaction_summarizer_v1") => {
                ended.entry(f.s("job_id").unwrap_or("").to_string()).or_default().push(f);
            }
            "continuity_compaction_auto_schedule_decided" => {
                if f.v.get("execute") == Some(&json!(false)) {
                    if let Some(j) = f.s("job_id") {
                        deferred.push(j.to_string());
                    }
                }
            }
            _ => {}
        }
    }
    for (id, ends) in &ended {
        if ends.len() > 1 {
            return v("job_bracket", "job_ended_twice", format!("job {id} ended {} times", ends.len()));
        }
        let Some(sp) = spawned.get(id) else {
            return v("job_bracket", "job_ended_without_spawn", format!("job {id} ended without being spawned"));
        };
        if ends[0].seq < sp.seq {
            return v("job_bracket", "job_ended_before_spawn", format!("job {id} ended before it was spawned"));
        }
    }
    for (id, sp) in &spawned {
        let Some(ends) = ended.get(id) else {
            if deferred.contains(id) {
                continue;
            }
            return v("job_bracket", "job_never_ended", format!("job {id} was spawned (seq {}) and never ended", sp.seq));
        };
        let end = ends[0];
        let created = end.v.get("result").and_then(|r| r.get("created")).and_then(|c| c.as_array()).cloned().unwrap_or_default();
        // the plan a job executes is the one its caller reported: for a scheduled job the
        // decision frame naming the job, otherwise the job_spawned details
        let planned = frames
            .iter()
            .find(|f| f.ty == "continuity_compaction_auto_schedule_decided" && f.s("job_id") == Some(id.as_str()))
            .and_then(|f| f.v.get("planned"))
            .or_else(|| sp.v.get("details").and_then(|d| d.get("planned")))
            .and_then(|p| p.as_array())
            .cloned()
            .unwrap_or_default();
        let status = end.s("status").unwrap_or("");
        for c in &created {
            let ck_id = c["checkpoint_id"].as_str().unwrap_or("");
            let Some(cf) = frames.iter().find(|f| f.ty == "continuity_compaction_checkpoint_created" && f.s("checkpoint_id") == Some(ck_id)) else {
                return v("job_result", "job_created_checkpoint_missing", format!("job {id} reports checkpoint {ck_id} which is not in the stream"));
            };
            if cf.seq < sp.seq || cf.seq > end.seq {
                return v("job_bracket", "checkpoint_outside_job_bracket", format!("checkpoint {ck_id} of job {id} lies outside its spawned/ended bracket"));
            }
            if cf.v["to_seq"] != c["to_seq"] || cf.v["to_message_id"] != c["to_message_id"] || cf.v["summary_artifact_id"] != c["summary_artifact_id"] {
                return v("job_result", "job_result_disagrees_with_frame", format!("job {id} result entry {c} disagrees with frame {}", cf.v));
            }
            let art = cf.s("summary_artifact_id").unwrap_or("");
            match read_summary(dirs, art) {
                Err(e) => return v("summary_unreadable", "summary_unreadable", e),
                Ok(s) => {
                    // a cumulative summary builds on the most recent PRIOR checkpoint: its base
                    // must belong to a strictly earlier cut point
                    if let Some(base) = s.get("basis").and_then(|b| b.get("base_summary_artifact_id")).and_then(|b| b.as_str()) {
                        if let Some(bf) = frames.iter().find(|f| f.ty == "continuity_compaction_checkpoint_created" && f.s("summary_artifact_id") == Some(base)) {
                            if bf.u("to_seq").unwrap_or(0) >= cf.u("to_seq").unwrap_or(0) {
                                return v("summary_base_not_prior", "summary_base_not_prior", format!("summary {art} for cut {} is based on the summary of cut {} (not an earlier cut point)", cf.v["to_seq"], bf.v["to_seq"]));
                            }
                        }
                    }
                    let cov = &s["coverage"];
                    if cov["thread_id"] != json!(thread) || cov["to_seq"] != cf.v["to_seq"] || cov["to_message_id"] != cf.v["to_message_id"] {
                        return v("summary_coverage", "summary_coverage_mismatch", format!("summary {art} coverage {cov} does not match checkpoint (to_seq {}, to_message_id {})", cf.v["to_seq"], cf.v["to_message_id"]));
                    }
                }
            }
        }
        if status == "completed" {
            let mut a: Vec<String> = planned.iter().map(|p| format!("{}:{}", p["to_seq"], p["to_message_id"])).collect();
            let mut b: Vec<String> = created.iter().map(|p| format!("{}:{}", p["to_seq"], p["to_message_id"])).collect();
            a.sort();
            b.sort();
            if a != b {
                return v("job_result", "completed_job_created_not_planned", format!("job {id} planned {a:?} but created {b:?}"));
            }
        }
    }
    None
}

struct Shared {
    violation: Option<Violation>,
    stats: RunStats,
    hash: u64,
    /// canonicalised markdown of auto summaries in creation order
    summaries: Vec<String>,
}

/// Replace ids (uuids, 64-hex artifact ids) by ordinals of first occurrence.
fn canon_ids(text: &str, map: &mut Vec<String>) -> String {
    let bytes = text.as_bytes();
    let is_hex = |b: u8| b.is_ascii_hexdigit();
    let mut out = String::new();
    let mut i = 0;
    while i < bytes.len() {
        // uuid: 8-4-4-4-12
        let uuid = |s: &[u8]| -> bool {
            s.len() >= 36 && [8usize, 13, 18, 23].iter().all(|&p| s[p] == b'-') && (0..36).all(|k| [8, 13, 18, 23].contains(&k) || is_hex(s[k]))
        };
        let hex64 = |s: &[u8]| -> bool { s.len() >= 64 && (0..64).all(|k| is_hex(s[k])) && (s.len() == 64 || !is_hex(s[64])) };
        let rest = &bytes[i..];
        let take = if uuid(rest) {
            36
        } else if hex64(rest) {
            64
        } else {
            0
        };
        if take > 0 {
            let id = &text[i..i + take];
            let pos = map.iter().position(|m| m == id).unwrap_or_else(|| {
                map.push(id.to_string());
                map.len() - 1
            });
            out.push_str(&format!("<ID{pos}>"));
            i += take;
        } else {
            let ch = text[i..].chars().next().unwrap();
            out.push(ch);
            i += ch.len_utf8();
        }
    }
    out
}

fn run_once(sc: &Scenario, env: &Env, seed: u64, judge: bool) -> Result<(Option<Violation>, RunStats, Vec<String>), String> {
    let dirs = storesim::begin_run(&env.root, seed, 250_000);
    let world = Arc::new(World::new(dirs.clone()));
    storesim::open_world(&world).map_err(|e| format!("open: {e}"))?;
    let shared = Arc::new(Mutex::new(Shared { violation: None, stats: RunStats::default(), hash: 0xcbf2_9ce4_8422_2325, summaries: Vec::new() }));
    let (w, sh, steps) = (world.clone(), shared.clone(), sc.steps.clone());
    let mut sim = Sim::new(SimConfig { policy: Policy::Sequential, yield_on_reads: false, yield_on_locks: false, ..SimConfig::default() });
    sim.actor("driver", move || {
        let tp = w.dirs.truth_path();
        let mut idmap: Vec<String> = Vec::new();
        for (k, op) in steps.iter().enumerate() {
            if sh.lock().unwrap().violation.is_some() {
                return;
            }
            let relevant = matches!(op, Op::CompactionAuto { .. } | Op::CompactionSchedule { .. } | Op::ManualCheckpoint { .. } | Op::CutPoints { .. } | Op::CompactionStatus { .. });
            let before: Option<Truth> = if relevant { seam::passthrough(|| model::parse_truth_file(&tp).ok()) } else { None };
            let r = w.exec(0, k, op);
            if !relevant {
                w.record(r);
                continue;
            }
            let Some(before) = before else { return };
            let after = seam::passthrough(|| model::parse_truth_file(&tp).ok());
            let Some(after) = after else {
                sh.lock().unwrap().violation = Some(Violation { class: "truth_unparseable".into(), signature: "truth_unparseable".into(), detail: format!("after {op:?}") });
                return;
            };
            let Some(thread) = r.thread.clone() else {
                w.record(r);
                continue;
            };
            let view = ThreadView::new(&before, &thread);
            let new_frames: Vec<&Frame> = after.frames[before.frames.len()..].iter().collect();
            let mut g = sh.lock().unwrap();
            let mixs = format!("{}:{}:{};", op.name(), r.ok, new_frames.len());
            for b in mixs.as_bytes() {
                g.hash ^= *b as u64;
                g.hash = g.hash.wrapping_mul(0x0000_0100_0000_01B3);
            }
            let fail = |g: &mut Shared, class: &str, sig: String, detail: String| {
                g.violation = Some(Violation { class: class.into(), signature: sig, detail: format!("step {k} {op:?}: {detail}") });
            };
            match op {
                Op::CutPoints { stride, limit, .. } => {
                    let m = view.cut_points(*stride, *limit);
                    let ok = match (&r.response, &m, r.ok) {
                        (Some(a), Ok(b), true) => canon(a) == canon(b),
                        (_, Err(_), false) => true,
                        _ => false,
                    };
                    g.stats.bump("cut_points_checked", 1);
                    if judge && !ok {
                        fail(&mut g, "cut_points_wrong", "cut_points_wrong".into(), format!("response {:?} / err {:?}; model {:?}", r.response.as_ref().map(canon), r.err, m.as_ref().map(canon)));
                        return;
                    }
                }
                Op::CompactionStatus { stride, .. } => {
                    let m = view.compaction_status(*stride);
                    let ok = match (&r.response, &m, r.ok) {
                        (Some(a), Ok(b), true) => {
                            let mut a = a.clone();
                            if let Some(o) = a.as_object_mut() {
                                o.remove("inflight_job_id");
                            }
                            canon(&a) == canon(b)
                        }
                        (_, Err(_), false) => true,
                        _ => false,
                    };
                    g.stats.bump("status_checked", 1);
                    if judge && !ok {
                        fail(&mut g, "status_wrong", "status_wrong".into(), format!("response {:?} / err {:?}; model {:?}", r.response.as_ref().map(canon), r.err, m.as_ref().map(canon)));
                        return;
                    }
                }
                Op::CompactionAuto { stride, max_new, dry_run, .. } => {
                    let plan = model_plan(&view, *stride, *max_new);
                    match (&plan, r.ok) {
                        (Err(_), false) => {
                            if judge && !new_frames.is_empty() {
                                fail(&mut g, "refused_but_wrote", "auto_refused_but_wrote".into(), format!("refused ({:?}) yet appended {} frames", r.err, new_frames.len()));
                                return;
                            }
                        }
                        (Ok(plan), true) => {
                            let resp = r.response.clone().unwrap_or(Value::Null);
                            if judge && canon(&resp["planned"]) != canon(&Value::Array(plan.clone())) {
                                fail(&mut g, "plan_wrong", "auto_plan_wrong".into(), format!("planned {} ; model plan {}", canon(&resp["planned"]), canon(&Value::Array(plan.clone()))));
                                return;
                            }
                            let noop = plan.is_empty() || *dry_run == Some(true);
                            if noop {
                                g.stats.bump("auto_noop_checked", 1);
                                if judge && (resp["status"] != json!("noop") || !new_frames.is_empty()) {
                                    fail(&mut g, "noop_wrote", "auto_noop_wrote".into(), format!("nothing to do (or dry run) but status={} and {} frames appended", resp["status"], new_frames.len()));
                                    return;
                                }
                            } else {
                                g.stats.bump("auto_executed_checked", 1);
                                // exactly: job_spawned, one checkpoint per planned cut (ascending), job_ended
                                let tys: Vec<&str> = new_frames.iter().map(|f| f.ty.as_str()).collect();
                                let mut want: Vec<&str> = vec!["continuity_job_spawned"];
                                want.extend(std::iter::repeat("continuity_compaction_checkpoint_created").take(plan.len()));
                                want.push("continuity_job_ended");
                                if judge && (tys != want || new_frames.iter().any(|f| f.stream_id != thread)) {
                                    fail(&mut g, "auto_frames_wrong", "auto_frames_wrong".into(), format!("appended {tys:?}, expected {want:?}"));
                                    return;
                                }
                                if judge && resp["status"] != json!("completed") {
                                    fail(&mut g, "auto_status_wrong", "auto_status_wrong".into(), format!("status {}", resp["status"]));
                                    return;
                                }
                                let mut plan_sorted = plan.clone();
                                plan_sorted.sort_by_key(|p| p["to_seq"].as_u64().unwrap_or(0));
                                let cks: Vec<&&Frame> = new_frames.iter().filter(|f| f.ty == "continuity_compaction_checkpoint_created").collect();
                                for (p, c) in plan_sorted.iter().zip(cks.iter()) {
                                    let stride_v = stride.unwrap_or(10_000);
                                    if judge && (c.v["to_seq"] != p["to_seq"] || c.v["to_message_id"] != p["to_message_id"] || c.s("cut_rule_id") != Some(format!("stride_messages_v1/{stride_v}").as_str()) || c.s("summary_kind") != Some("cumulative_v1")) {
                                        fail(&mut g, "checkpoint_not_planned", "auto_checkpoint_not_planned".into(), format!("checkpoint frame {} vs planned {p}", c.v));
                                        return;
                                    }
                                }
                                let tframes: Vec<&Frame> = after.thread(&thread);
                                if judge {
                                    if let Some(v) = job_violation(&w.dirs, &thread, &tframes) {
                                        g.violation = Some(v);
                                        return;
                                    }
                                }
                                // response.result mirrors the created checkpoints
                                let res_ids: Vec<Value> = resp["result"].as_array().cloned().unwrap_or_default().iter().map(|x| x["checkpoint_id"].clone()).collect();
                                let frame_ids: Vec<Value> = cks.iter().map(|c| c.v["checkpoint_id"].clone()).collect();
                                if judge && res_ids != frame_ids {
                                    fail(&mut g, "auto_result_wrong", "auto_result_wrong".into(), format!("result {res_ids:?} vs frames {frame_ids:?}"));
                                    return;
                                }
                                for c in &cks {
                                    if let Ok(s) = seam::passthrough(|| read_summary(&w.dirs, c.s("summary_artifact_id").unwrap_or(""))) {
                                        let md = s["summary_markdown"].as_str().unwrap_or("").to_string();
                                        let canon_md = canon_ids(&md, &mut idmap);
                                        g.summaries.push(canon_md);
                                    }
                                }
                                // idempotence: the same request again has nothing new to do
                                drop(g);
                                let r2 = w.exec(0, k + 1_000_000, op);
                                let after2 = seam::passthrough(|| model::parse_truth_file(&tp).ok());
                                let mut g2 = sh.lock().unwrap();
                                g2.stats.bump("idempotence_checked", 1);
                                if let Some(a2) = after2 {
                                    // with max_new smaller than the backlog a repeat legitimately continues; only judge when the model says nothing is left
                                    let view2 = ThreadView::new(&after, &thread);
                                    let left = model_plan(&view2, *stride, *max_new).map(|p| p.len()).unwrap_or(0);
                                    if judge && left == 0 && (a2.frames.len() != after.frames.len() || r2.response.as_ref().map(|x| x["status"].clone()) != Some(json!("noop"))) {
                                        g2.violation = Some(Violation { class: "not_idempotent".into(), signature: "auto_repeat_wrote".into(), detail: format!("step {k} {op:?}: repeated with nothing new to do, appended {} frames, status {:?}", a2.frames.len() - after.frames.len(), r2.response.as_ref().map(|x| x["status"].clone())) });
                                        return;
                                    }
                                }
                                continue;
                            }
                        }
                        (Ok(_), false) => {
                            if judge {
                                fail(&mut g, "refused_valid", "auto_refused_valid".into(), format!("valid request refused: {:?}", r.err));
                                return;
                            }
                        }
                        (Err(e), true) => {
                            if judge {
                                fail(&mut g, "accepted_invalid", "auto_accepted_invalid".into(), format!("invalid request ({e}) accepted"));
                                return;
                            }
                        }
                    }
                }
                Op::CompactionSchedule { stride, max_new, dry_run, execute, .. } => {
                    let plan = model_plan(&view, *stride, *max_new);
                    g.stats.bump("schedule_checked", 1);
                    match (&plan, r.ok) {
                        (Ok(plan), true) => {
                            let resp = r.response.clone().unwrap_or(Value::Null);
                            if judge && canon(&resp["planned"]) != canon(&Value::Array(plan.clone())) {
                                fail(&mut g, "plan_wrong", "schedule_plan_wrong".into(), format!("planned {} ; model plan {}", canon(&resp["planned"]), canon(&Value::Array(plan.clone()))));
                                return;
                            }
                            let decision = resp["decision"].as_str().unwrap_or("").to_string();
                            if plan.is_empty() || *dry_run == Some(true) {
                                let want = if plan.is_empty() { "noop" } else { "dry_run" };
                                if judge && (decision != want || !new_frames.is_empty()) {
                                    fail(&mut g, "noop_wrote", "schedule_noop_wrote".into(), format!("expected decision {want} and no frames; got {decision} and {} frames", new_frames.len()));
                                    return;
                                }
                            } else {
                                let tys: Vec<&str> = new_frames.iter().map(|f| f.ty.as_str()).collect();
                                let ok = match decision.as_str() {
                                    "skipped_inflight" => tys == ["continuity_compaction_auto_schedule_decided"] && !view.inflight_jobs().is_empty(),
                                    "scheduled" => *execute == Some(false) && tys == ["continuity_job_spawned", "continuity_compaction_auto_schedule_decided"],
                                    "completed" => {
                                        *execute != Some(false)
                                            && tys.first() == Some(&"continuity_job_spawned")
                                            && tys.get(1) == Some(&"continuity_compaction_auto_schedule_decided")
                                            && tys.last() == Some(&"continuity_job_ended")
                                            && tys[2..tys.len() - 1].iter().all(|t| *t == "continuity_compaction_checkpoint_created")
                                            && tys.len() == plan.len() + 3
                                    }
                                    _ => false,
                                };
                                if judge && !ok {
                                    fail(&mut g, "schedule_frames_wrong", format!("schedule_frames_wrong:{decision}"), format!("decision {decision} with frames {tys:?} (plan size {}, execute {execute:?}, inflight {:?})", plan.len(), view.inflight_jobs()));
                                    return;
                                }
                                let tframes: Vec<&Frame> = after.thread(&thread);
                                if judge {
                                    if let Some(v) = job_violation(&w.dirs, &thread, &tframes) {
                                        g.violation = Some(v);
                                        return;
                                    }
                                }
                            }
                        }
                        (Err(_), false) => {
                            if judge && !new_frames.is_empty() {
                                fail(&mut g, "refused_but_wrote", "schedule_refused_but_wrote".into(), format!("{} frames", new_frames.len()));
                                return;
                            }
                        }
                        (Ok(_), false) => {
                            if judge {
                                fail(&mut g, "refused_valid", "schedule_refused_valid".into(), format!("{:?}", r.err));
                                return;
                            }
                        }
                        (Err(e), true) => {
                            if judge {
                                fail(&mut g, "accepted_invalid", "schedule_accepted_invalid".into(), e.clone());
                                return;
                            }
                        }
                    }
                }
                Op::ManualCheckpoint { sel, stride, summary, .. } => {
                    g.stats.bump("manual_checked", 1);
                    // expected target per ADR-0011: a message boundary
                    let msgs = view.messages();
                    let req_mid = r.response.as_ref().and_then(|x| x.get("to_message_id")).cloned();
                    let _ = req_mid;
                    if r.ok {
                        let resp = r.response.clone().unwrap_or(Value::Null);
                        let to_seq = resp["to_seq"].as_u64().unwrap_or(u64::MAX);
                        let is_boundary = msgs.iter().any(|m| m.seq == to_seq && json!(m.id) == resp["to_message_id"]);
                        if judge && !is_boundary {
                            fail(&mut g, "manual_non_boundary", "manual_checkpoint_at_non_boundary".into(), format!("checkpoint accepted at to_seq {to_seq} / {} which is not a message", resp["to_message_id"]));
                            return;
                        }
                        if judge && matches!(summary, SummarySel::Neither) {
                            fail(&mut g, "manual_without_summary", "manual_without_summary".into(), "accepted without a summary".into());
                            return;
                        }
                        if matches!(sel, CutSel::None) {
                            let s = stride.unwrap_or(10_000);
                            let count = msgs.len() as u64;
                            let target = if s == 0 { 0 } else { (count / s) * s };
                            if judge && (target == 0 || msgs[(target - 1) as usize].seq != to_seq) {
                                fail(&mut g, "manual_stride_target", "manual_stride_target_wrong".into(), format!("stride {s}, {count} messages: target ordinal {target}, got to_seq {to_seq}"));
                                return;
                            }
                        }
                        let tys: Vec<&str> = new_frames.iter().map(|f| f.ty.as_str()).collect();
                        if judge && tys != ["continuity_compaction_checkpoint_created"] {
                            fail(&mut g, "manual_frames_wrong", "manual_frames_wrong".into(), format!("{tys:?}"));
                            return;
                        }
                        let art = resp["summary_artifact_id"].as_str().unwrap_or("").to_string();
                        match seam::passthrough(|| read_summary(&w.dirs, &art)) {
                            Ok(s) => {
                                if judge && (s["coverage"]["to_seq"] != json!(to_seq) || s["coverage"]["thread_id"] != json!(thread)) {
                                    fail(&mut g, "summary_coverage", "manual_summary_coverage_mismatch".into(), format!("{}", s["coverage"]));
                                    return;
                                }
                            }
                            Err(e) => {
                                if judge {
                                    fail(&mut g, "summary_unreadable", "manual_summary_unreadable".into(), e);
                                    return;
                                }
                            }
                        }
                    } else if judge && !new_frames.is_empty() {
                        fail(&mut g, "refused_but_wrote", "manual_refused_but_wrote".into(), format!("{:?}", r.err));
                        return;
                    }
                }
                _ => {}
            }
            drop(g);
            w.record(r);
        }
    });
    let rep = sim.run(|_| Verdict::proceed());
    if let Some(p) = storesim::harness_problem(&rep) {
        world.close();
        storesim::end_run();
        return Err(p);
    }
    let mut violation = shared.lock().unwrap().violation.take();
    if violation.is_none() {
        if let Some((_, m)) = rep.panics.first() {
            violation = Some(Violation { class: "panic".into(), signature: "panic".into(), detail: m.clone() });
        }
    }
    // concurrent callers: only the per-job clauses apply
    if violation.is_none() && judge && !sc.concurrent.is_empty() {
        let rep2 = storesim::run_phase(&world, &sc.concurrent, 1, sc.sched.config(1), |_| Verdict::proceed());
        if let Some(p) = storesim::harness_problem(&rep2) {
            world.close();
            storesim::end_run();
            return Err(p);
        }
        let mut g = shared.lock().unwrap();
        g.stats.bump("concurrent_phases", 1);
        g.stats.bump("context_switches", rep2.context_switches);
        g.hash ^= rep2.trace_hash;
        if let Ok(t) = model::parse_truth_file(&dirs.truth_path()) {
            for th in t.thread_ids() {
                let frames = t.thread(&th);
                if let Some(v) = job_violation(&dirs, &th, &frames) {
                    violation = Some(Violation { signature: format!("concurrent:{}", v.signature), ..v });
                    break;
                }
            }
        }
        if violation.is_none() {
            if let Some((_, m)) = rep2.panics.first() {
                violation = Some(Violation { class: "panic".into(), signature: "panic_concurrent".into(), detail: m.clone() });
            }
        }
    }
    world.close();
    let t = storesim::end_run();
    let mut g = shared.lock().unwrap();
    let mut stats = std::mem::take(&mut g.stats);
    stats.sim_time_ns = t;
    stats.case_hash = g.hash;
    let summaries = std::mem::take(&mut g.summaries);
    Ok((violation, stats, summaries))
}

pub fn execute(sc: &Scenario, env: &Env) -> (Outcome, RunStats) {
    let (v1, mut stats, s1) = match run_once(sc, env, sc.sim_seed, true) {
        Ok(x) => x,
        Err(e) => return (Outcome::Harness(e), RunStats::default()),
    };
    stats.nontrivial = stats.counters.get("auto_executed_checked").copied().unwrap_or(0) >= 1;
    if let Some(v) = v1 {
        return (Outcome::Violation(v), stats);
    }
    // determinism: same history, other ids and hash seeds => same summary text
    if !s1.is_empty() {
        let mut seq_only = sc.clone();
        seq_only.concurrent.clear();
        match run_once(&seq_only, env, sc.alt_seed, false) {
            Ok((_, _, s2)) => {
                stats.bump("determinism_pairs_compared", s1.len() as u64);
                if s1 != s2 {
                    let idx = s1.iter().zip(s2.iter()).position(|(a, b)| a != b).unwrap_or(0);
                    let (a, b) = (s1.get(idx).cloned().unwrap_or_default(), s2.get(idx).cloned().unwrap_or_default());
                    let diff_line = a.lines().zip(b.lines()).find(|(x, y)| x != y).map(|(x, y)| format!("{x:?} vs {y:?}")).unwrap_or_else(|| format!("{} vs {} summaries", s1.len(), s2.len()));
                    return (
                        Outcome::Violation(Violation {
                            class: "summary_not_deterministic".into(),
                            signature: "summary_not_deterministic".into(),
                            detail: format!("the same history executed with different random ids/hash seeds produced different text for auto summary #{idx}: {diff_line}"),
                        }),
                        stats,
                    );
                }
            }
            Err(e) => return (Outcome::Harness(e), stats),
        }
    }
    (Outcome::Ok, stats)
}

impl Check for C09 {
    fn id(&self) -> &'static str {
        "C09"
    }
    fn level(&self) -> &'static str {
        "exploration"
    }
    fn technique(&self) -> &'static str {
        "deterministic simulation: seeded histories and parameters against the real store with a planner/executor reference model over the parsed truth log; double execution under different simulated randomness for the determinism clause; concurrent callers under the baton scheduler for the per-job clauses"
    }
    fn budget(&self, tier: Tier) -> Budget {
        match tier {
            Tier::Quick => Budget { runs: 8_000, secs: 45 },
            Tier::Thorough => Budget { runs: 400_000, secs: 1200 },
        }
    }
    fn generate(&self, run_seed: u64, tier: Tier) -> Value {
        serde_json::to_value(generate(run_seed, tier)).unwrap()
    }
    fn execute(&self, scenario: &Value, env: &Env) -> (Outcome, RunStats) {
        match serde_json::from_value::<Scenario>(scenario.clone()) {
            Ok(sc) => execute(&sc, env),
            Err(e) => (Outcome::Harness(format!("bad scenario: {e}")), RunStats::default()),
        }
    }
    fn shrink(&self, scenario: &Value) -> Vec<Value> {
        let Ok(sc) = serde_json::from_value::<Scenario>(scenario.clone()) else {
            return Vec::new();
        };
        let mut out = Vec::new();
        if !sc.concurrent.is_empty() {
            let mut c = sc.clone();
            c.concurrent.clear();
            out.push(c);
        }
        let n = sc.steps.len();
        if n > 6 {
            let mut c = sc.clone();
            c.steps.truncate(n * 2 / 3);
            out.push(c);
        }
        for k in (1..n).rev() {
            let mut c = sc.clone();
            c.steps.remove(k);
            out.push(c);
        }
        for a in 0..sc.concurrent.len() {
            for k in (0..sc.concurrent[a].len()).rev() {
                let mut c = sc.clone();
                c.concurrent[a].remove(k);
                out.push(c);
            }
        }
        out.into_iter().map(|s| serde_json::to_value(s).unwrap()).collect()
    }
    fn rule(&self) -> String {
        "one evaluation = one seeded history (messages, runs, manual checkpoints at boundaries and non-boundaries, cut_points/status/auto/auto.schedule with stride/limit/max_new/block/execute/dry_run drawn from {absent, 0, 1, 2, 3, 5, 1000, MAX}); after every compaction call the response and the frames it appended are judged against the planner model (k*stride-th message, checkpointed iff a frame for that seq exists, latest by stream order) and the executor clauses (exact frame bracket, readable summaries with matching coverage, immediate repeat appends nothing); the history is executed a second time with different simulated random bytes and the auto-summary texts (ids canonicalised) must be identical; a third of the runs add 2-3 concurrent auto/schedule callers under the baton scheduler (per-job clauses only); distinct = hash of (operation, outcome, frames appended); non-trivial = at least one executed auto compaction judged".into()
    }
    fn assumptions(&self) -> Vec<String> {
        vec![
            "two concurrent jobs that planned the same cut point may both checkpoint it (latest by stream order wins); not flagged".into(),
            "compaction.status inflight_job_id is best-effort and excluded from the model comparison".into(),
            "determinism is judged across different ids/hash seeds with the same simulated clock".into(),
        ]
    }
    fn components(&self) -> Value {
        json!({"ContinuityStore compaction planner/executor/scheduler, summary renderer, artifact writer": "real", "file system": "real tmpfs", "clock": "simulated", "randomness": "simulated (two different streams per scenario)", "scheduling": "single actor + concurrent phase under the baton scheduler"})
    }
    fn extra_coverage(&self, c: &BTreeMap<String, u64>) -> Value {
        json!({"auto_executed_checked": c.get("auto_executed_checked").copied().unwrap_or(0), "idempotence_checked": c.get("idempotence_checked").copied().unwrap_or(0),
               "determinism_pairs_compared": c.get("determinism_pairs_compared").copied().unwrap_or(0), "concurrent_phases": c.get("concurrent_phases").copied().unwrap_or(0),
               "fault_counts": {"preemptions_between_concurrent_callers": c.get("context_switches").copied().unwrap_or(0)}})
    }
}

#[allow(dead_code)]
fn _u(_: u64) -> u64 {
    fnv1a(b"")
}
