//! C04 — caches are transparent: every read capability returns the answer determined by the
//! truth log whatever state the rebuildable caches are in, and terminates.
//!
//! A history is built through the real API with cache faults, restarts and further appends
//! interleaved; then every read capability is evaluated twice on byte-identical copies of the
//! store — caches as found vs. `continuity_streams/` removed — and both are compared with the
//! ThreadTruth model computed from the parsed truth log.

use std::collections::BTreeMap;
use std::panic::{catch_unwind, AssertUnwindSafe};
use std::path::Path;
use std::sync::{Arc, Mutex};

use serde::{Deserialize, Serialize};
use serde_json::{json, Value};

use crate::driver::{Budget, Check, Env, Outcome, RunStats, Tier, Violation};
use crate::faults::{self, CacheFault, DirImage};
use crate::model::{self, canon, Truth};
use crate::prng::{fnv1a, Rng};
use crate::sched::{self, Policy, Sim, SimConfig, Verdict};
use crate::seam;
use crate::storesim;
use crate::threadmodel::ThreadView;
use crate::world::{self, gen_op, Dirs, Op, World};

#[derive(Clone, Debug, Serialize, Deserialize, PartialEq)]
pub enum Step {
    Op(Op),
    /// n real appends in a tight loop (no scheduling): messages of `size`, every `run_every`-th
    /// wrapped in a run (spawn/compile/side-effects x dense/cursor/ended)
    Bulk { thread: u32, n: u32, size: u32, run_every: u32, dense: u32 },
    Restart,
    Fault(CacheFault),
    SaveCacheVersion,
}

#[derive(Clone, Debug, Serialize, Deserialize, PartialEq)]
pub struct Scenario {
    pub sim_seed: u64,
    pub steps: Vec<Step>,
    pub query_seed: u64,
    /// drop index.json before the queries and check default-thread recovery
    pub lose_index: bool,
}

pub struct C04;

pub fn generate(run_seed: u64, tier: Tier) -> Scenario {
    let mut rng = Rng::derive(run_seed, "ops");
    let mut steps = vec![Step::Op(Op::EnsureDefault)];
    let class = match (tier, rng.below(20)) {
        (_, 0..=11) => 0,          // small
        (Tier::Quick, 12..=18) => 1, // medium
        (Tier::Quick, _) => 2,     // medium-large (crosses 256 KiB window)
        (Tier::Thorough, 12..=16) => 1,
        (Tier::Thorough, 17 | 18) => 2,
        (Tier::Thorough, _) => 3,  // large: > 10^4 frames / > 8 MiB sidecar
    };
    for _ in 0..rng.range(1, 3) {
        steps.push(Step::Op(Op::AppendMessage { thread: 0, size: rng.range(1, 3) as u32 }));
    }
    match class {
        1 => steps.push(Step::Bulk { thread: 0, n: rng.range(40, 320) as u32, size: rng.range(1, 3) as u32, run_every: rng.range(0, 6) as u32, dense: rng.below(4) as u32 }),
        2 => steps.push(Step::Bulk { thread: 0, n: rng.range(120, 400) as u32, size: 3, run_every: rng.range(1, 5) as u32, dense: rng.below(6) as u32 }),
        3 => {
            if rng.chance(1, 2) {
                steps.push(Step::Bulk { thread: 0, n: rng.range(10_050, 11_000) as u32, size: 1, run_every: 0, dense: 0 });
            } else {
                steps.push(Step::Bulk { thread: 0, n: rng.range(2_300, 2_600) as u32, size: 3, run_every: 2, dense: 3 });
            }
        }
        _ => {}
    }
    let n = rng.range(4, if tier == Tier::Quick { 30 } else { 50 }) as usize;
    for _ in 0..n {
        match rng.below(20) {
            0 | 1 => steps.push(Step::Restart),
            2..=5 => steps.push(Step::Fault(faults::gen_fault(&mut rng))),
            6 => steps.push(Step::SaveCacheVersion),
            _ => {
                let mut op = gen_op(&mut rng, false);
                // keep the history on few threads so they grow
                retarget(&mut op, rng.below(2) as u32);
                steps.push(Step::Op(op));
            }
        }
    }
    // trailing faults so queries meet faulted caches directly
    for _ in 0..rng.below(4) {
        steps.push(Step::Fault(faults::gen_fault(&mut rng)));
    }
    if rng.chance(1, 3) {
        steps.push(Step::Restart);
    }
    Scenario {
        sim_seed: crate::prng::mix_label(run_seed, "sim"),
        steps,
        query_seed: rng.next_u64(),
        lose_index: rng.chance(1, 12),
    }
}

fn retarget(op: &mut Op, t: u32) {
    match op {
        Op::AppendMessage { thread, .. }
        | Op::RunSpawned { thread, .. }
        | Op::RunEnded { thread, .. }
        | Op::ToolSideEffects { thread, .. }
        | Op::CompileForRun { thread, .. }
        | Op::CursorUpdated { thread, .. }
        | Op::CursorRotate { thread, .. }
        | Op::ManualCheckpoint { thread, .. }
        | Op::CompactionAuto { thread, .. }
        | Op::CompactionSchedule { thread, .. }
        | Op::RunWithReply { thread, .. }
        | Op::FullRun { thread, .. } => *thread = t,
        _ => {}
    }
}

/// Execute the build steps on the calling (actor) thread.
pub fn run_steps(w: &World, steps: &[Step], stats: &Mutex<RunStats>, hash: &Mutex<u64>, fault_log: &Mutex<Vec<(String, String)>>) -> Result<(), String> {
    let mut versions: Vec<DirImage> = Vec::new();
    let mix = |s: &str| {
        let mut h = hash.lock().unwrap();
        for b in s.as_bytes() {
            *h ^= *b as u64;
            *h = h.wrapping_mul(0x0000_0100_0000_01B3);
        }
    };
    for (k, step) in steps.iter().enumerate() {
        match step {
            Step::Restart => {
                w.close();
                w.open().map_err(|e| format!("reopen: {e}"))?;
                stats.lock().unwrap().bump("fault:restart", 1);
                mix("R");
            }
            Step::SaveCacheVersion => {
                versions.push(seam::passthrough(|| faults::read_tree(&w.dirs.streams_dir())));
                mix("S");
            }
            Step::Fault(f) => {
                let threads = w.threads_sorted(w.st().store.as_ref());
                if let Some(d) = seam::passthrough(|| faults::apply_fault(&w.dirs, &threads, &versions, f)) {
                    if !threads.is_empty() {
                        let t = threads[f.thread as usize % threads.len()].clone();
                        for part in d.split(',') {
                            fault_log.lock().unwrap().push((t.clone(), part.to_string()));
                        }
                    }
                    let kind = d.split(['.', ',']).next().unwrap_or("x").to_string();
                    stats.lock().unwrap().bump(&format!("fault:cache_{kind}"), 1);
                    if d.contains("!stale") {
                        stats.lock().unwrap().bump("fault:left_stale_like_file", 1);
                    }
                    mix(&format!("F{d}"));
                }
            }
            Step::Op(op) => {
                match catch_unwind(AssertUnwindSafe(|| w.exec(0, k, op))) {
                    Ok(r) => {
                        mix(&format!("{}:{};", op.name(), r.ok));
                        w.record(r);
                    }
                    Err(p) => {
                        if p.downcast_ref::<sched::TickBudgetExceeded>().is_some() {
                            return Err(format!("!nonterminating:{}", op.name()));
                        }
                        std::panic::resume_unwind(p);
                    }
                }
            }
            Step::Bulk { thread, n, size, run_every, dense } => {
                let prev = seam::mode();
                seam::set_mode(seam::MODE_OFF);
                for i in 0..*n {
                    let op = if *run_every > 0 && i % run_every == 0 {
                        Op::FullRun { thread: *thread, size: *size, effects: *dense, cursor_key: if i % 3 == 0 { Some(i % 5) } else { None } }
                    } else {
                        Op::AppendMessage { thread: *thread, size: *size }
                    };
                    let r = w.exec(0, k * 100_000 + i as usize, &op);
                    if !r.ok {
                        stats.lock().unwrap().bump("bulk_op_failed", 1);
                    }
                    w.record(r);
                }
                seam::set_mode(prev);
                stats.lock().unwrap().bump("bulk_appends", *n as u64);
                mix(&format!("B{n}"));
            }
        }
    }
    Ok(())
}

#[derive(Clone, Debug)]
pub struct Query {
    pub name: String,
    pub thread: String,
    pub kind: QueryKind,
}

#[derive(Clone, Debug)]
pub enum QueryKind {
    Replay,
    CutPoints(Option<u64>, Option<u32>),
    Status(Option<u64>),
    CursorStatus,
    SelectionStatus(Option<u32>),
    Compile(String),
    RotateTarget(u32),
    BranchCut(Option<String>, Option<u64>),
    HandoffCut(Option<String>, Option<u64>),
}

/// Build the query list for the threads in `truth` (deterministic in `seed`).
pub fn gen_queries(truth: &Truth, seed: u64, max_threads: usize, only: Option<&[String]>) -> Vec<Query> {
    let mut rng = Rng::derive(seed, "queries");
    let mut threads = truth.thread_ids();
    if let Some(only) = only {
        threads.retain(|t| only.contains(t));
    }
    // prefer the longest threads
    threads.sort_by_key(|t| std::cmp::Reverse(truth.thread(t).len()));
    threads.truncate(max_threads);
    let mut ro: Vec<Query> = Vec::new();
    let mut mutating: Vec<Query> = Vec::new();
    let mut rotates: Vec<Query> = Vec::new();
    for t in &threads {
        let view = ThreadView::new(truth, t);
        let msgs = view.messages();
        let q = |name: String, kind: QueryKind| Query { name, thread: t.clone(), kind };
        ro.push(q("replay".into(), QueryKind::Replay));
        for (s, l) in [(Some(1u64), Some(32u32)), (Some(2), Some(3)), (Some(3), None), (None, Some(1)), (Some(0), None)] {
            if rng.chance(2, 3) {
                ro.push(q(format!("cut_points({s:?},{l:?})"), QueryKind::CutPoints(s, l)));
            }
        }
        let s = *rng.pick(&[5u64, 7, 16, 100, u64::MAX]);
        let l = *rng.pick(&[0u32, 2, 33, u32::MAX]);
        ro.push(q(format!("cut_points({s},{l})"), QueryKind::CutPoints(Some(s), Some(l))));
        for s in [Some(1u64), Some(2), Some(3), None] {
            if rng.chance(1, 2) {
                ro.push(q(format!("status({s:?})"), QueryKind::Status(s)));
            }
        }
        ro.push(q("cursor_status".into(), QueryKind::CursorStatus));
        for l in [None, Some(1u32), Some(3), Some(50), Some(1000)] {
            if rng.chance(1, 2) {
                ro.push(q(format!("selection_status({l:?})"), QueryKind::SelectionStatus(l)));
            }
        }
        if !msgs.is_empty() {
            let mut anchors: Vec<usize> = vec![msgs.len() - 1, 0, msgs.len() / 2];
            for _ in 0..2 {
                anchors.push(rng.usize_below(msgs.len()));
            }
            if msgs.len() > 18 {
                anchors.push(msgs.len() - 17);
                anchors.push(msgs.len() - 16);
            }
            anchors.sort();
            anchors.dedup();
            for a in anchors {
                ro.push(q(format!("compile(msg#{a})"), QueryKind::Compile(msgs[a].id.clone())));
            }
        }
        // a rotation appends a frame, so at most one per thread and after everything else
        let f = *rng.pick(&[0u32, 1, 3, 7, 8 + 1, 16 + 3, 24 + 5]);
        rotates.push(q(format!("rotate_target({f})"), QueryKind::RotateTarget(f)));
        let head = view.head_seq();
        let mut sels: Vec<(Option<String>, Option<u64>)> = vec![(None, None), (None, Some(0)), (None, Some(head)), (None, Some(head / 2)), (None, Some(head + 1))];
        if !msgs.is_empty() {
            sels.push((Some(msgs[rng.usize_below(msgs.len())].id.clone()), None));
            sels.push((Some(msgs[msgs.len() - 1].id.clone()), None));
        }
        for (m, s) in sels {
            if rng.chance(1, 2) {
                mutating.push(q(format!("branch_cut({},{s:?})", m.is_some()), QueryKind::BranchCut(m.clone(), s)));
            }
            if rng.chance(1, 3) {
                mutating.push(q(format!("handoff_cut({},{s:?})", m.is_some()), QueryKind::HandoffCut(m, s)));
            }
        }
    }
    rng.shuffle(&mut ro);
    ro.extend(mutating);
    ro.extend(rotates);
    ro
}

pub type Answer = Result<Value, String>;

fn events_json(ev: &[rip_kernel::Event]) -> Value {
    Value::Array(ev.iter().map(|e| serde_json::to_value(e).unwrap_or(Value::Null)).collect())
}

/// Evaluate one query against a real store. `Err("!nonterminating")` marks a tick-budget hit.
pub fn eval_query(st: &world::Store, dirs_ws: &Path, snapshots: &Path, q: &Query) -> Answer {
    sched::ticks_reset(400);
    let store = st.store.as_ref();
    let r = catch_unwind(AssertUnwindSafe(|| -> Answer {
        match &q.kind {
            QueryKind::Replay => store.replay_events(&q.thread).map(|e| events_json(&e)).map_err(|e| e.to_string()),
            QueryKind::CutPoints(s, l) => store
                .compaction_cut_points_v1(&q.thread, ripd::CompactionCutPointsV1Request { stride_messages: *s, limit: *l })
                .map(|r| serde_json::to_value(r).unwrap()),
            QueryKind::Status(s) => store
                .compaction_status_v1(&q.thread, ripd::CompactionStatusV1Request { stride_messages: *s })
                .map(|r| serde_json::to_value(r).unwrap()),
            QueryKind::CursorStatus => store
                .provider_cursor_status_v1(&q.thread, ripd::ProviderCursorStatusV1Request {})
                .map(|r| serde_json::to_value(r).unwrap()),
            QueryKind::SelectionStatus(l) => store
                .context_selection_status_v1(&q.thread, ripd::ContextSelectionStatusV1Request { limit: *l })
                .map(|r| serde_json::to_value(r).unwrap()),
            QueryKind::Compile(anchor) => {
                let link = ripd::ContinuityRunLink {
                    continuity_id: q.thread.clone(),
                    message_id: anchor.clone(),
                    actor_id: "q".into(),
                    origin: "sim".into(),
                };
                let v = ripd::verif_api::compile_context_for_run(store, st.log.as_ref(), snapshots, &link, "query-run", false)?;
                // observe the bundle artifact itself
                let art = v["compiled"]["bundle_artifact_id"].as_str().unwrap_or("").to_string();
                let blob = std::fs::read(dirs_ws.join(".rip/artifacts/blobs").join(&art)).map_err(|e| format!("bundle artifact unreadable: {e}"))?;
                let bundle: Value = serde_json::from_slice(&blob).map_err(|e| format!("bundle artifact does not parse: {e}"))?;
                Ok(json!({
                    "decision": v["decision"],
                    "from_seq": v["compiled"]["from_seq"],
                    "from_message_id": v["compiled"]["from_message_id"],
                    "bundle": bundle,
                }))
            }
            QueryKind::RotateTarget(f) => {
                let (p, e, m) = world::cursor_key(*f / 8);
                let req = ripd::ProviderCursorRotateV1Request {
                    provider: if f & 1 != 0 { Some(p) } else { None },
                    endpoint: if f & 2 != 0 { e } else { None },
                    model: if f & 4 != 0 { m } else { None },
                    reason: None,
                    actor_id: "q".into(),
                    origin: "sim".into(),
                };
                store.provider_cursor_rotate_v1(&q.thread, req).map(|r| {
                    json!({"rotated": r.rotated, "provider": r.provider, "endpoint": r.endpoint, "model": r.model})
                })
            }
            QueryKind::BranchCut(m, s) => store
                .branch(&q.thread, None, m.clone(), *s, "q".into(), "sim".into())
                .map(|(_, seq, mid)| json!({"seq": seq, "message_id": mid})),
            QueryKind::HandoffCut(m, s) => store
                .handoff(&q.thread, None, (Some("s".into()), None), m.clone(), *s, ("q".into(), "sim".into()))
                .map(|(_, seq, mid)| json!({"seq": seq, "message_id": mid})),
        }
    }));
    match r {
        Ok(a) => a,
        Err(p) => {
            if p.downcast_ref::<sched::TickBudgetExceeded>().is_some() {
                Err("!nonterminating".into())
            } else {
                let msg = p
                    .downcast_ref::<String>()
                    .cloned()
                    .or_else(|| p.downcast_ref::<&str>().map(|s| s.to_string()))
                    .unwrap_or_else(|| "panic".into());
                Err(format!("!panic: {msg}"))
            }
        }
    }
}

/// What the model says the answer must be. `None` = the model takes no position (doc-silent).
pub fn model_answer(truth: &Truth, q: &Query) -> Option<Answer> {
    let view = ThreadView::new(truth, &q.thread);
    Some(match &q.kind {
        QueryKind::Replay => Ok(Value::Array(view.frames.iter().map(|f| f.v.clone()).collect())),
        QueryKind::CutPoints(s, l) => view.cut_points(*s, *l),
        QueryKind::Status(s) => view.compaction_status(*s),
        QueryKind::CursorStatus => Ok(view.cursor_status()),
        QueryKind::SelectionStatus(l) => {
            if *l == Some(0) {
                return None; // limit 0 is not specified anywhere
            }
            Ok(view.selection_status(*l))
        }
        QueryKind::Compile(anchor) => match view.bundle_items(anchor) {
            None => Err("anchor not found".into()),
            Some((cut, hier, items)) => Ok(json!({
                "from_seq": cut,
                "from_message_id": anchor,
                "strategy": ThreadView::strategy(hier.len()),
                "checkpoints": hier.iter().map(|c| json!({"checkpoint_id": c.checkpoint_id, "summary_kind": c.summary_kind, "summary_artifact_id": c.summary_artifact_id, "to_seq": c.to_seq})).collect::<Vec<_>>(),
                "items": items,
            })),
        },
        QueryKind::RotateTarget(f) => {
            let (p, e, m) = world::cursor_key(*f / 8);
            let t = view.rotate_target(
                if f & 1 != 0 { Some(p.as_str()) } else { None },
                if f & 2 != 0 { e.as_deref() } else { None },
                if f & 4 != 0 { m.as_deref() } else { None },
            );
            Ok(match t {
                Some((p, e, m)) => json!({"rotated": true, "provider": p, "endpoint": e, "model": m}),
                None => json!({"rotated": false, "provider": null, "endpoint": null, "model": null}),
            })
        }
        QueryKind::BranchCut(m, s) | QueryKind::HandoffCut(m, s) => view
            .lineage_cut(m.as_deref(), *s)
            .map(|(seq, mid)| json!({"seq": seq, "message_id": mid})),
    })
}

/// Project an implementation answer onto what the model speaks about.
pub fn project(q: &Query, a: &Value) -> Value {
    match &q.kind {
        QueryKind::Status(_) => {
            let mut o = a.clone();
            if let Some(m) = o.as_object_mut() {
                m.remove("inflight_job_id"); // documented best-effort over a bounded tail
            }
            o
        }
        QueryKind::Compile(_) => {
            let items: Vec<Value> = a["bundle"]["items"]
                .as_array()
                .cloned()
                .unwrap_or_default()
                .into_iter()
                .map(|it| {
                    if it["type"] == json!("summary_ref") {
                        json!({"type": "summary_ref", "artifact_id": it["artifact_id"]})
                    } else if it["role"] == json!("assistant") {
                        json!({"type": "message", "role": "assistant", "content": it["content"]})
                    } else {
                        it
                    }
                })
                .collect();
            json!({
                "from_seq": a["from_seq"],
                "from_message_id": a["from_message_id"],
                "strategy": a["decision"]["compiler_strategy"],
                "checkpoints": a["decision"].get("compaction_checkpoints").cloned().unwrap_or(json!([])),
                "items": items,
                "_bundle_source": {"from_seq": a["bundle"]["source"]["from_seq"], "strategy": a["bundle"]["compiler"]["strategy"]},
            })
        }
        _ => a.clone(),
    }
}

fn same(q: &Query, x: &Answer, y: &Answer) -> bool {
    match (x, y) {
        (Ok(a), Ok(b)) => {
            let (mut pa, mut pb) = (project(q, a), project(q, b));
            // bundle artifact ids are fresh random values on each evaluation
            for p in [&mut pa, &mut pb] {
                if let Some(o) = p.as_object_mut() {
                    o.remove("_bundle_source");
                }
            }
            canon(&pa) == canon(&pb)
        }
        (Err(a), Err(b)) => a.starts_with('!') == b.starts_with('!') && (!a.starts_with('!') || a == b),
        _ => false,
    }
}

fn same_model(q: &Query, imp: &Answer, model: &Answer) -> bool {
    match (imp, model) {
        (Ok(a), Ok(m)) => {
            let mut pa = project(q, a);
            let consistent = match &q.kind {
                QueryKind::Compile(_) => {
                    let src = pa["_bundle_source"].clone();
                    src["from_seq"] == pa["from_seq"] && src["strategy"] == pa["strategy"]
                }
                _ => true,
            };
            if let Some(o) = pa.as_object_mut() {
                o.remove("_bundle_source");
            }
            consistent && canon(&pa) == canon(m)
        }
        (Err(a), Err(_)) => !a.starts_with('!'),
        _ => false,
    }
}

fn brief(a: &Answer) -> String {
    let s = match a {
        Ok(v) => canon(v),
        Err(e) => format!("Err({e})"),
    };
    if s.len() > 700 {
        format!("{}…[{} bytes]", s.chars().take(700).collect::<String>(), s.len())
    } else {
        s
    }
}

/// Evaluate the query list on a fresh store over a copy of `image` placed at `data_dir`.
pub fn eval_all(data_dir: &Path, ws: &Path, image: &DirImage, drop_caches: bool, queries: &[Query]) -> Result<Vec<Answer>, String> {
    let _ = std::fs::remove_dir_all(data_dir);
    std::fs::create_dir_all(data_dir).map_err(|e| e.to_string())?;
    faults::write_tree(data_dir, image);
    if drop_caches {
        let _ = std::fs::remove_dir_all(data_dir.join("continuity_streams"));
    }
    let dirs = Dirs {
        root: data_dir.to_path_buf(),
        data: data_dir.to_path_buf(),
        workspace: ws.to_path_buf(),
    };
    let out: Arc<Mutex<Vec<Answer>>> = Arc::new(Mutex::new(Vec::new()));
    let err: Arc<Mutex<Option<String>>> = Arc::new(Mutex::new(None));
    let (o2, e2, qs, d2) = (out.clone(), err.clone(), queries.to_vec(), dirs.clone());
    let rep = storesim::run_single("queries", move || {
        let st = match world::open_store(&d2) {
            Ok(s) => s,
            Err(e) => {
                *e2.lock().unwrap() = Some(e);
                return;
            }
        };
        let snaps = d2.data.join("snapshots");
        for q in &qs {
            let a = eval_query(&st, &d2.workspace, &snaps, q);
            o2.lock().unwrap().push(a);
        }
    });
    if let Some(p) = storesim::harness_problem(&rep) {
        return Err(p);
    }
    if let Some((_, m)) = rep.panics.first() {
        return Err(format!("query actor panicked: {m}"));
    }
    if let Some(e) = err.lock().unwrap().take() {
        return Err(e);
    }
    let v = std::mem::take(&mut *out.lock().unwrap());
    Ok(v)
}

/// Compare caches-as-found vs caches-removed vs model on the store image. Returns the first
/// disagreement (preferring ones not in `known`).
/// State of a thread's JSONL sidecars relative to truth: which of them are well-formed (every
/// line a frame of this thread, in truth order) yet incomplete.
pub fn stale_wellformed_sidecars(image: &DirImage, truth: &Truth, thread: &str) -> Vec<String> {
    let frames = truth.thread(thread);
    let expect = |types: &[&str]| -> Vec<String> {
        frames
            .iter()
            .filter(|f| types.is_empty() || types.contains(&f.ty.as_str()))
            .map(|f| f.id.clone())
            .collect()
    };
    let mut out = Vec::new();
    for (suffix, label, types) in [
        (".jsonl", "full", &[][..]),
        (".mr.v1.jsonl", "mr", &["continuity_message_appended", "continuity_run_ended"][..]),
        (".comp.v1.jsonl", "comp", &["continuity_compaction_checkpoint_created"][..]),
    ] {
        let want = expect(types);
        let name = format!("continuity_streams/{thread}{suffix}");
        let Some(bytes) = image.get(&name) else {
            continue;
        };
        if bytes.last().map(|b| *b != b'\n').unwrap_or(false) {
            continue; // ends mid-line: not well-formed
        }
        let mut ids: Vec<String> = Vec::new();
        let mut ok = true;
        for line in bytes.split(|b| *b == b'\n') {
            if line.is_empty() {
                continue;
            }
            match serde_json::from_slice::<Value>(line) {
                Ok(v) if v.get("stream_id").and_then(|x| x.as_str()) == Some(thread) => {
                    ids.push(v.get("id").and_then(|x| x.as_str()).unwrap_or("").to_string())
                }
                _ => {
                    ok = false;
                    break;
                }
            }
        }
        if !ok || ids == want {
            continue;
        }
        // subsequence of the expected ids, in order?
        let mut it = want.iter();
        let subseq = ids.iter().all(|id| it.any(|w| w == id));
        if subseq {
            // a proper prefix passes seq-contiguity checks; any other subsequence (suffix only,
            // gaps) is what the contiguity checks are there to reject
            let shape = if want.starts_with(&ids) { "prefix" } else { "other" };
            out.push(format!("{label}={shape}"));
        }
    }
    out
}

fn explain(image: &DirImage, truth: &Truth, thread: &str, fault_log: &[(String, String)]) -> String {
    let stale = stale_wellformed_sidecars(image, truth, thread);
    if !stale.is_empty() {
        return format!("stale_wellformed_sidecar[{}]", stale.join(","));
    }
    let is_index = |what: &str| what.contains(".seek.") || what.contains(".messages.") || what.contains(".msgord.") || what.contains(".comp.idx.");
    let mine: Vec<&String> = fault_log.iter().filter(|(t, _)| t == thread).map(|(_, w)| w).collect();
    if mine.iter().any(|w| is_index(w) && w.ends_with("!stale")) {
        return "index_stale".into();
    }
    if mine.iter().any(|w| is_index(w)) {
        return "index_corrupted".into();
    }
    if mine.iter().any(|w| w.ends_with("!stale")) {
        return "sidecar_stale_then_changed".into();
    }
    if !mine.is_empty() {
        return "sidecar_corrupted".into();
    }
    "unexplained".into()
}

pub fn compare_store(root: &Path, ws: &Path, image: &DirImage, truth: &Truth, query_seed: u64, max_threads: usize, stats: &mut RunStats, known: &[String], fault_log: &[(String, String)]) -> Result<Option<Violation>, String> {
    compare_store_only(root, ws, image, truth, query_seed, max_threads, stats, known, fault_log, None)
}

#[allow(clippy::too_many_arguments)]
pub fn compare_store_only(root: &Path, ws: &Path, image: &DirImage, truth: &Truth, query_seed: u64, max_threads: usize, stats: &mut RunStats, known: &[String], fault_log: &[(String, String)], only: Option<&[String]>) -> Result<Option<Violation>, String> {
    // thread lookup by id goes through index.json, whose loss is only claimed for default-thread
    // recovery: query the threads the index knows
    // (the threads it has a record for, and the default threads it maps workspaces to — a default
    // thread found again by scanning the log after the index was lost is back-filled into the
    // workspace map only)
    // threads without a record are compared between the two cache states only, not with the model:
    // lookups by id answer not-found for them, which no clause here judges.
    let mut no_record: Vec<String> = Vec::new();
    let indexed: Option<Vec<String>> = image.get("continuities/index.json").and_then(|b| serde_json::from_slice::<Value>(b).ok()).and_then(|v| {
        let mut ids: Vec<String> = v.get("continuities").and_then(|c| c.as_object()).map(|o| o.keys().cloned().collect())?;
        if let Some(w) = v.get("workspaces").and_then(|w| w.as_object()) {
            for id in w.values().filter_map(|x| x.as_str()) {
                if !ids.iter().any(|k| k == id) {
                    ids.push(id.to_string());
                    no_record.push(id.to_string());
                }
            }
        }
        Some(ids)
    });
    let Some(indexed) = indexed else {
        return Ok(None);
    };
    let indexed: Vec<String> = match only {
        Some(o) => indexed.into_iter().filter(|t| o.contains(t)).collect(),
        None => indexed,
    };
    let queries = gen_queries(truth, query_seed, max_threads, Some(&indexed));
    if queries.is_empty() {
        return Ok(None);
    }
    let a = eval_all(&root.join("qa"), ws, image, false, &queries)?;
    let b = eval_all(&root.join("qb"), ws, image, true, &queries)?;
    stats.bump("queries_compared", queries.len() as u64);
    let mut first_known: Option<Violation> = None;
    for (i, q) in queries.iter().enumerate() {
        let (ra, rb) = (&a[i], &b[i]);
        let qname = q.name.split('(').next().unwrap_or("q").to_string();
        let mut found: Option<Violation> = None;
        for (label, r) in [("caches_as_found", ra), ("caches_removed", rb)] {
            if let Err(e) = r {
                if e == "!nonterminating" {
                    found = Some(Violation {
                        class: "nonterminating".into(),
                        signature: format!("nonterminating:{qname}:{label}"),
                        detail: format!("{} on thread {} ({label}) exceeded its loop-iteration budget (does not terminate)", q.name, q.thread),
                    });
                    break;
                }
                if let Some(m) = e.strip_prefix("!panic: ") {
                    found = Some(Violation {
                        class: "panic".into(),
                        signature: format!("panic:{qname}:{label}"),
                        detail: format!("{} on thread {} ({label}) panicked: {m}", q.name, q.thread),
                    });
                    break;
                }
            }
        }
        if found.is_none() && !same(q, ra, rb) {
            found = Some(Violation {
                class: "cache_changes_answer".into(),
                signature: format!("cache_changes_answer:{qname}:{}", explain(image, truth, &q.thread, fault_log)),
                detail: format!(
                    "{} on thread {}: with caches as found = {} ; with caches removed = {}",
                    q.name,
                    q.thread,
                    brief(&ra.clone().map(|v| project(q, &v))),
                    brief(&rb.clone().map(|v| project(q, &v)))
                ),
            });
        }
        if found.is_none() {
            if no_record.contains(&q.thread) {
                continue;
            }
            if let Some(m) = model_answer(truth, q) {
                stats.bump("queries_compared_with_model", 1);
                if !same_model(q, rb, &m) {
                    found = Some(Violation {
                        class: "truth_path_differs_from_model".into(),
                        signature: format!("truth_path_differs_from_model:{qname}"),
                        detail: format!(
                            "{} on thread {}: truth-path answer = {} ; model = {}",
                            q.name,
                            q.thread,
                            brief(&rb.clone().map(|v| project(q, &v))),
                            brief(&m)
                        ),
                    });
                }
            }
        }
        if let Some(v) = found {
            if known.iter().any(|k| crate::driver::sig_matches(k, &v.signature)) {
                stats.bump(&format!("known:{}", v.signature), 1);
                if first_known.is_none() {
                    first_known = Some(v);
                }
            } else {
                return Ok(Some(v));
            }
        }
    }
    Ok(first_known)
}

pub fn execute(sc: &Scenario, env: &Env) -> (Outcome, RunStats) {
    let dirs = storesim::begin_run(&env.root, sc.sim_seed, 250_000);
    let world = Arc::new(World::new(dirs.clone()));
    let stats = Arc::new(Mutex::new(RunStats::default()));
    let hash = Arc::new(Mutex::new(0xcbf2_9ce4_8422_2325u64));
    let fin = |o: Outcome, stats: &Arc<Mutex<RunStats>>, hash: &Arc<Mutex<u64>>| {
        let mut s = std::mem::take(&mut *stats.lock().unwrap());
        s.sim_time_ns = storesim::end_run();
        s.case_hash = *hash.lock().unwrap();
        s.nontrivial = s.counters.iter().any(|(k, v)| k.starts_with("fault:cache_") && *v > 0)
            && s.counters.get("queries_compared").copied().unwrap_or(0) >= 5;
        (o, s)
    };
    if let Err(e) = storesim::open_world(&world) {
        return fin(Outcome::Harness(format!("open: {e}")), &stats, &hash);
    }
    let (w, steps, st2, h2) = (world.clone(), sc.steps.clone(), stats.clone(), hash.clone());
    let err: Arc<Mutex<Option<String>>> = Arc::new(Mutex::new(None));
    let e2 = err.clone();
    let mut sim = Sim::new(SimConfig {
        policy: Policy::Sequential,
        yield_on_reads: false,
        yield_on_locks: false,
        watchdog: std::time::Duration::from_secs(120),
        max_steps: 50_000_000,
        ..SimConfig::default()
    });
    let fault_log: Arc<Mutex<Vec<(String, String)>>> = Arc::new(Mutex::new(Vec::new()));
    let fl2 = fault_log.clone();
    sim.actor("builder", move || {
        if let Err(e) = run_steps(&w, &steps, &st2, &h2, &fl2) {
            *e2.lock().unwrap() = Some(e);
        }
    });
    let rep = sim.run(|_| Verdict::proceed());
    world.close();
    if let Some(p) = storesim::harness_problem(&rep) {
        return fin(Outcome::Harness(p), &stats, &hash);
    }
    if let Some(e) = err.lock().unwrap().take() {
        if let Some(op) = e.strip_prefix("!nonterminating:") {
            return fin(
                Outcome::Violation(Violation {
                    class: "nonterminating".into(),
                    signature: format!("nonterminating:{op}:in_history"),
                    detail: format!("{op} exceeded its loop-iteration budget while the history was being built (does not terminate)"),
                }),
                &stats,
                &hash,
            );
        }
        return fin(Outcome::Harness(e), &stats, &hash);
    }
    if let Some((_, m)) = rep.panics.first() {
        return fin(
            Outcome::Violation(Violation {
                class: "panic".into(),
                signature: format!("panic_in_history:{}", m.chars().filter(|c| !c.is_ascii_digit()).take(50).collect::<String>()),
                detail: format!("history panicked: {m}"),
            }),
            &stats,
            &hash,
        );
    }

    if sc.lose_index {
        let _ = std::fs::remove_file(dirs.data.join("continuities").join("index.json"));
        stats.lock().unwrap().bump("fault:index_json_lost", 1);
    }
    let image = faults::read_tree(&dirs.data);
    let truth = match model::parse_truth_file(&dirs.truth_path()) {
        Ok(t) => t,
        Err(e) => return fin(Outcome::Harness(format!("truth does not parse after the history: {}", e.reason)), &stats, &hash),
    };
    if let Some(v) = truth.first_order_violation() {
        let kind = if v.got < v.expected { "duplicate_seq" } else { "seq_gap" };
        return fin(
            Outcome::Violation(Violation {
                class: "truth_corrupted_after_cache_fault".into(),
                signature: format!("truth_corrupted_after_cache_fault:{kind}"),
                detail: format!(
                    "appends after cache faults/restarts wrote stream {}/{} line {}: expected seq {}, got {} ({})",
                    v.stream_kind, v.stream_id, v.line_no, v.expected, v.got, v.ty
                ),
            }),
            &stats,
            &hash,
        );
    }
    {
        let mut s = stats.lock().unwrap();
        s.bump("frames_in_truth", truth.frames.len() as u64);
        let longest = truth.thread_ids().iter().map(|t| truth.thread(t).len()).max().unwrap_or(0);
        s.bump(&format!("thread_len_class:{}", match longest { 0..=50 => "small", 51..=3000 => "medium", 3001..=10000 => "large", _ => "xlarge" }), 1);
        let mut h = hash.lock().unwrap();
        *h ^= fnv1a(format!("{}:{longest}", truth.frames.len()).as_bytes());
    }
    let known: Vec<String> = crate::driver::load_known_findings()
        .into_iter()
        .filter(|k| k.property == "C04" && k.status == "open")
        .map(|k| k.signature)
        .collect();

    if sc.lose_index {
        // narrow claim: default-thread recovery after index.json loss
        let ws_key = dirs.workspace.to_string_lossy().to_string();
        let mine: Vec<String> = truth
            .frames
            .iter()
            .filter(|f| f.ty == "continuity_created" && f.s("workspace") == Some(ws_key.as_str()))
            .map(|f| f.stream_id.clone())
            .collect();
        let before = std::fs::read(dirs.truth_path()).unwrap_or_default();
        let w2 = Arc::new(World::new(dirs.clone()));
        if let Err(e) = storesim::open_world(&w2) {
            return fin(Outcome::Harness(format!("reopen: {e}")), &stats, &hash);
        }
        let got: Arc<Mutex<Option<Result<String, String>>>> = Arc::new(Mutex::new(None));
        let (g2, w3) = (got.clone(), w2.clone());
        let _ = storesim::run_single("ensure", move || {
            *g2.lock().unwrap() = Some(w3.st().store.ensure_default());
        });
        w2.close();
        let after = std::fs::read(dirs.truth_path()).unwrap_or_default();
        let g = got.lock().unwrap().take();
        let v = match g {
            Some(Ok(id)) => {
                if !mine.contains(&id) {
                    Some(("default_recovery_wrong_thread", format!("ensure_default after index.json loss returned {id}, not a thread of this workspace ({mine:?})")))
                } else if mine.len() == 1 && id != mine[0] {
                    Some(("default_recovery_wrong_thread", format!("ensure_default returned {id}, expected the only thread {}", mine[0])))
                } else if after != before {
                    Some(("default_recovery_wrote", "ensure_default after index.json loss appended to events.jsonl although a thread existed".to_string()))
                } else {
                    None
                }
            }
            Some(Err(e)) => Some(("default_recovery_failed", format!("ensure_default after index.json loss failed: {e}"))),
            None => Some(("default_recovery_failed", "ensure_default did not return".to_string())),
        };
        if let Some((sig, detail)) = v {
            if !mine.is_empty() {
                return fin(
                    Outcome::Violation(Violation { class: "default_thread_recovery".into(), signature: sig.into(), detail }),
                    &stats,
                    &hash,
                );
            }
        }
        // the rest of the comparison needs the index (thread lookup by id is not claimed after its loss)
        return fin(Outcome::Ok, &stats, &hash);
    }

    let mut st = std::mem::take(&mut *stats.lock().unwrap());
    let fl = fault_log.lock().unwrap().clone();
    let r = compare_store(&env.root, &dirs.workspace, &image, &truth, sc.query_seed, 2, &mut st, &known, &fl);
    *stats.lock().unwrap() = st;
    match r {
        Err(e) => fin(Outcome::Harness(e), &stats, &hash),
        Ok(Some(v)) => fin(Outcome::Violation(v), &stats, &hash),
        Ok(None) => fin(Outcome::Ok, &stats, &hash),
    }
}

impl Check for C04 {
    fn id(&self) -> &'static str {
        "C04"
    }
    fn level(&self) -> &'static str {
        "exploration"
    }
    fn technique(&self) -> &'static str {
        "deterministic simulation with cache-fault injection: seeded histories with delete/truncate/garbage/foreign/rollback faults, restarts and appends interleaved; differential oracle (caches as found vs removed) plus executable ThreadTruth model over the parsed truth log; deterministic loop-iteration budget for termination"
    }
    fn budget(&self, tier: Tier) -> Budget {
        match tier {
            Tier::Quick => Budget { runs: 4_000, secs: 50 },
            Tier::Thorough => Budget { runs: 200_000, secs: 1500 },
        }
    }
    fn generate(&self, run_seed: u64, tier: Tier) -> Value {
        serde_json::to_value(generate(run_seed, tier)).unwrap()
    }
    fn execute(&self, scenario: &Value, env: &Env) -> (Outcome, RunStats) {
        match serde_json::from_value::<Scenario>(scenario.clone()) {
            Ok(sc) => execute(&sc, env),
            Err(e) => (Outcome::Harness(format!("bad scenario: {e}")), RunStats::default()),
        }
    }
    fn shrink(&self, scenario: &Value) -> Vec<Value> {
        let Ok(sc) = serde_json::from_value::<Scenario>(scenario.clone()) else {
            return Vec::new();
        };
        let mut out = Vec::new();
        let n = sc.steps.len();
        if n >= 6 {
            let mut c = sc.clone();
            c.steps.drain(1..n / 2);
            out.push(c);
        }
        for k in (1..n).rev() {
            let mut c = sc.clone();
            c.steps.remove(k);
            out.push(c);
        }
        for k in 0..n {
            if let Step::Bulk { n: bn, .. } = &sc.steps[k] {
                if *bn > 20 {
                    let mut c = sc.clone();
                    if let Step::Bulk { n: x, .. } = &mut c.steps[k] {
                        *x = *bn / 2;
                    }
                    out.push(c);
                }
            }
        }
        out.into_iter().map(|s| serde_json::to_value(s).unwrap()).collect()
    }
    fn rule(&self) -> String {
        "one evaluation = one seeded history built through the real API (size classes: small <=50 frames, medium 300-3000 crossing the 256-event seek stride and the 256 KiB first tail window, thorough-only large >10^4 frames or >8 MiB sidecars with dense non-message frames) with cache faults (delete, truncate at any byte, truncate at a line, drop last line, garbage, foreign thread's file, rollback to a saved version, empty) on any of the nine per-thread cache files, restarts and further appends interleaved; then every read capability (replay, cut points and status over strides/limits, cursor status and rotation target, selection status, compiled context for several anchors, branch/handoff cut) is evaluated on two byte-identical copies — caches as found vs continuity_streams removed — and compared with each other and with the ThreadTruth model; distinct = hash of the (operation, fault) sequence and resulting thread sizes; non-trivial = at least one cache fault actually applied and at least 5 queries compared".into()
    }
    fn assumptions(&self) -> Vec<String> {
        vec![
            "inflight_job_id of compaction.status is documented best-effort over a bounded tail and is excluded from the model comparison (still compared between cache states)".into(),
            "selection status with limit 0 is not specified; compared between cache states only".into(),
            "index.json loss is judged only for default-thread recovery, as the property states".into(),
            "termination is judged by a deterministic iteration budget on the hooked tail-window loops; an unhooked infinite loop would surface as a harness watchdog error".into(),
        ]
    }
    fn components(&self) -> Value {
        json!({"EventLog": "real", "ContinuityStore + all cache/index modules": "real", "context compiler": "real (verif_api export)",
               "file system": "real tmpfs", "clock/randomness": "simulated", "scheduling": "single actor", "reference": "ThreadTruth model (harness code) over an independent parser"})
    }
    fn extra_coverage(&self, c: &BTreeMap<String, u64>) -> Value {
        let faults: BTreeMap<&String, &u64> = c.iter().filter(|(k, _)| k.starts_with("fault:")).collect();
        let classes: BTreeMap<&String, &u64> = c.iter().filter(|(k, _)| k.starts_with("thread_len_class:")).collect();
        json!({"fault_counts": faults, "history_size_classes": classes,
               "queries_compared": c.get("queries_compared").copied().unwrap_or(0),
               "queries_compared_with_model": c.get("queries_compared_with_model").copied().unwrap_or(0)})
    }
}
