//! C05 — a crash (process death) between any two file-system effects leaves a store that a
//! restarted authority can replay, with gap-free numbering, acknowledged appends present exactly
//! once, and correct numbering for subsequent appends.
//!
//! Per generated history, *every* mutating file-system effect boundary is a crash point
//! (exhaustive per history): the on-disk state before each effect is captured at the libc seam,
//! then each captured state is restarted with a fresh log/store and judged.

use std::collections::{BTreeMap, BTreeSet};
use std::sync::{Arc, Mutex};

use serde::{Deserialize, Serialize};
use serde_json::{json, Value};

use crate::driver::{Budget, Check, Env, Outcome, RunStats, Tier, Violation};
use crate::faults::{self, DirImage};
use crate::model;
use crate::prng::{fnv1a, Rng};
use crate::sched::{file_class, Point, Policy, Sim, SimConfig, Verdict};
use crate::storesim;
use crate::world::{CutSel, Dirs, Op, SummarySel, World};

#[derive(Clone, Debug, Serialize, Deserialize, PartialEq)]
pub struct Scenario {
    pub sim_seed: u64,
    pub history: Vec<Op>,
    /// Only evaluate these crash points (set by the minimiser); None = all.
    #[serde(default)]
    pub only_crash_points: Option<Vec<usize>>,
    /// after the restart, other streams first write this many KiB to the log before the threads
    /// are appended to (next-seq recovery must not depend on the thread's tail being near the end)
    #[serde(default)]
    pub bulk_kib_before_continue: u32,
}

pub struct C05;

/// A known-finding hit inside `judge` (reported if nothing unknown turns up).
static KNOWN_HIT: Mutex<Option<Violation>> = Mutex::new(None);

fn gen_history_op(rng: &mut Rng, big: bool) -> Op {
    let thread = rng.below(3) as u32;
    match rng.below(43) {
        0..=11 => Op::AppendMessage {
            thread,
            size: if big && rng.chance(1, 3) { rng.range(4, 5) as u32 } else { rng.range(1, 3) as u32 },
        },
        12..=17 => Op::FullRun {
            thread,
            size: if big && rng.chance(1, 5) { 4 } else { rng.range(1, 2) as u32 },
            effects: rng.below(3) as u32,
            cursor_key: if rng.chance(1, 2) { Some(rng.below(4) as u32) } else { None },
        },
        18 | 19 => Op::RunSpawned { thread, msg: rng.below(8) as u32 },
        20 | 21 => Op::RunEnded { thread, msg: rng.below(8) as u32 },
        22 => Op::ToolSideEffects { thread, msg: rng.below(8) as u32, paths: rng.below(3) as u32 },
        23 | 24 => Op::CompileForRun { thread, msg: rng.below(8) as u32 },
        25 | 26 => Op::CursorUpdated { thread, key: rng.below(4) as u32 },
        27 => Op::CursorRotate { thread, filter: 0 },
        28..=30 => Op::ManualCheckpoint {
            thread,
            sel: if rng.chance(1, 2) { CutSel::Message(rng.below(8) as u32) } else { CutSel::None },
            stride: Some(rng.range(1, 3)),
            summary: SummarySel::Text,
        },
        31..=33 => Op::CompactionAuto {
            thread,
            stride: Some(rng.range(1, 3)),
            max_new: Some(rng.range(1, 3) as u32),
            dry_run: None,
        },
        34 => Op::CompactionSchedule {
            thread,
            stride: Some(rng.range(1, 3)),
            max_new: Some(2),
            block: Some(rng.chance(1, 2)),
            execute: Some(true),
            dry_run: None,
        },
        35 | 36 => Op::Branch {
            thread,
            sel: if rng.chance(1, 2) { CutSel::None } else { CutSel::Message(rng.below(8) as u32) },
        },
        37 | 38 => Op::Handoff {
            thread,
            sel: CutSel::None,
            summary: SummarySel::Text,
        },
        39 => Op::RawSession { frames: rng.range(3, 8) as u32 },
        // a run whose reply frames and session snapshot are written the way a real run writes
        // them: the snapshot file's create / write boundaries become crash points
        41 | 42 => Op::RunWithReply { thread, size: rng.range(1, 2) as u32, deltas: rng.range(1, 3) as u32, snapshot: 1 },
        _ => Op::Replay { thread },
    }
}

pub fn generate(run_seed: u64, tier: Tier) -> Scenario {
    let mut rng = Rng::derive(run_seed, "ops");
    let n = rng.range(2, if tier == Tier::Quick { 10 } else { 15 }) as usize;
    let big = rng.chance(1, 3);
    let mut history = vec![Op::EnsureDefault];
    for _ in 0..n {
        history.push(gen_history_op(&mut rng, big));
    }
    // own sub-stream: 1 in 6 histories hold one message far larger than any read window (70-300 KB),
    // so that some crash states have such a frame as a thread's last one
    let mut huge = Rng::derive(run_seed, "huge-frame");
    if huge.chance(1, 6) {
        let idx: Vec<usize> = history.iter().enumerate().filter(|(_, o)| matches!(o, Op::AppendMessage { .. })).map(|(i, _)| i).collect();
        if !idx.is_empty() {
            let k = idx[huge.usize_below(idx.len())];
            if let Op::AppendMessage { size, .. } = &mut history[k] {
                *size = huge.range(70_000, 300_000) as u32;
            }
        }
    }
    Scenario {
        sim_seed: crate::prng::mix_label(run_seed, "sim"),
        history,
        only_crash_points: None,
        bulk_kib_before_continue: {
            // 1 in 8 histories; a third of those write more than 4 MiB (beyond any plausible bound of
            // a backward scan of the log)
            let mut b = Rng::derive(run_seed, "bulk");
            if b.chance(1, 8) {
                if b.chance(1, 3) { 5200 } else { 1300 }
            } else {
                0
            }
        },
    }
}

struct CrashState {
    index: usize,
    /// frames acknowledged to the caller (appending call returned Ok) before this point
    acked_ops: usize,
    /// index of the operation in flight
    op_in_flight: usize,
    /// class of the effect that was about to be applied (the crash is just before it)
    before_effect: String,
    /// path of the effect that was about to be applied
    next_path: String,
    /// class of the effect applied last (the crash is just after it)
    after_effect: String,
    data: DirImage,
    rip: DirImage,
}

fn rip_dir(dirs: &Dirs) -> std::path::PathBuf {
    dirs.workspace.join(".rip")
}

/// Abstract a crash state: per file class, number of lines (or size bucket), plus torn flag.
fn abstract_state(cs: &CrashState) -> u64 {
    let mut parts: Vec<String> = Vec::new();
    let mut per_class: BTreeMap<String, (usize, usize)> = BTreeMap::new();
    for (rel, bytes) in cs.data.iter().chain(cs.rip.iter()) {
        let class = file_class(&format!("/{rel}"));
        let e = per_class.entry(class).or_insert((0, 0));
        e.0 += 1;
        e.1 += bytes.iter().filter(|b| **b == b'\n').count();
    }
    for (k, (files, lines)) in per_class {
        parts.push(format!("{k}:{files}:{lines}"));
    }
    let torn = cs
        .data
        .get("events.jsonl")
        .map(|b| !b.is_empty() && *b.last().unwrap() != b'\n')
        .unwrap_or(false);
    parts.push(format!("torn={torn}"));
    parts.push(format!("before={}", cs.before_effect));
    fnv1a(parts.join("|").as_bytes())
}

/// Judge one restarted crash state. Runs the real restart + continuation on fresh threads.
fn judge(dirs: &Dirs, cs: &CrashState, acked: &[(String, String)], bulk_kib: u32, stats: &mut RunStats) -> Option<Violation> {
    // restore the captured state in place (frames embed the workspace path)
    let _ = std::fs::remove_dir_all(&dirs.data);
    let _ = std::fs::remove_dir_all(rip_dir(dirs));
    std::fs::create_dir_all(&dirs.data).ok();
    faults::write_tree(&dirs.data, &cs.data);
    faults::write_tree(&rip_dir(dirs), &cs.rip);

    let at = format!("after={} before={}", cs.after_effect, cs.before_effect);
    let sig_at = format!("{}|{}", cs.after_effect, cs.before_effect);
    let truth_path = dirs.truth_path();

    // (a) the model must be able to read what is on disk (a missing final newline is a crash
    // artefact the store must cope with, not yet a violation)
    let truth0 = match model::parse_truth_file(&truth_path) {
        Ok(t) => t,
        Err(e) => {
            return Some(Violation {
                class: "unreadable_after_crash".into(),
                signature: format!("unreadable_after_crash:{sig_at}"),
                detail: format!("crash {at}: events.jsonl line {}: {}", e.line_no, e.reason),
            })
        }
    };
    let torn = truth0.torn_tail.is_some();
    if torn {
        stats.bump("crash_states_with_torn_frame", 1);
    }

    // (e) the caches the crash left are reconciled or ignored: C04's comparison on the recovered
    // store (caches as found vs removed vs model), before anything else touches them
    if cs.index % 3 == 0 || cs.before_effect.contains("cs:") {
        let known4: Vec<String> = crate::driver::load_known_findings()
            .into_iter()
            .filter(|k| k.property == "C05" && k.status == "open")
            .map(|k| k.signature)
            .collect();
        let mut sub = RunStats::default();
        // the thread whose append was in flight: named by the next cache path, else the thread of
        // the last continuity frame in truth
        let focus: Option<String> = cs
            .next_path
            .rsplit('/')
            .next()
            .filter(|_| cs.next_path.contains("/continuity_streams/"))
            .and_then(|n| n.split('.').next())
            .map(|s| s.to_string())
            .or_else(|| truth0.frames.iter().rev().find(|f| f.stream_kind == "continuity").map(|f| f.stream_id.clone()));
        let only: Vec<String> = focus.into_iter().collect();
        match crate::checks::c04::compare_store_only(&dirs.root, &dirs.workspace, &cs.data, &truth0, cs.index as u64 ^ 0x5eed, 1, &mut sub, &[], &[], Some(&only)) {
            Ok(Some(v)) => {
                stats.bump("recovered_store_comparisons", 1);
                // name the cache file the crash left behind (the one about to be written)
                let mut sig = format!("recovered_store_{}", v.signature);
                if sig.ends_with(":unexplained") && cs.before_effect.contains("cs:") {
                    let file = cs.before_effect.split("cs:").nth(1).unwrap_or("?");
                    sig = format!("{}:lag[{file}]", sig.trim_end_matches(":unexplained"));
                }
                let v = Violation {
                    class: format!("recovered_store_{}", v.class),
                    signature: sig,
                    detail: format!("crash {at}: {}", v.detail),
                };
                if !known4.iter().any(|k| crate::driver::sig_matches(k, &v.signature)) {
                    return Some(v);
                }
                stats.bump(&format!("known:{}", v.signature), 1);
                *KNOWN_HIT.lock().unwrap() = Some(v);
            }
            Ok(None) => stats.bump("recovered_store_comparisons", 1),
            Err(e) => return Some(Violation { class: "harness".into(), signature: "harness".into(), detail: e }),
        }
        // compare_store replaced the simulated store directories' scratch copies only; restore the crash state
        let _ = std::fs::remove_dir_all(&dirs.data);
        std::fs::create_dir_all(&dirs.data).ok();
        faults::write_tree(&dirs.data, &cs.data);
    }

    // (b)+(c) restart: replay must succeed, numbering gap-free
    let world = Arc::new(World::new(dirs.clone()));
    if let Err(e) = storesim::open_world(&world) {
        return Some(Violation {
            class: "restart_failed".into(),
            signature: format!("restart_failed:{sig_at}"),
            detail: format!("crash {at}: store does not open: {e}"),
        });
    }
    let out: Arc<Mutex<Option<Violation>>> = Arc::new(Mutex::new(None));
    let threads: Vec<String> = {
        // threads known from truth (complete lines) — plus a torn continuity_created, if any, is
        // not addressable and is ignored
        truth0.thread_ids()
    };
    let acked_ids: Vec<(String, String)> = acked.iter().take(cs.acked_ops).cloned().collect();
    let w = world.clone();
    let out2 = out.clone();
    let at2 = at.clone();
    let sig2 = sig_at.clone();
    let threads2 = threads.clone();
    let ensure_first = cs.index % 2 == 0;
    let rep = storesim::run_single("restart", move || {
        let st = w.st();
        let fail = |v: Violation| {
            let mut g = out2.lock().unwrap();
            if g.is_none() {
                *g = Some(v);
            }
        };
        if let Err(e) = st.log.replay_validated() {
            fail(Violation {
                class: "replay_fails_after_crash".into(),
                signature: format!("replay_fails_after_crash:{sig2}"),
                detail: format!("crash {at2}: replay_validated on the restarted store: {e}"),
            });
            return;
        }
        // optionally other streams write a lot first, so the thread's last frame is far from the
        // end of the log when its next seq has to be recovered
        if bulk_kib > 0 {
            let blob = "x".repeat(100 * 1024);
            for k in 0..(bulk_kib / 100).max(1) {
                let ev = rip_kernel::Event { id: format!("bulk-{k}"), session_id: "bulk-session".into(), timestamp_ms: 1, seq: k as u64, kind: rip_kernel::EventKind::OutputTextDelta { delta: blob.clone() } };
                if let Err(e) = st.log.append(&ev) {
                    fail(Violation { class: "append_fails_after_crash".into(), signature: format!("append_fails_after_crash:{sig2}"), detail: format!("crash {at2}: bulk session append failed: {e}") });
                    return;
                }
            }
        }
        if ensure_first {
            match st.store.ensure_default() {
                Err(e) => {
                    if threads2.is_empty() {
                        fail(Violation {
                            class: "append_fails_after_crash".into(),
                            signature: format!("ensure_default_fails_after_crash:{sig2}"),
                            detail: format!("crash {at2}: ensure_default on the restarted store failed: {e}"),
                        });
                    }
                }
                Ok(t) => {
                    if let Err(e) = st.store.append_message(&t, "post-crash".into(), "sim".into(), "to the default thread, first thing".into()) {
                        fail(Violation {
                            class: "append_fails_after_crash".into(),
                            signature: format!("append_to_default_thread_fails_after_crash:{sig2}"),
                            detail: format!("crash {at2}: ensure_default returned {t} but a post to it fails: {e}"),
                        });
                        return;
                    }
                }
            }
        }
        // continuation: every thread gets an append; the first also a full run, a branch and an
        // auto compaction — this is what exercises next-seq recovery from whatever the crash left
        for (i, t) in threads2.iter().enumerate().take(4) {
            match st.store.append_message(t, "post-crash".into(), "sim".into(), format!("after crash {i}")) {
                Ok(_) => {}
                Err(e) => {
                    fail(Violation {
                        class: "append_fails_after_crash".into(),
                        signature: format!("append_fails_after_crash:{sig2}"),
                        detail: format!("crash {at2}: append_message to {t} on the restarted store failed: {e}"),
                    });
                    return;
                }
            }
        }
        if let Some(t) = threads2.first() {
            let _ = st.store.append_message(t, "post-crash".into(), "sim".into(), "second".into());
            let _ = st.store.branch(t, None, None, None, "post-crash".into(), "sim".into());
            let _ = st.store.compaction_auto_v1(
                t,
                ripd::CompactionAutoV1Request {
                    stride_messages: Some(2),
                    max_new_checkpoints: Some(2),
                    dry_run: None,
                    actor_id: "post-crash".into(),
                    origin: "sim".into(),
                },
            );
        }
        // whatever the crash left of the thread index, the workspace's default thread must be
        // obtainable and must accept a post. A client asks for the default thread first thing after
        // a restart or only after other work, so half of the crash states do it before the
        // continuation appends and half after (with no index left, the first finds the thread in
        // the log; the second comes after a branch has already written a new index).
        let ensure_and_post = || match st.store.ensure_default() {
            Err(e) => {
                if threads2.is_empty() {
                    fail(Violation {
                        class: "append_fails_after_crash".into(),
                        signature: format!("ensure_default_fails_after_crash:{sig2}"),
                        detail: format!("crash {at2}: ensure_default on the restarted store failed: {e}"),
                    });
                }
            }
            Ok(t) => {
                if let Err(e) = st.store.append_message(&t, "post-crash".into(), "sim".into(), "to the default thread".into()) {
                    fail(Violation {
                        class: "append_fails_after_crash".into(),
                        signature: format!("append_to_default_thread_fails_after_crash:{sig2}"),
                        detail: format!("crash {at2}: ensure_default returned {t} but a post to it fails: {e}"),
                    });
                }
            }
        };
        if !ensure_first {
            ensure_and_post();
        }
    });
    world.close();
    if let Some(p) = storesim::harness_problem(&rep) {
        return Some(Violation { class: "harness".into(), signature: "harness".into(), detail: p });
    }
    if let Some((_, msg)) = rep.panics.first() {
        return Some(Violation {
            class: "panic_after_crash".into(),
            signature: format!("panic_after_crash:{sig_at}"),
            detail: format!("crash {at}: restarted store panicked: {msg}"),
        });
    }
    if let Some(v) = out.lock().unwrap().take() {
        return Some(v);
    }

    // after the continuation: whole store parseable, every stream 0,1,2,...
    let truth1 = match model::parse_truth_file(&truth_path) {
        Ok(t) => t,
        Err(e) => {
            return Some(Violation {
                class: "unreadable_after_continuation".into(),
                signature: format!("unreadable_after_continuation:{}", if torn { "torn_frame_glued" } else { "other" }),
                detail: format!(
                    "crash {at}{}: after further appends events.jsonl line {} does not parse: {}",
                    if torn { " (frame body without newline)" } else { "" },
                    e.line_no,
                    e.reason
                ),
            })
        }
    };
    if let Some(v) = truth1.first_order_violation() {
        let kind = if v.got < v.expected { "duplicate_seq" } else { "seq_gap" };
        // was the sidecar behind truth at the crash point?
        let sidecar_lag = {
            let name = format!("continuity_streams/{}.jsonl", v.stream_id);
            let side_lines = cs.data.get(&name).map(|b| b.iter().filter(|c| **c == b'\n').count()).unwrap_or(0);
            let truth_lines = truth0.thread(&v.stream_id).len();
            cs.data.contains_key(&name) && side_lines < truth_lines
        };
        let first_post_crash = v.line_no >= truth0.frames.len();
        let shape = if sidecar_lag && first_post_crash && kind == "duplicate_seq" {
            "sidecar_behind_truth_at_crash"
        } else {
            "other"
        };
        return Some(Violation {
            class: format!("{kind}_after_crash"),
            signature: format!("{kind}_after_crash:{shape}"),
            detail: format!(
                "crash {at}: after restart and further appends, stream {}/{} line {}: expected seq {}, got {} ({})",
                v.stream_kind, v.stream_id, v.line_no, v.expected, v.got, v.ty
            ),
        });
    }
    if let Ok(log) = rip_log::EventLog::new(&truth_path) {
        if let Err(e) = log.replay_validated() {
            return Some(Violation {
                class: "replay_fails_after_continuation".into(),
                signature: "replay_fails_after_continuation".into(),
                detail: format!("crash {at}: {e}"),
            });
        }
    }
    // (d) acknowledged appends present exactly once
    let mut count: BTreeMap<&str, usize> = BTreeMap::new();
    for f in &truth1.frames {
        *count.entry(f.id.as_str()).or_insert(0) += 1;
    }
    for (id, op) in &acked_ids {
        let n = count.get(id.as_str()).copied().unwrap_or(0);
        if n != 1 {
            return Some(Violation {
                class: "acked_append_lost_or_duplicated".into(),
                signature: format!("acked_append_count_{n}:{op}"),
                detail: format!("crash {at}: frame {id} acknowledged by {op} before the crash appears {n} times after restart"),
            });
        }
    }
    // (e') after the continuation the threads that were appended to must have coherent caches
    // again: the same comparison on the continued store (caches as found vs removed vs model)
    if cs.index % 4 == 1 || cs.before_effect.contains("cs:") {
        world.close();
        let image1 = crate::seam::passthrough(|| faults::read_tree(&dirs.data));
        let only: Vec<String> = threads.iter().take(4).cloned().collect();
        let mut sub = RunStats::default();
        match crate::checks::c04::compare_store_only(&dirs.root, &dirs.workspace, &image1, &truth1, cs.index as u64 ^ 0xc0de, 2, &mut sub, &[], &[], Some(&only)) {
            Ok(Some(v)) => {
                // the signature names the file the crash was about to write: which cache files the
                // in-flight append had not reached yet decides what can be stale afterwards
                // the signature says how far the in-flight append had got: only the truth line
                // (the restarted authority then rebuilds the thread's caches from truth), or
                // already into the thread's cache files (nothing notices the caches it had not
                // reached yet)
                let next = if cs.after_effect.contains("cs:") { "cache_files_reached" } else { "truth_line_only" };
                return Some(Violation {
                    class: format!("continued_store_{}", v.class),
                    signature: format!("continued_store_{}@crash_with_{next}", v.signature),
                    detail: format!("crash {at}, after restart and an append to the thread: {}", v.detail),
                });
            }
            Ok(None) => stats.bump("continued_store_comparisons", 1),
            Err(e) => return Some(Violation { class: "harness".into(), signature: "harness".into(), detail: e }),
        }
    }
    // (g) artifact-before-frame: every artifact a present frame references exists and parses
    let blobs = dirs.blobs_dir();
    for f in &truth0.frames {
        for key in ["summary_artifact_id", "bundle_artifact_id"] {
            if let Some(id) = f.s(key) {
                if f.ty == "continuity_handoff_created" && f.s("summary_markdown").is_some() && key == "summary_artifact_id" {
                    // inline markdown also resolves the summary; still require the blob below
                }
                if id.chars().all(|c| c == 'f' || c == 'e' || c == 'd') {
                    continue; // harness-supplied deliberately unreadable ids
                }
                let p = blobs.join(id);
                match std::fs::read(&p) {
                    Ok(b) => {
                        if serde_json::from_slice::<Value>(&b).is_err() {
                            return Some(Violation {
                                class: "artifact_unreadable".into(),
                                signature: format!("artifact_unparseable:{}", f.ty),
                                detail: format!("crash {at}: frame {} ({}) references artifact {id} which does not parse", f.id, f.ty),
                            });
                        }
                    }
                    Err(_) => {
                        return Some(Violation {
                            class: "artifact_missing".into(),
                            signature: format!("artifact_missing:{}", f.ty),
                            detail: format!("crash {at}: frame {} ({}) references artifact {id} which is missing", f.id, f.ty),
                        });
                    }
                }
            }
        }
    }
    None
}

pub fn execute(sc: &Scenario, env: &Env) -> (Outcome, RunStats) {
    let mut stats = RunStats::default();
    let dirs = storesim::begin_run(&env.root, sc.sim_seed, 250_000);
    let world = Arc::new(World::new(dirs.clone()));
    if let Err(e) = storesim::open_world(&world) {
        stats.sim_time_ns = storesim::end_run();
        return (Outcome::Harness(format!("open: {e}")), stats);
    }

    // ---- run the history once, capturing the on-disk state before every mutating effect
    let states: Arc<Mutex<Vec<CrashState>>> = Arc::new(Mutex::new(Vec::new()));
    let w = world.clone();
    let history = sc.history.clone();
    let mut sim = Sim::new(SimConfig {
        policy: Policy::Sequential,
        yield_on_reads: false,
        yield_on_locks: false,
        ..SimConfig::default()
    });
    sim.actor("history", move || {
        for (k, op) in history.iter().enumerate() {
            let r = w.exec(0, k, op);
            w.record(r);
        }
    });
    let st2 = states.clone();
    let w2 = world.clone();
    let d2 = dirs.clone();
    let mut last_class = String::from("start");
    let rep = sim.run(move |ev| {
        let (class, next_path) = match &ev.point {
            Point::Fs(e) if e.kind.is_mutating() => (format!("{:?}:{}", e.kind, file_class(&e.path)), e.path.clone()),
            Point::End => ("end".to_string(), String::new()),
            _ => return Verdict::proceed(),
        };
        let (acked_ops, in_flight) = {
            let reg = w2.reg.lock().unwrap();
            (reg.acks.len(), reg.results.len())
        };
        let mut g = st2.lock().unwrap();
        let index = g.len();
        g.push(CrashState {
            index,
            acked_ops,
            op_in_flight: in_flight,
            before_effect: class.clone(),
            next_path,
            after_effect: last_class.clone(),
            data: faults::read_tree(&d2.data),
            rip: faults::read_tree(&rip_dir(&d2)),
        });
        last_class = class;
        Verdict::proceed()
    });
    world.close();
    if let Some(p) = storesim::harness_problem(&rep) {
        stats.sim_time_ns = storesim::end_run();
        return (Outcome::Harness(p), stats);
    }
    if let Some((_, msg)) = rep.panics.first() {
        stats.sim_time_ns = storesim::end_run();
        return (
            Outcome::Violation(Violation {
                class: "panic".into(),
                signature: "panic_in_history".into(),
                detail: format!("history panicked: {msg}"),
            }),
            stats,
        );
    }
    let acked: Vec<(String, String)> = world.reg.lock().unwrap().acks.clone();
    let states = std::mem::take(&mut *states.lock().unwrap());
    stats.bump("histories", 1);
    stats.bump("history_ops", sc.history.len() as u64);

    // ---- restart every captured state
    let known: Vec<String> = crate::driver::load_known_findings()
        .into_iter()
        .filter(|k| k.property == "C05" && k.status == "open")
        .map(|k| k.signature)
        .collect();
    let mut first_unknown: Option<Violation> = None;
    let mut first_known: Option<Violation> = None;
    let mut seen_states: BTreeSet<u64> = BTreeSet::new();
    let mut hash: u64 = 0;
    for cs in &states {
        if let Some(only) = &sc.only_crash_points {
            if !only.contains(&cs.index) {
                continue;
            }
        }
        stats.evals += 1;
        stats.bump("fault:crash", 1);
        stats.bump(&format!("crash_before:{}", cs.before_effect), 1);
        let h = abstract_state(cs);
        hash ^= h.rotate_left((cs.index % 61) as u32);
        if cs.before_effect != "end" {
            seen_states.insert(h);
        }
        if let Some(mut v) = judge(&dirs, cs, &acked, sc.bulk_kib_before_continue, &mut stats) {
            if v.class == "harness" {
                stats.sim_time_ns = storesim::end_run();
                return (Outcome::Harness(v.detail), stats);
            }
            v.detail = format!(
                "crash point {} of {} (operation in flight #{}: {:?}): {}",
                cs.index,
                states.len(),
                cs.op_in_flight,
                sc.history.get(cs.op_in_flight),
                v.detail
            );
            stats.bump(&format!("violating_crash_points:{}", v.class), 1);
            if std::env::var("RIPSIM_DEBUG").is_ok() {
                eprintln!("[c05] {} :: {}", v.signature, v.detail.chars().take(260).collect::<String>());
            }
            if known.iter().any(|k| crate::driver::sig_matches(k, &v.signature)) {
                if first_known.is_none() {
                    first_known = Some(v);
                }
            } else if first_unknown.is_none() {
                first_unknown = Some(v);
            }
        }
    }
    stats.state_hashes = seen_states.into_iter().collect();
    stats.case_hash = hash;
    stats.nontrivial = states.len() >= 10;
    stats.sim_time_ns = storesim::end_run();
    let hit = KNOWN_HIT.lock().unwrap().take();
    match first_unknown.or(first_known).or(hit) {
        Some(v) => (Outcome::Violation(v), stats),
        None => (Outcome::Ok, stats),
    }
}

impl Check for C05 {
    fn id(&self) -> &'static str {
        "C05"
    }
    fn level(&self) -> &'static str {
        "fault_enumeration"
    }
    fn technique(&self) -> &'static str {
        "deterministic simulation with crash injection: every file-system effect boundary of a seeded history (captured at the libc seam) is restarted with the real store; oracle = independent truth-log parser + acknowledged-id ledger"
    }
    fn budget(&self, tier: Tier) -> Budget {
        match tier {
            Tier::Quick => Budget { runs: 320, secs: 45 },
            Tier::Thorough => Budget { runs: 100_000, secs: 1500 },
        }
    }
    fn generate(&self, run_seed: u64, tier: Tier) -> Value {
        serde_json::to_value(generate(run_seed, tier)).unwrap()
    }
    fn execute(&self, scenario: &Value, env: &Env) -> (Outcome, RunStats) {
        match serde_json::from_value::<Scenario>(scenario.clone()) {
            Ok(sc) => execute(&sc, env),
            Err(e) => (Outcome::Harness(format!("bad scenario: {e}")), RunStats::default()),
        }
    }
    fn shrink(&self, scenario: &Value) -> Vec<Value> {
        let Ok(sc) = serde_json::from_value::<Scenario>(scenario.clone()) else {
            return Vec::new();
        };
        let mut out = Vec::new();
        let mut base = sc.clone();
        base.only_crash_points = None;
        let n = base.history.len();
        if n >= 4 {
            let mut c = base.clone();
            c.history.truncate(n / 2 + 1);
            out.push(c);
        }
        for k in (1..n).rev() {
            let mut c = base.clone();
            c.history.remove(k);
            out.push(c);
        }
        // shrink arguments: smaller payloads
        for k in 0..n {
            let mut c = base.clone();
            let changed = match &mut c.history[k] {
                Op::AppendMessage { size, .. } if *size > 1 && *size != 4 => {
                    *size = 1;
                    true
                }
                Op::FullRun { size, effects, cursor_key, .. } if *size > 1 || *effects > 0 || cursor_key.is_some() => {
                    if *size != 4 {
                        *size = 1;
                    }
                    *effects = 0;
                    *cursor_key = None;
                    true
                }
                _ => false,
            };
            if changed {
                out.push(c);
            }
        }
        out.into_iter().map(|s| serde_json::to_value(s).unwrap()).collect()
    }
    fn concretize(&self, scenario: &Value, env: &Env) -> Value {
        // pin the first violating crash point so the replay file names it
        let Ok(mut sc) = serde_json::from_value::<Scenario>(scenario.clone()) else {
            return scenario.clone();
        };
        sc.only_crash_points = None;
        let (o, _) = execute(&sc, env);
        if let Outcome::Violation(v) = o {
            if let Some(rest) = v.detail.strip_prefix("crash point ") {
                if let Some(n) = rest.split(' ').next().and_then(|s| s.parse::<usize>().ok()) {
                    sc.only_crash_points = Some(vec![n]);
                }
            }
        }
        serde_json::to_value(sc).unwrap()
    }
    fn rule(&self) -> String {
        "one run = one seeded history of 3-16 store operations (messages incl. frames larger than the 8 KiB writer buffer and, in 1 of 6 histories, one of 70-300 KB, full runs with compile/side-effects/cursor, runs with reply frames and a session snapshot, manual and automatic compaction, branch, handoff) executed once; EVERY mutating file-system effect boundary of the run (log, each sidecar and index, index.json tmp+rename, artifact tmp+rename) is a crash point: the captured on-disk state is restarted with a fresh EventLog+ContinuityStore, replayed, continued with further appends (1 in 8 histories first let another stream write 1.3 MB - a third of them 5.2 MB -, so the threads' tails are far from the end of the log; the default thread must be obtainable and accept a post - asked for first thing after the restart in half of the crash states, after the other appends in the other half) and judged (incl. C04's cache comparison once more on the continued store for the threads that were appended to); evaluations = crash states restarted; distinct = distinct abstract crash state (files per class, lines per class, torn-frame flag, next effect class); exhaustive within each history, sampled across histories".into()
    }
    fn assumptions(&self) -> Vec<String> {
        vec![
            "crash = process death with every completed syscall surviving (rip never fsyncs; power loss is outside the property)".into(),
            "effects are atomic at syscall granularity: a write(2) is not split".into(),
            "the history runs on one actor; concurrent writers at the crash instant are not modelled".into(),
            "session snapshots are written by the harness through the public snapshot writer right after the run's session frames (as run_session does); crash points in the middle of a real engine run are not generated".into(),
        ]
    }
    fn components(&self) -> Value {
        json!({"EventLog": "real", "ContinuityStore": "real", "caches/indexes/artifact writers": "real",
               "file system": "real tmpfs; crash states captured at the libc seam", "clock/randomness": "simulated",
               "crash": "simulated (state capture before each effect + restart with fresh handles)"})
    }
    fn extra_coverage(&self, c: &BTreeMap<String, u64>) -> Value {
        let per: BTreeMap<&String, &u64> = c.iter().filter(|(k, _)| k.starts_with("crash_before:")).collect();
        json!({
            "histories": c.get("histories").copied().unwrap_or(0),
            "fault_counts": {"crash": c.get("fault:crash").copied().unwrap_or(0),
                              "torn_frame_states": c.get("crash_states_with_torn_frame").copied().unwrap_or(0)},
            "crash_points_by_next_effect": per,
        })
    }
    fn distinct_from_states(&self) -> bool {
        true
    }
}
