//! C12 — patch application is all-or-nothing, and exact when it succeeds.
//!
//! Reduced form (no schedule, clock or crash in the quantifier): sequential refinement of
//! `Workspace::apply_patch` / the `apply_patch` tool against an in-memory patch model on a real
//! directory. The simulator contributes the seeded generator (every operation index made the
//! failing one), the model, minimisation and replay.

use std::collections::BTreeMap;

use serde::{Deserialize, Serialize};
use serde_json::{json, Value};

use crate::driver::{Budget, Check, Env, Outcome, RunStats, Tier, Violation};
use crate::prng::{fnv1a, Rng};
use crate::wsenv::{self, snapshot_tree, tool_exit, tool_text, ToolEnv, Tree};

#[derive(Clone, Debug, Serialize, Deserialize, PartialEq)]
pub struct Hunk {
    pub before: Vec<String>,
    pub after: Vec<String>,
}

#[derive(Clone, Debug, Serialize, Deserialize, PartialEq)]
pub enum POp {
    Add { path: String, lines: Vec<String> },
    Delete { path: String },
    Update { path: String, move_to: Option<String>, hunks: Vec<Hunk> },
}

#[derive(Clone, Debug, Serialize, Deserialize, PartialEq)]
pub struct Scenario {
    /// initial files: path -> bytes (as lossless byte vectors)
    pub files: Vec<(String, Vec<u8>)>,
    /// directories that exist (a patch target may be one)
    pub dirs: Vec<String>,
    pub ops: Vec<POp>,
    /// textual corruption of the rendered document (None = well-formed)
    pub corrupt: Option<u32>,
    pub via_tool: bool,
}

pub struct C12;

const NAMES: &[&str] = &["a.txt", "b.txt", "src/c.rs", "src/deep/d.md", "e", "dir/f.txt", "g.txt"];

fn gen_lines(rng: &mut Rng, n: usize, repeat: bool) -> Vec<String> {
    let pool = ["alpha", "beta", "gamma", "", "  indented", "x = 1;", "fn main() {", "}", "délta ünï", "tab\tsep", "+plus", "-minus", " space"];
    (0..n)
        .map(|i| {
            if repeat {
                pool[rng.usize_below(4)].to_string()
            } else if rng.chance(1, 3) {
                pool[rng.usize_below(pool.len())].to_string()
            } else {
                format!("line {i} {}", rng.below(1000))
            }
        })
        .collect()
}

fn render_file(lines: &[String], crlf: bool, trailing: bool) -> Vec<u8> {
    if lines.is_empty() {
        return Vec::new();
    }
    let nl = if crlf { "\r\n" } else { "\n" };
    let mut s = lines.join(nl);
    if trailing {
        s.push_str(nl);
    }
    s.into_bytes()
}

/// In-memory model of ADR-0003 semantics.
#[derive(Clone, Debug, Default)]
struct Model {
    files: BTreeMap<String, Vec<u8>>,
    dirs: Vec<String>,
}

#[derive(Debug, Clone, PartialEq)]
enum Style {
    Lf,
    Crlf,
    Mixed,
}

fn style_of(text: &str) -> Style {
    let crlf = text.matches("\r\n").count();
    let lf = text.matches('\n').count();
    if crlf == 0 {
        Style::Lf
    } else if crlf == lf {
        Style::Crlf
    } else {
        Style::Mixed
    }
}

fn split(text: &str) -> (Vec<String>, bool) {
    let trailing = text.ends_with('\n');
    let mut lines: Vec<String> = text.split('\n').map(|l| l.strip_suffix('\r').unwrap_or(l).to_string()).collect();
    if trailing {
        lines.pop();
    }
    (lines, trailing)
}

impl Model {
    fn is_dir(&self, p: &str) -> bool {
        self.dirs.iter().any(|d| d == p) || self.files.keys().any(|f| f.starts_with(&format!("{p}/")))
    }
    fn parent_blocked(&self, p: &str) -> bool {
        // a parent component that is a regular file
        let mut cur = String::new();
        let comps: Vec<&str> = p.split('/').collect();
        for c in &comps[..comps.len() - 1] {
            if !cur.is_empty() {
                cur.push('/');
            }
            cur.push_str(c);
            if self.files.contains_key(&cur) {
                return true;
            }
        }
        false
    }

    /// Apply the operations in order; Err(op index) = the patch as a whole must fail.
    /// `unjudged` is set when success semantics are not specified (mixed line endings, hunks on
    /// an empty file, pure-insertion hunks).
    fn apply(&mut self, ops: &[POp], unjudged: &mut bool) -> Result<(), usize> {
        for (i, op) in ops.iter().enumerate() {
            match op {
                POp::Add { path, lines } => {
                    if self.files.contains_key(path) || self.is_dir(path) || self.parent_blocked(path) {
                        return Err(i);
                    }
                    let mut s = lines.join("\n");
                    if !s.is_empty() {
                        s.push('\n');
                    }
                    if lines.len() == 1 && lines[0].is_empty() {
                        // a single empty '+' line: "\n"? the format joins lines and appends a newline only when non-empty
                        *unjudged = true;
                    }
                    self.files.insert(path.clone(), s.into_bytes());
                }
                POp::Delete { path } => {
                    if self.files.remove(path).is_none() {
                        return Err(i);
                    }
                }
                POp::Update { path, move_to, hunks } => {
                    let Some(bytes) = self.files.get(path).cloned() else {
                        return Err(i);
                    };
                    let Ok(text) = String::from_utf8(bytes) else {
                        return Err(i);
                    };
                    let st = style_of(&text);
                    if st == Style::Mixed || text.is_empty() {
                        *unjudged = true;
                    }
                    let (mut lines, trailing) = split(&text);
                    let mut cursor = 0usize;
                    for h in hunks {
                        if h.before.is_empty() {
                            *unjudged = true;
                            lines.extend(h.after.iter().cloned());
                            cursor = lines.len();
                            continue;
                        }
                        let mut found = None;
                        if h.before.len() <= lines.len() {
                            for pos in cursor..=(lines.len() - h.before.len()) {
                                if lines[pos..pos + h.before.len()] == h.before[..] {
                                    found = Some(pos);
                                    break;
                                }
                            }
                        }
                        let Some(pos) = found else {
                            return Err(i);
                        };
                        lines.splice(pos..pos + h.before.len(), h.after.iter().cloned());
                        cursor = pos + h.after.len();
                    }
                    let nl = if st == Style::Crlf { "\r\n" } else { "\n" };
                    let mut out = lines.join(nl);
                    if trailing && !lines.is_empty() {
                        out.push_str(nl);
                    }
                    if lines.is_empty() {
                        out.clear();
                    }
                    self.files.insert(path.clone(), out.into_bytes());
                    if let Some(t) = move_to {
                        if self.files.contains_key(t) || self.is_dir(t) || self.parent_blocked(t) {
                            return Err(i);
                        }
                        let b = self.files.remove(path).unwrap();
                        self.files.insert(t.clone(), b);
                    }
                }
            }
        }
        Ok(())
    }
}

fn render(ops: &[POp]) -> String {
    let mut s = String::from("*** Begin Patch\n");
    for op in ops {
        match op {
            POp::Add { path, lines } => {
                s.push_str(&format!("*** Add File: {path}\n"));
                for l in lines {
                    s.push_str(&format!("+{l}\n"));
                }
            }
            POp::Delete { path } => s.push_str(&format!("*** Delete File: {path}\n")),
            POp::Update { path, move_to, hunks } => {
                s.push_str(&format!("*** Update File: {path}\n"));
                if let Some(t) = move_to {
                    s.push_str(&format!("*** Move to: {t}\n"));
                }
                for h in hunks {
                    s.push_str("@@\n");
                    // shared prefix/suffix rendered as context, the rest as -/+
                    let mut p = 0;
                    while p < h.before.len() && p < h.after.len() && h.before[p] == h.after[p] {
                        p += 1;
                    }
                    let mut q = 0;
                    while q < h.before.len() - p && q < h.after.len() - p && h.before[h.before.len() - 1 - q] == h.after[h.after.len() - 1 - q] {
                        q += 1;
                    }
                    for l in &h.before[..p] {
                        s.push_str(&format!(" {l}\n"));
                    }
                    for l in &h.before[p..h.before.len() - q] {
                        s.push_str(&format!("-{l}\n"));
                    }
                    for l in &h.after[p..h.after.len() - q] {
                        s.push_str(&format!("+{l}\n"));
                    }
                    for l in &h.before[h.before.len() - q..] {
                        s.push_str(&format!(" {l}\n"));
                    }
                }
            }
        }
    }
    s.push_str("*** End Patch\n");
    s
}

pub fn generate(run_seed: u64, tier: Tier) -> Scenario {
    let mut rng = Rng::derive(run_seed, "ops");
    let mut model = Model::default();
    let nfiles = rng.range(1, 5) as usize;
    let repeat = rng.chance(1, 3);
    for _ in 0..nfiles {
        let name = NAMES[rng.usize_below(NAMES.len())].to_string();
        if model.is_dir(&name) || model.parent_blocked(&name) {
            continue;
        }
        let bytes = match rng.below(12) {
            0 => Vec::new(),
            1 => vec![0xff, 0xfe, b'\n', 0x80],
            _ => {
                let n = rng.range(1, if tier == Tier::Quick { 14 } else { 40 }) as usize;
                let lines = gen_lines(&mut rng, n, repeat);
                render_file(&lines, rng.chance(1, 4), rng.chance(3, 4))
            }
        };
        model.files.insert(name, bytes);
    }
    let mut dirs = Vec::new();
    if rng.chance(1, 4) {
        let d = "adir".to_string();
        dirs.push(d.clone());
        model.dirs.push(d);
    }
    let files: Vec<(String, Vec<u8>)> = model.files.iter().map(|(k, v)| (k.clone(), v.clone())).collect();

    // operations, each generated against the model's current state so that later ops see
    // earlier ones; one chosen index may be made to fail
    let nops = rng.range(1, 6) as usize;
    let fail_at: Option<usize> = if rng.chance(1, 2) { Some(rng.usize_below(nops)) } else { None };
    let mut ops: Vec<POp> = Vec::new();
    let mut cur = model.clone();
    for i in 0..nops {
        let want_fail = fail_at == Some(i);
        let existing: Vec<String> = cur.files.keys().cloned().collect();
        let fresh = |rng: &mut Rng, cur: &Model| -> String {
            for _ in 0..20 {
                let n = NAMES[rng.usize_below(NAMES.len())].to_string();
                let n = if rng.chance(1, 3) { format!("new/{n}") } else { n };
                if !cur.files.contains_key(&n) && !cur.is_dir(&n) && !cur.parent_blocked(&n) {
                    return n;
                }
            }
            format!("fresh{}.txt", rng.below(10_000))
        };
        let op = match rng.below(10) {
            0..=2 => {
                let path = if want_fail && !existing.is_empty() {
                    match rng.below(3) {
                        0 if !cur.dirs.is_empty() => cur.dirs[0].clone(),
                        _ => existing[rng.usize_below(existing.len())].clone(),
                    }
                } else {
                    fresh(&mut rng, &cur)
                };
                let n = rng.below(5) as usize;
                POp::Add { path, lines: gen_lines(&mut rng, n, false) }
            }
            3 | 4 => {
                let path = if want_fail || existing.is_empty() { fresh(&mut rng, &cur) } else { existing[rng.usize_below(existing.len())].clone() };
                POp::Delete { path }
            }
            _ => {
                if existing.is_empty() {
                    POp::Delete { path: fresh(&mut rng, &cur) }
                } else {
                    let path = existing[rng.usize_below(existing.len())].clone();
                    let text = String::from_utf8(cur.files[&path].clone()).unwrap_or_default();
                    let (lines, _) = split(&text);
                    let mut hunks = Vec::new();
                    let mut work = lines.clone();
                    let mut cursor = 0usize;
                    for _ in 0..rng.range(1, 3) {
                        if work.len() <= cursor {
                            break;
                        }
                        let pos = cursor + rng.usize_below(work.len() - cursor);
                        let del = rng.usize_below((work.len() - pos).min(3) + 1);
                        let ctx_b = rng.usize_below(pos.saturating_sub(cursor).min(3) + 1);
                        let ctx_a = rng.usize_below((work.len() - pos - del).min(3) + 1);
                        let n = rng.below(3) as usize;
                        let ins = gen_lines(&mut rng, n, repeat);
                        let start = pos - ctx_b;
                        let end = pos + del + ctx_a;
                        let before: Vec<String> = work[start..end].to_vec();
                        if before.is_empty() {
                            continue;
                        }
                        let mut after: Vec<String> = work[start..pos].to_vec();
                        after.extend(ins.iter().cloned());
                        after.extend(work[pos + del..end].iter().cloned());
                        work.splice(start..end, after.iter().cloned());
                        cursor = start + after.len();
                        hunks.push(Hunk { before, after });
                    }
                    if hunks.is_empty() {
                        hunks.push(Hunk { before: vec!["no such line".into()], after: vec!["x".into()] });
                    }
                    let mut move_to = if rng.chance(1, 4) { Some(fresh(&mut rng, &cur)) } else { None };
                    if want_fail {
                        match rng.below(3) {
                            0 => {
                                let k = rng.usize_below(hunks.len());
                                hunks[k].before[0] = "context that is not there".into();
                            }
                            1 if existing.len() > 1 => {
                                move_to = Some(existing.iter().find(|e| **e != path).cloned().unwrap());
                            }
                            _ => {
                                let k = rng.usize_below(hunks.len());
                                hunks[k].before.push("trailing context that is not there".into());
                            }
                        }
                    }
                    POp::Update { path, move_to, hunks }
                }
            }
        };
        let mut unj = false;
        let _ = cur.apply(std::slice::from_ref(&op), &mut unj);
        ops.push(op);
    }
    Scenario {
        files,
        dirs,
        ops,
        corrupt: if rng.chance(1, 10) { Some(rng.below(6) as u32) } else { None },
        via_tool: rng.chance(1, 2),
    }
}

fn corrupt_doc(doc: &str, how: u32) -> String {
    match how {
        0 => doc.replacen("*** Begin Patch\n", "", 1),
        1 => doc.replacen("*** End Patch\n", "", 1),
        2 => doc.replacen("\n+", "\n?", 1),
        3 => doc.replacen("*** Update File: ", "*** Update File: /", 1).replacen("*** Add File: ", "*** Add File: ../", 1),
        4 => {
            let mut lines: Vec<&str> = doc.lines().collect();
            if lines.len() > 3 {
                lines.insert(lines.len() - 1, "garbage line");
            }
            lines.join("\n")
        }
        _ => doc.replace("*** Delete File: ", "*** Delete File:  "),
    }
}

fn tree_of(files: &[(String, Vec<u8>)]) -> Tree {
    files.iter().cloned().collect()
}

pub fn execute(sc: &Scenario, env: &Env) -> (Outcome, RunStats) {
    let mut stats = RunStats::default();
    let _ = std::fs::remove_dir_all(&env.root);
    let root = env.root.join("ws");
    std::fs::create_dir_all(&root).ok();
    wsenv::write_tree(&root, &tree_of(&sc.files));
    for d in &sc.dirs {
        let _ = std::fs::create_dir_all(root.join(d));
    }
    let before = snapshot_tree(&root, true);
    let mut model = Model { files: before.clone().into_iter().collect(), dirs: sc.dirs.clone() };
    let mut unjudged = false;
    let expect = model.apply(&sc.ops, &mut unjudged);
    let mut doc = render(&sc.ops);
    if let Some(h) = sc.corrupt {
        doc = corrupt_doc(&doc, h);
        unjudged = true;
    }
    // lines that look like directives inside content make the document ambiguous
    if sc.ops.iter().any(|o| match o {
        POp::Add { lines, .. } => lines.iter().any(|l| l.starts_with("*** ")),
        _ => false,
    }) {
        unjudged = true;
    }

    let (ok, changed, msg): (bool, Option<Vec<String>>, String) = if sc.via_tool {
        let mut te = match ToolEnv::new(&root) {
            Ok(t) => t,
            Err(e) => return (Outcome::Harness(e), stats),
        };
        let ev = te.run_tool("apply_patch", json!({"patch": doc}));
        (tool_exit(&ev) == Some(0), None, tool_text(&ev))
    } else {
        match rip_workspace::Workspace::new(&root) {
            Ok(ws) => match ws.apply_patch(&doc) {
                Ok(r) => (true, Some(r.changed_files), String::new()),
                Err(e) => (false, None, e.to_string()),
            },
            Err(e) => return (Outcome::Harness(format!("workspace: {e}")), stats),
        }
    };
    let after = snapshot_tree(&root, true);
    stats.bump(if ok { "patch_succeeded" } else { "patch_failed" }, 1);
    stats.bump(if sc.via_tool { "via_tool" } else { "via_api" }, 1);
    if sc.corrupt.is_some() {
        stats.bump("fault:malformed_document", 1);
    }
    if expect.is_err() {
        stats.bump("fault:operation_made_to_fail", 1);
        stats.bump(&format!("failing_op_index:{}", expect.clone().unwrap_err()), 1);
    }
    stats.case_hash = fnv1a(format!("{:?}{:?}{}{:?}", sc.ops, sc.files.len(), ok, sc.corrupt).as_bytes());
    stats.nontrivial = sc.ops.len() >= 2;
    let diff = |a: &Tree, b: &Tree| -> String {
        let mut out = Vec::new();
        for (k, v) in a {
            match b.get(k) {
                None => out.push(format!("{k}: missing afterwards")),
                Some(w) if w != v => out.push(format!("{k}: {:?} -> {:?}", String::from_utf8_lossy(v), String::from_utf8_lossy(w))),
                _ => {}
            }
        }
        for k in b.keys() {
            if !a.contains_key(k) {
                out.push(format!("{k}: new file {:?}", String::from_utf8_lossy(&b[k])));
            }
        }
        let s = out.join("; ");
        if s.len() > 700 {
            format!("{}…", s.chars().take(700).collect::<String>())
        } else {
            s
        }
    };
    // all-or-nothing
    if !ok && after != before {
        return (
            Outcome::Violation(Violation {
                class: "failed_patch_changed_workspace".into(),
                signature: format!("failed_patch_changed_workspace:{}", match &expect { Err(i) => format!("op{}of{}", i, sc.ops.len()).replace(|c: char| c.is_ascii_digit(), "N"), Ok(()) => "unexpected_failure".into() }),
                detail: format!("patch failed ({msg}) but the workspace changed: {}", diff(&before, &after)),
            }),
            stats,
        );
    }
    if !unjudged {
        match (&expect, ok) {
            (Ok(()), true) => {
                let want: Tree = model.files.clone().into_iter().collect();
                if after != want {
                    return (
                        Outcome::Violation(Violation {
                            class: "wrong_result".into(),
                            signature: "wrong_result".into(),
                            detail: format!("patch succeeded but the workspace differs from performing the operations in order: (expected -> actual) {}", diff(&want, &after)),
                        }),
                        stats,
                    );
                }
                if let Some(ch) = changed {
                    let mut named: Vec<String> = Vec::new();
                    for o in &sc.ops {
                        match o {
                            POp::Add { path, .. } | POp::Delete { path } => named.push(path.clone()),
                            POp::Update { path, move_to, .. } => {
                                named.push(path.clone());
                                if let Some(t) = move_to {
                                    named.push(t.clone());
                                }
                            }
                        }
                    }
                    named.sort();
                    named.dedup();
                    if ch != named {
                        return (
                            Outcome::Violation(Violation {
                                class: "changed_files_wrong".into(),
                                signature: "changed_files_wrong".into(),
                                detail: format!("reported changed files {ch:?}, files named by the patch {named:?}"),
                            }),
                            stats,
                        );
                    }
                }
                stats.bump("success_semantics_judged", 1);
            }
            (Err(i), true) => {
                return (
                    Outcome::Violation(Violation {
                        class: "accepted_inapplicable_patch".into(),
                        signature: "accepted_inapplicable_patch".into(),
                        detail: format!("operation {i} ({:?}) cannot apply, yet the patch succeeded: {}", sc.ops[*i], diff(&before, &after)),
                    }),
                    stats,
                );
            }
            (Ok(()), false) => {
                return (
                    Outcome::Violation(Violation {
                        class: "refused_applicable_patch".into(),
                        signature: "refused_applicable_patch".into(),
                        detail: format!("every operation applies in order, yet the patch failed: {msg}"),
                    }),
                    stats,
                );
            }
            (Err(_), false) => stats.bump("atomic_failures_judged", 1),
        }
    } else if !ok {
        stats.bump("atomic_failures_judged", 1);
    }
    (Outcome::Ok, stats)
}

impl Check for C12 {
    fn id(&self) -> &'static str {
        "C12"
    }
    fn level(&self) -> &'static str {
        "exploration"
    }
    fn technique(&self) -> &'static str {
        "seeded model-based refinement (reduced form of the simulation family: generator with failing-operation injection at every index, in-memory patch model, replay and minimisation; no scheduler)"
    }
    fn budget(&self, tier: Tier) -> Budget {
        match tier {
            Tier::Quick => Budget { runs: 60_000, secs: 30 },
            Tier::Thorough => Budget { runs: 3_000_000, secs: 600 },
        }
    }
    fn generate(&self, run_seed: u64, tier: Tier) -> Value {
        serde_json::to_value(generate(run_seed, tier)).unwrap()
    }
    fn execute(&self, scenario: &Value, env: &Env) -> (Outcome, RunStats) {
        match serde_json::from_value::<Scenario>(scenario.clone()) {
            Ok(sc) => execute(&sc, env),
            Err(e) => (Outcome::Harness(format!("bad scenario: {e}")), RunStats::default()),
        }
    }
    fn shrink(&self, scenario: &Value) -> Vec<Value> {
        let Ok(sc) = serde_json::from_value::<Scenario>(scenario.clone()) else {
            return Vec::new();
        };
        let mut out = Vec::new();
        for k in (0..sc.ops.len()).rev() {
            if sc.ops.len() > 1 {
                let mut c = sc.clone();
                c.ops.remove(k);
                out.push(c);
            }
        }
        for k in (0..sc.files.len()).rev() {
            let mut c = sc.clone();
            c.files.remove(k);
            out.push(c);
        }
        for k in 0..sc.ops.len() {
            if let POp::Update { hunks, .. } = &sc.ops[k] {
                for h in (0..hunks.len()).rev() {
                    if hunks.len() > 1 {
                        let mut c = sc.clone();
                        if let POp::Update { hunks, .. } = &mut c.ops[k] {
                            hunks.remove(h);
                        }
                        out.push(c);
                    }
                }
            }
        }
        if sc.via_tool {
            let mut c = sc.clone();
            c.via_tool = false;
            out.push(c);
        }
        out.into_iter().map(|s| serde_json::to_value(s).unwrap()).collect()
    }
    fn rule(&self) -> String {
        "one evaluation = one generated workspace (1-5 files: LF/CRLF, with/without final newline, empty, non-UTF-8, nested, a directory) and one patch of 1-6 operations (add, delete, update with 1-3 hunks with 0-3 context lines incl. repeated lines, update+move) generated against the evolving model so later operations re-use paths touched by earlier ones; in half the runs one operation index (uniform over positions) is made to fail (add over existing file or directory, delete missing, context missing, move onto existing); a tenth of the documents are textually corrupted; applied through Workspace::apply_patch or the apply_patch tool; the full recursive listing + bytes before/after is compared with the model; distinct = hash of (files, operations, outcome); non-trivial = at least 2 operations".into()
    }
    fn assumptions(&self) -> Vec<String> {
        vec![
            "hunks are located by forward search from the end of the previous hunk (the documented cursor-forward rule)".into(),
            "success semantics are not judged for: files with mixed line endings, hunks applied to an empty file, pure-insertion hunks, corrupted documents, content lines that look like directives; atomicity is always judged".into(),
            "new empty directories are not files and are ignored".into(),
        ]
    }
    fn components(&self) -> Value {
        json!({"rip-workspace patch parser/applier, apply_patch tool, tool runner, auto-checkpoint hook": "real", "file system": "real tmpfs", "scheduling/clock": "not involved", "reference": "in-memory patch model (harness)"})
    }
    fn extra_coverage(&self, c: &BTreeMap<String, u64>) -> Value {
        let idx: BTreeMap<&String, &u64> = c.iter().filter(|(k, _)| k.starts_with("failing_op_index:")).collect();
        json!({"fault_counts": {"operation_made_to_fail": c.get("fault:operation_made_to_fail").copied().unwrap_or(0), "malformed_document": c.get("fault:malformed_document").copied().unwrap_or(0)},
               "failing_operation_positions": idx, "success_semantics_judged": c.get("success_semantics_judged").copied().unwrap_or(0), "atomic_failures_judged": c.get("atomic_failures_judged").copied().unwrap_or(0)})
    }
}
