//! C15 — provider stream decoding is lossless and chunking-invariant.
//!
//! The "network" is the chunk sequence: the real SSE pipe (UTF-8 carry-over, decoder, frame
//! mapper, seq offsetting) is driven directly with exact chunk sequences. For each generated
//! stream EVERY two-chunk split position is enumerated, plus one-byte-at-a-time delivery and
//! seeded multi-split partitions; the frames must equal the one-chunk delivery and a from-scratch
//! line-based SSE model run over the whole byte stream.

use std::collections::BTreeMap;

use serde::{Deserialize, Serialize};
use serde_json::{json, Value};

use crate::driver::{Budget, Check, Env, Outcome, RunStats, Tier, Violation};
use crate::prng::{fnv1a, Rng};

#[derive(Clone, Debug, Serialize, Deserialize, PartialEq)]
pub struct Scenario {
    pub stream: Vec<u8>,
    pub seq_start: u64,
    pub compat: bool,
    pub partition_seed: u64,
    /// evaluate only this split (set by the minimiser): list of cut offsets
    #[serde(default)]
    pub only_partition: Option<Vec<usize>>,
}

pub struct C15;

fn gen_text(rng: &mut Rng) -> String {
    let pool = ["hello", " wörld", "日本語", "🙂", "a\\nb", "", " lead", "trail ", "x", "{json}", "Ünï"];
    let n = rng.range(1, 3);
    (0..n).map(|_| pool[rng.usize_below(pool.len())]).collect::<Vec<_>>().join("")
}

pub fn gen_stream(rng: &mut Rng, odd: &mut Rng, max_events: u64) -> Vec<u8> {
    let crlf_stream = rng.chance(1, 3);
    let mixed = rng.chance(1, 10);
    let mut out: Vec<u8> = Vec::new();
    let n = rng.range(1, max_events);
    let done_at: Option<u64> = match rng.below(6) {
        0 => None,
        1 => Some(rng.below(n)),
        _ => Some(n - 1),
    };
    let mut seqno = 0;
    for i in 0..n {
        let nl = |rng: &mut Rng| -> &'static str {
            if mixed {
                if rng.chance(1, 2) {
                    "\r\n"
                } else {
                    "\n"
                }
            } else if crlf_stream {
                "\r\n"
            } else {
                "\n"
            }
        };
        if rng.chance(1, 6) {
            out.extend_from_slice(format!(": comment {i}{}", nl(rng)).as_bytes());
        }
        if rng.chance(1, 12) {
            out.extend_from_slice(format!("id: {i}{}", nl(rng)).as_bytes());
        }
        let is_done = done_at == Some(i);
        let (name, data): (Option<String>, String) = if is_done {
            (None, "[DONE]".into())
        } else {
            seqno += 1;
            match rng.below(12) {
                0..=4 => {
                    let v = json!({"type": "response.output_text.delta", "sequence_number": seqno, "item_id": "msg_1", "output_index": 0, "content_index": 0, "delta": gen_text(rng), "logprobs": []});
                    (Some("response.output_text.delta".into()), v.to_string())
                }
                5 => (Some("response.created".into()), json!({"type": "response.created", "sequence_number": seqno, "response": {"id": "resp_1"}}).to_string()),
                6 => (None, json!({"type": "response.output_item.added", "sequence_number": seqno, "output_index": 0, "item": {"type": "function_call", "call_id": "call_1", "name": "ls", "arguments": "{}", "status": "in_progress"}}).to_string()),
                7 => (Some("weird".into()), "{not json".into()),
                8 => (None, "plain text".into()),
                9 => (Some("response.output_text.delta".into()), json!({"type": "response.output_text.delta", "delta": 5}).to_string()),
                10 => (Some("mismatch".into()), json!({"type": "response.output_text.delta", "sequence_number": seqno, "item_id": "m", "output_index": 0, "content_index": 0, "delta": gen_text(rng), "logprobs": []}).to_string()),
                _ => (None, json!({"type": "response.completed", "sequence_number": seqno, "response": {"id": "resp_1", "output": []}}).to_string()),
            }
        };
        // own sub-stream: 1 in 8 events is of a kind a decoder may be tempted to treat specially —
        // keep-alives, errors, types it does not know, no type at all; each is one server-sent event
        // and owes one provider-event frame like any other
        let (name, data) = if !is_done && odd.chance(1, 8) {
            match odd.below(6) {
                0 => (None, json!({"type": "ping"}).to_string()),
                1 => (Some("ping".to_string()), json!({"type": "ping", "sequence_number": seqno}).to_string()),
                2 => (Some("keepalive".to_string()), "{}".to_string()),
                3 => (Some("error".to_string()), json!({"type": "error", "sequence_number": seqno, "code": "server_error", "message": "upstream hiccup", "param": null}).to_string()),
                4 => (None, json!({"type": "response.in_progress", "sequence_number": seqno, "response": {"id": "resp_1"}}).to_string()),
                _ => (None, json!({"type": "x.vendor.extension", "anything": [1, 2, 3]}).to_string()),
            }
        } else {
            (name, data)
        };
        if let Some(nm) = &name {
            if rng.chance(4, 5) {
                let sp = if rng.chance(1, 4) { "" } else { " " };
                out.extend_from_slice(format!("event:{sp}{nm}{}", nl(rng)).as_bytes());
            }
        }
        // multi-line data for pretty JSON now and then
        let sp = if rng.chance(1, 5) { "" } else { " " };
        // empty data lines: an event whose only data line is empty, or a payload preceded by one
        // (a JSON text may start with a line break)
        if !is_done && rng.chance(1, 14) {
            out.extend_from_slice(format!("data:{}", nl(rng)).as_bytes());
            if rng.chance(1, 2) {
                out.extend_from_slice(nl(rng).as_bytes());
                continue;
            }
        }
        if !is_done && rng.chance(1, 8) && data.starts_with('{') && data.contains(",\"") {
            let cut = data.find(",\"").unwrap() + 1;
            out.extend_from_slice(format!("data:{sp}{}{}", &data[..cut], nl(rng)).as_bytes());
            out.extend_from_slice(format!("data:{sp}{}{}", &data[cut..], nl(rng)).as_bytes());
        } else {
            out.extend_from_slice(format!("data:{sp}{data}{}", nl(rng)).as_bytes());
        }
        let last = i + 1 == n;
        if last && rng.chance(1, 5) {
            // missing final blank line
        } else {
            out.extend_from_slice(nl(rng).as_bytes());
        }
    }
    // invalid UTF-8 inside a data payload now and then (never at the very end of the stream)
    if rng.chance(1, 6) && out.len() > 20 {
        let data_positions: Vec<usize> = out.windows(6).enumerate().filter(|(_, w)| w.starts_with(b"delta\"")).map(|(i, _)| i + 9).filter(|p| *p + 2 < out.len()).collect();
        if let Some(p) = data_positions.first() {
            let bad: &[u8] = match rng.below(3) {
                0 => &[0xff],
                1 => &[0xc3],
                _ => &[0xe2, 0x82],
            };
            for (k, b) in bad.iter().enumerate() {
                out.insert(p + k, *b);
            }
        }
    }
    out
}

pub fn generate(run_seed: u64, tier: Tier) -> Scenario {
    let mut rng = Rng::derive(run_seed, "ops");
    let max_events = if tier == Tier::Quick { 4 } else { 8 };
    let mut odd = Rng::derive(run_seed, "c15:odd-types");
    let mut stream = gen_stream(&mut rng, &mut odd, max_events);
    let cap = if tier == Tier::Quick { 420 } else { 1200 };
    if stream.len() > cap {
        // keep whole lines
        let cut = stream[..cap].iter().rposition(|b| *b == b'\n').map(|p| p + 1).unwrap_or(cap);
        stream.truncate(cut);
    }
    Scenario {
        stream,
        seq_start: *rng.pick(&[0u64, 1, 7, 1000]),
        compat: rng.chance(1, 3),
        partition_seed: rng.next_u64(),
        only_partition: None,
    }
}

/// From-scratch line-based SSE model over the whole byte stream (WHATWG event-stream rules for
/// LF/CRLF streams; fields other than event/data ignored), stopping at the terminal marker.
pub fn model_frames(stream: &[u8], seq_start: u64) -> Vec<Value> {
    let text = String::from_utf8_lossy(stream).to_string();
    let mut frames: Vec<Value> = Vec::new();
    let mut seq = seq_start;
    let mut ev_name: Option<String> = None;
    let mut data: Vec<String> = Vec::new();
    let mut lines: Vec<&str> = text.split('\n').collect();
    // a final line without terminator is still a line once the stream ends; an event that is
    // still pending at the end of the stream (no blank line after it) is discarded (WHATWG
    // event-stream interpretation, and what the repository's own tests assert)
    if text.ends_with('\n') {
        lines.pop();
    }
    for raw_line in lines {
        let line = raw_line.strip_suffix('\r').unwrap_or(raw_line);
        if line.is_empty() {
            if !data.is_empty() {
                let payload = data.join("\n");
                if payload == "[DONE]" {
                    frames.push(json!({"seq": seq, "type": "provider_event", "status": "done", "raw": "[DONE]"}));
                    return frames;
                }
                match serde_json::from_str::<Value>(&payload) {
                    Ok(v) => {
                        frames.push(json!({"seq": seq, "type": "provider_event", "status": "event", "event_name": ev_name, "data": v}));
                        seq += 1;
                        if v.get("type").and_then(|t| t.as_str()) == Some("response.output_text.delta") {
                            if let Some(d) = v.get("delta").and_then(|d| d.as_str()) {
                                frames.push(json!({"seq": seq, "type": "output_text_delta", "delta": d}));
                                seq += 1;
                            }
                        }
                    }
                    Err(_) => {
                        frames.push(json!({"seq": seq, "type": "provider_event", "status": "invalid_json", "event_name": ev_name, "raw": payload}));
                        seq += 1;
                    }
                }
                data.clear();
                ev_name = None;
            }
            continue;
        }
        if line.starts_with(':') {
            continue;
        }
        let (field, value) = match line.find(':') {
            Some(p) => (&line[..p], line[p + 1..].strip_prefix(' ').unwrap_or(&line[p + 1..])),
            None => (line, ""),
        };
        match field {
            "event" => ev_name = if value.trim().is_empty() { None } else { Some(value.trim().to_string()) },
            "data" => data.push(value.to_string()),
            _ => {}
        }
    }
    frames
}

fn project(ev: &rip_kernel::Event) -> Value {
    let v = serde_json::to_value(ev).unwrap_or(Value::Null);
    match v.get("type").and_then(|t| t.as_str()) {
        Some("provider_event") => {
            let status = v["status"].as_str().unwrap_or("");
            match status {
                "done" => json!({"seq": v["seq"], "type": "provider_event", "status": "done", "raw": v["raw"]}),
                "invalid_json" => json!({"seq": v["seq"], "type": "provider_event", "status": "invalid_json", "event_name": v["event_name"], "raw": v["raw"]}),
                _ => json!({"seq": v["seq"], "type": "provider_event", "status": "event", "event_name": v["event_name"], "data": v["data"]}),
            }
        }
        Some("output_text_delta") => json!({"seq": v["seq"], "type": "output_text_delta", "delta": v["delta"]}),
        _ => v,
    }
}

/// Full canonical form for the chunking comparison (everything except ids and timestamps).
fn canon_full(ev: &rip_kernel::Event) -> String {
    let mut v = serde_json::to_value(ev).unwrap_or(Value::Null);
    if let Some(o) = v.as_object_mut() {
        o.remove("id");
        o.remove("timestamp_ms");
    }
    crate::model::canon(&v)
}

pub fn execute(sc: &Scenario, env: &Env) -> (Outcome, RunStats) {
    let mut stats = RunStats::default();
    let _ = &env.root;
    let rt = match tokio::runtime::Builder::new_current_thread().enable_all().build() {
        Ok(r) => r,
        Err(e) => return (Outcome::Harness(format!("runtime: {e}")), stats),
    };
    let log = match rip_log::EventLog::new("/dev/null") {
        Ok(l) => l,
        Err(e) => return (Outcome::Harness(format!("log: {e}")), stats),
    };
    let run = |chunks: &[Vec<u8>]| -> (Vec<rip_kernel::Event>, u64, bool) { rt.block_on(ripd::verif_api::openresponses_pipe_frames("sess", sc.seq_start, chunks, sc.compat, &log)) };
    let s = &sc.stream;
    let n = s.len();
    let (whole, seq_after, _) = run(&[s.clone()]);
    let whole_c: Vec<String> = whole.iter().map(canon_full).collect();
    stats.case_hash = fnv1a(s) ^ sc.seq_start;
    stats.nontrivial = whole.len() >= 2;
    stats.bump("frames_in_one_chunk_delivery", whole.len() as u64);
    stats.bump("stream_bytes", n as u64);

    // model comparison (one-chunk delivery)
    let model = model_frames(s, sc.seq_start);
    let got: Vec<Value> = whole.iter().map(project).collect();
    if got != model {
        let idx = got.iter().zip(model.iter()).position(|(a, b)| a != b).unwrap_or(got.len().min(model.len()));
        return (
            Outcome::Violation(Violation {
                class: "frames_differ_from_sse_model".into(),
                signature: format!("frames_differ_from_sse_model:{}", if got.len() != model.len() { "count" } else { "content" }),
                detail: format!(
                    "stream {:?}: {} frames, model {} frames; first difference at #{idx}: got {} ; model {}",
                    String::from_utf8_lossy(s),
                    got.len(),
                    model.len(),
                    got.get(idx).map(|v| v.to_string()).unwrap_or_else(|| "nothing".into()),
                    model.get(idx).map(|v| v.to_string()).unwrap_or_else(|| "nothing".into())
                ),
            }),
            stats,
        );
    }
    // numbering continues without gap
    for (i, f) in whole.iter().enumerate() {
        if f.seq != sc.seq_start + i as u64 {
            return (Outcome::Violation(Violation { class: "seq_gap".into(), signature: "seq_gap_in_provider_frames".into(), detail: format!("frame #{i} has seq {}, expected {}", f.seq, sc.seq_start + i as u64) }), stats);
        }
    }
    if seq_after != sc.seq_start + whole.len() as u64 {
        return (Outcome::Violation(Violation { class: "seq_gap".into(), signature: "seq_counter_wrong_after_stream".into(), detail: format!("seq after the stream is {seq_after}, {} frames from {}", whole.len(), sc.seq_start) }), stats);
    }
    // output text = concatenation of the provider's text deltas
    let text_model: String = model.iter().filter(|f| f["type"] == json!("output_text_delta")).map(|f| f["delta"].as_str().unwrap_or("").to_string()).collect();
    let text_got: String = whole.iter().filter_map(|e| match &e.kind { rip_kernel::EventKind::OutputTextDelta { delta } => Some(delta.clone()), _ => None }).collect();
    if text_model != text_got {
        return (Outcome::Violation(Violation { class: "output_text_wrong".into(), signature: "output_text_wrong".into(), detail: format!("{text_got:?} vs {text_model:?}") }), stats);
    }

    // partitions
    let mut partitions: Vec<Vec<usize>> = Vec::new();
    if let Some(p) = &sc.only_partition {
        partitions.push(p.clone());
    } else {
        for i in 1..n {
            partitions.push(vec![i]);
        }
        partitions.push((1..n).collect()); // one byte at a time
        let mut rng = Rng::derive(sc.partition_seed, "partitions");
        for _ in 0..6 {
            let k = rng.range(2, 8.min(n.max(3) as u64 - 1)) as usize;
            let mut cuts: Vec<usize> = (0..k).map(|_| rng.range(1, n.max(2) as u64 - 1) as usize).collect();
            cuts.sort();
            cuts.dedup();
            partitions.push(cuts);
        }
    }
    for cuts in &partitions {
        let mut chunks: Vec<Vec<u8>> = Vec::new();
        let mut prev = 0;
        for &c in cuts {
            if c > prev && c < n {
                chunks.push(s[prev..c].to_vec());
                prev = c;
            }
        }
        chunks.push(s[prev..].to_vec());
        let (frames, _, _) = run(&chunks);
        stats.evals += 1;
        stats.bump("fault:chunk_splits", (chunks.len() - 1) as u64);
        let fc: Vec<String> = frames.iter().map(canon_full).collect();
        if fc != whole_c {
            let idx = fc.iter().zip(whole_c.iter()).position(|(a, b)| a != b).unwrap_or(fc.len().min(whole_c.len()));
            let where_ = if cuts.len() == 1 {
                let c = cuts[0];
                let ctx = |a: usize, b: usize| String::from_utf8_lossy(&s[a..b]).to_string();
                let left = ctx(c.saturating_sub(12), c);
                let right = ctx(c, (c + 12).min(n));
                let kind = if s[c - 1] == b'\r' && s[c] == b'\n' {
                    "between_cr_and_lf"
                } else if (s[c] & 0xC0) == 0x80 {
                    "inside_multibyte_char"
                } else if s[c - 1] == b'\n' {
                    "at_line_start"
                } else {
                    "inside_line"
                };
                (kind.to_string(), format!("split at byte {c} ({kind}): …{left:?} | {right:?}…"))
            } else {
                ("multi".to_string(), format!("{} cuts {:?}", cuts.len(), &cuts[..cuts.len().min(12)]))
            };
            return (
                Outcome::Violation(Violation {
                    class: "chunking_changes_frames".into(),
                    signature: format!("chunking_changes_frames:{}", where_.0),
                    detail: format!(
                        "{}: {} frames vs {} for one-chunk delivery; first difference at #{idx}: {} vs {}",
                        where_.1,
                        fc.len(),
                        whole_c.len(),
                        fc.get(idx).cloned().unwrap_or_else(|| "nothing".into()),
                        whole_c.get(idx).cloned().unwrap_or_else(|| "nothing".into())
                    ),
                }),
                stats,
            );
        }
    }
    (Outcome::Ok, stats)
}

impl Check for C15 {
    fn id(&self) -> &'static str {
        "C15"
    }
    fn level(&self) -> &'static str {
        "fault_enumeration"
    }
    fn technique(&self) -> &'static str {
        "deterministic simulation of the transport as a chunk sequence: seeded SSE byte streams, exhaustive enumeration of every two-chunk split per stream plus one-byte and seeded multi-split deliveries through the real pipe; oracles = one-chunk delivery and a from-scratch SSE model"
    }
    fn budget(&self, tier: Tier) -> Budget {
        match tier {
            Tier::Quick => Budget { runs: 2_400, secs: 45 },
            Tier::Thorough => Budget { runs: 120_000, secs: 1200 },
        }
    }
    fn generate(&self, run_seed: u64, tier: Tier) -> Value {
        serde_json::to_value(generate(run_seed, tier)).unwrap()
    }
    fn execute(&self, scenario: &Value, env: &Env) -> (Outcome, RunStats) {
        match serde_json::from_value::<Scenario>(scenario.clone()) {
            Ok(sc) => execute(&sc, env),
            Err(e) => (Outcome::Harness(format!("bad scenario: {e}")), RunStats::default()),
        }
    }
    fn shrink(&self, scenario: &Value) -> Vec<Value> {
        let Ok(sc) = serde_json::from_value::<Scenario>(scenario.clone()) else {
            return Vec::new();
        };
        let mut out = Vec::new();
        // drop whole lines
        let mut starts: Vec<usize> = vec![0];
        for (i, b) in sc.stream.iter().enumerate() {
            if *b == b'\n' && i + 1 < sc.stream.len() {
                starts.push(i + 1);
            }
        }
        for w in (0..starts.len()).rev() {
            let a = starts[w];
            let b = starts.get(w + 1).copied().unwrap_or(sc.stream.len());
            if b - a < sc.stream.len() {
                let mut c = sc.clone();
                c.only_partition = None;
                c.stream.drain(a..b);
                out.push(c);
            }
        }
        if sc.seq_start != 0 {
            let mut c = sc.clone();
            c.seq_start = 0;
            out.push(c);
        }
        out.into_iter().map(|s| serde_json::to_value(s).unwrap()).collect()
    }
    fn rule(&self) -> String {
        "one run = one seeded SSE byte stream of 1-8 events (LF, CRLF or mixed; comments; id fields; event names incl. mismatching; single- and multi-line data incl. empty data lines (alone, or before the payload); text deltas with multi-byte unicode; invalid JSON; schema-invalid events; [DONE] at the end, in the middle or absent, with bytes after it; missing final blank line; invalid UTF-8 inside a payload), up to 420 bytes (quick) / 1200 (thorough); evaluations = chunk partitions delivered through the real pipe: EVERY two-chunk split position of the stream (exhaustive per stream — includes inside multi-byte characters, between CR and LF, inside field names), one byte at a time, and 6 seeded multi-split partitions; each must produce frames identical (all fields but ids/timestamps) to the one-chunk delivery, which in turn must equal the SSE model (one provider frame per event incl. the terminal marker and invalid-JSON events with raw payload, derived text deltas, contiguous seq from the start offset, text = concatenation of deltas); distinct = hash of the stream; non-trivial = at least 2 frames".into()
    }
    fn assumptions(&self) -> Vec<String> {
        vec![
            "lone CR line endings and streams that end inside a multi-byte character are not generated (not specified by the contract)".into(),
            "validation error lists inside provider frames are compared across chunkings but not against the model".into(),
            "the body-reading loop of stream_openresponses_request is mirrored by the verif_api driver; the real loop runs in the whole-engine checks (C07/C16)".into(),
        ]
    }
    fn components(&self) -> Value {
        json!({"SseDecoder, EventFrameMapper, UTF-8 carry-over (push_bytes), seq offsetting": "real", "body-reading loop": "mirror in verif_api (same calls)", "network": "simulated as an explicit chunk sequence", "event log": "/dev/null", "reference": "from-scratch SSE model (harness)"})
    }
    fn extra_coverage(&self, c: &BTreeMap<String, u64>) -> Value {
        json!({"streams": c.get("frames_in_one_chunk_delivery").map(|_| ()).map(|_| 0).unwrap_or(0), "fault_counts": {"chunk_splits_injected": c.get("fault:chunk_splits").copied().unwrap_or(0)}, "stream_bytes_total": c.get("stream_bytes").copied().unwrap_or(0)})
    }
    fn exhaustive(&self) -> bool {
        false
    }
}
