//! C13 — no path argument can reach outside the workspace root.
//!
//! Reduced form: input generation over a path grammar, but the oracle is the simulator's libc
//! seam in monitor mode — the only instrument here that sees reads and transient writes outside
//! the root — plus a sentinel tree around the root and the checkpoint store, compared before and
//! after every request.

use std::collections::BTreeMap;
use std::path::PathBuf;

use rip_kernel::EventKind;
use serde::{Deserialize, Serialize};
use serde_json::{json, Value};

use crate::driver::{Budget, Check, Env, Outcome, RunStats, Tier, Violation};
use crate::prng::{fnv1a, Rng};
use crate::wsenv::{self, normalize, snapshot_tree, tool_exit, tool_text, ToolEnv};

#[derive(Clone, Debug, Serialize, Deserialize, PartialEq)]
pub enum Tool {
    Read,
    Write,
    Ls,
    Grep,
    PatchAdd,
    PatchUpdate,
    PatchDelete,
    PatchMove,
    CheckpointCreate,
    Rewind,
    BashCwd,
}

#[derive(Clone, Debug, Serialize, Deserialize, PartialEq)]
pub struct Req {
    pub tool: Tool,
    /// path template; `{ROOT}`, `{OUT}`, `{SIB}`, `{CWD}` are replaced by absolute directories
    pub path: String,
}

#[derive(Clone, Debug, Serialize, Deserialize, PartialEq)]
pub struct Scenario {
    pub cwd_is_root: bool,
    pub reqs: Vec<Req>,
    /// working-directory strings for background tasks started through the daemon's router
    /// (`POST /tasks`); `{ROOT}` is replaced by the absolute workspace root
    #[serde(default)]
    pub task_cwds: Vec<String>,
}

pub struct C13;

fn gen_path(rng: &mut Rng) -> String {
    let comp = |rng: &mut Rng| -> String {
        match rng.below(16) {
            0 | 1 => "..".into(),
            2 => ".".into(),
            3 => "".into(),
            4..=6 => "a.txt".into(),
            7 | 8 => "sub".into(),
            9 => "b.txt".into(),
            10 => "ünï cødé".into(),
            11 => " ..".into(),
            12 => ".. ".into(),
            13 => "x".repeat(rng.range(100, 300) as usize),
            14 => "secret.txt".into(),
            _ => "new.txt".into(),
        }
    };
    match rng.below(22) {
        0 => "{OUT}/secret.txt".into(),
        1 => "{SIB}/b.txt".into(),
        2 => "{ROOT}/a.txt".into(),
        3 => "{ROOT}/sub/../../outside/secret.txt".into(),
        4 => "../outside/secret.txt".into(),
        5 => "sub/../../outside/secret.txt".into(),
        6 => "../ws-backup/b.txt".into(),
        7 => " ../outside/secret.txt".into(),
        8 => "/etc/hostname".into(),
        9 => "{ROOT}/../outside/d/inner.txt".into(),
        10 => "".into(),
        11 => "{CWD}/c.txt".into(),
        12 => "../cwd/c.txt".into(),
        // backslashes are ordinary file-name characters here: these are names INSIDE the root
        13 => "..\\outside\\secret.txt".into(),
        14 => "sub\\..\\..\\outside\\d\\inner.txt".into(),
        _ => {
            let n = rng.range(1, 5);
            let mut parts: Vec<String> = (0..n).map(|_| comp(rng)).collect();
            if rng.chance(1, 6) {
                parts.insert(0, "".into()); // leading slash => absolute
            }
            let mut s = parts.join(if rng.chance(1, 8) { "//" } else { "/" });
            if rng.chance(1, 6) {
                s.push('/');
            }
            if rng.chance(1, 12) {
                s = format!(" {s}");
            }
            if rng.chance(1, 12) {
                s = format!("{s} ");
            }
            s
        }
    }
}

pub fn generate(run_seed: u64, tier: Tier) -> Scenario {
    let mut rng = Rng::derive(run_seed, "ops");
    let n = rng.range(2, if tier == Tier::Quick { 8 } else { 16 }) as usize;
    let tools = [Tool::Read, Tool::Write, Tool::Ls, Tool::Grep, Tool::PatchAdd, Tool::PatchUpdate, Tool::PatchDelete, Tool::PatchMove, Tool::CheckpointCreate, Tool::CheckpointCreate, Tool::Rewind, Tool::BashCwd, Tool::Write];
    let reqs = (0..n)
        .map(|_| Req {
            tool: tools[rng.usize_below(tools.len())].clone(),
            path: gen_path(&mut rng),
        })
        .collect();
    let cwd_is_root = rng.chance(1, 2);
    // task working directories (own sub-stream): 1 in 5 scenarios
    let mut t = Rng::derive(run_seed, "c13:task-cwd");
    let mut task_cwds = Vec::new();
    if t.chance(1, 5) {
        let pool = [
            ".", "sub", "sub/", "./sub", "sub//", "sub/.", "sub/../sub", "..", "../ws-old", "../ws-old/", "sub/../../ws-old", "{ROOT}", "{ROOT}/", "{ROOT}/sub", "{ROOT}-old", "{ROOT}2", "{ROOT}/../ws-old", "{ROOT}/sub/..", "/tmp", "/", "no/such", " sub", "sub ", "ünï", "./../ws-old", "sub/./../..",
        ];
        for _ in 0..t.range(1, 4) {
            task_cwds.push(pool[t.usize_below(pool.len())].to_string());
        }
    }
    Scenario { cwd_is_root, reqs, task_cwds }
}

/// Background tasks with seeded working-directory strings through the real router and task engine.
/// A string that is absolute or has a parent-directory segment must be refused (the command never
/// runs); any other task that runs must run inside the workspace root. The command reports where it
/// ran (`pwd -P`) and leaves a marker file there.
fn execute_task_cwds(sc: &Scenario, env: &Env, stats: &mut RunStats) -> Result<Option<Violation>, String> {
    use crate::esim::{Engine, ProviderCfg};
    let base = env.root.join("t");
    let engine = Engine::new(&base, &ProviderCfg::default(), vec![], false)?;
    let root = engine.ws.clone();
    let root_s = root.to_string_lossy().to_string();
    // siblings that share the root's textual prefix, and ordinary directories inside the root
    for d in [root.join("sub"), root.join("ünï"), base.join("ws-old"), base.join("ws2")] {
        std::fs::create_dir_all(d).map_err(|e| e.to_string())?;
    }
    let canon_root = std::fs::canonicalize(&root).map_err(|e| e.to_string())?;
    for (k, raw) in sc.task_cwds.iter().enumerate() {
        let cwd = raw.replace("{ROOT}", &root_s);
        let escaping = cwd.starts_with('/') || has_parent_segment(&cwd);
        let marker = format!("ran_marker_{k}.txt");
        let (st, v) = engine.call_json("POST", "/tasks", Some(json!({"tool": "bash", "args": {"command": format!("pwd -P; echo ran > {marker}"), "cwd": cwd}})))?;
        stats.bump("task_cwd_requests", 1);
        let mut ran_in: Option<String> = None;
        if st == 201 {
            let id = v["task_id"].as_str().unwrap_or("").to_string();
            let t0 = std::time::Instant::now();
            loop {
                let (_, sv) = engine.call_json("GET", &format!("/tasks/{id}"), None)?;
                if matches!(sv["status"].as_str(), Some("exited") | Some("failed") | Some("cancelled")) {
                    break;
                }
                if t0.elapsed() > std::time::Duration::from_secs(20) {
                    return Err(format!("task with cwd {cwd:?} did not reach a terminal status"));
                }
                engine.settle(2);
            }
            let (_, ov) = engine.call_json("GET", &format!("/tasks/{id}/output?stream=stdout&offset_bytes=0&max_bytes=4096"), None)?;
            let text = ov["content"].as_str().unwrap_or("").to_string();
            if let Some(l) = text.lines().next() {
                if l.starts_with('/') {
                    ran_in = Some(l.to_string());
                }
            }
        }
        // the marker, wherever it landed
        let mut marker_at: Option<std::path::PathBuf> = None;
        for d in [root.clone(), root.join("sub"), root.join("ünï"), base.join("ws-old"), base.join("ws2"), base.clone(), std::path::PathBuf::from("/tmp"), std::path::PathBuf::from("/")] {
            if d.join(&marker).exists() {
                marker_at = Some(d.join(&marker));
            }
        }
        let ran = ran_in.is_some() || marker_at.is_some();
        if ran {
            stats.bump("task_cwd_commands_ran", 1);
        } else {
            stats.bump("task_cwd_refused_or_unstartable", 1);
        }
        let place = ran_in.clone().or_else(|| marker_at.as_ref().and_then(|m| m.parent().map(|p| p.to_string_lossy().to_string()))).unwrap_or_default();
        let inside = !place.is_empty() && std::fs::canonicalize(&place).map(|p| p.starts_with(&canon_root)).unwrap_or(false);
        if let Some(m) = &marker_at {
            if !m.starts_with(&root) {
                let _ = std::fs::remove_file(m);
            }
        }
        if ran && !inside {
            return Ok(Some(Violation { class: "command_ran_outside_root".into(), signature: "command_ran_outside_root:task_cwd".into(), detail: format!("task #{k} with cwd {raw:?} ran its command in {place}, outside the workspace root {root_s}") }));
        }
        if ran && escaping {
            return Ok(Some(Violation { class: "escaping_path_accepted".into(), signature: "escaping_path_accepted:TaskCwd".into(), detail: format!("task #{k}: the working directory {raw:?} is {} and must be refused, but the command ran (in {place})", if cwd.starts_with('/') { "absolute" } else { "a path with a parent-directory segment" }) }));
        }
    }
    drop(engine);
    Ok(None)
}

fn has_parent_segment(p: &str) -> bool {
    std::path::Path::new(p).components().any(|c| matches!(c, std::path::Component::ParentDir))
}

pub fn execute(sc: &Scenario, env: &Env) -> (Outcome, RunStats) {
    let mut stats = RunStats::default();
    let _ = std::fs::remove_dir_all(&env.root);
    if !sc.task_cwds.is_empty() {
        // the engine moves the process into its workspace and points HOME at its scratch directory:
        // both are put back, the direct-drive part below must see what it always saw
        let prev = std::env::current_dir().ok();
        let saved: Vec<(&str, Option<String>)> = ["HOME", "XDG_CONFIG_HOME"].iter().map(|k| (*k, std::env::var(k).ok())).collect();
        let r = execute_task_cwds(sc, env, &mut stats);
        let _ = std::env::set_current_dir(prev.unwrap_or_else(|| std::path::PathBuf::from("/")));
        for (k, v) in saved {
            match v {
                Some(v) => std::env::set_var(k, v),
                None => std::env::remove_var(k),
            }
        }
        match r {
            Ok(None) => {}
            Ok(Some(v)) => return (Outcome::Violation(v), stats),
            Err(e) => return (Outcome::Harness(e), stats),
        }
        let _ = std::fs::remove_dir_all(&env.root);
    }
    let base = env.root.clone();
    let root = base.join("ws");
    let out = base.join("outside");
    let sib = base.join("ws-backup");
    let cwd_other = base.join("cwd");
    for d in [root.join("sub"), out.join("d"), sib.clone(), cwd_other.clone()] {
        std::fs::create_dir_all(d).ok();
    }
    std::fs::write(root.join("a.txt"), "inside a\nsecret inside\n").ok();
    std::fs::write(root.join("sub/b.txt"), "inside b\n").ok();
    std::fs::write(out.join("secret.txt"), "TOP SECRET outside\n").ok();
    std::fs::write(out.join("d/inner.txt"), "secret inner\n").ok();
    std::fs::write(sib.join("b.txt"), "sibling secret\n").ok();
    std::fs::write(cwd_other.join("c.txt"), "cwd secret\n").ok();
    // relative names that exist both in the other cwd and (differently) in the root
    std::fs::write(cwd_other.join("a.txt"), "cwd a (wrong base)\n").ok();
    // a file inside the root whose NAME contains backslashes and dots (the other such name of the
    // grammar does not exist)
    std::fs::write(root.join("..\\outside\\secret.txt"), "inside, odd name\n").ok();

    let prev_cwd = std::env::current_dir().ok();
    let cwd = if sc.cwd_is_root { root.clone() } else { cwd_other.clone() };
    if std::env::set_current_dir(&cwd).is_err() {
        return (Outcome::Harness("chdir failed".into()), stats);
    }
    let restore_cwd = || {
        if let Some(p) = &prev_cwd {
            let _ = std::env::set_current_dir(p);
        } else {
            let _ = std::env::set_current_dir("/");
        }
    };
    let mut te = match ToolEnv::new(&root) {
        Ok(t) => t,
        Err(e) => {
            restore_cwd();
            return (Outcome::Harness(e), stats);
        }
    };
    // a real checkpoint so rewind has something legitimate next to the path-like ids
    let ev0 = te.create_checkpoint("base", vec![root.join("a.txt")]);
    let real_ckpt: Option<String> = ev0.iter().find_map(|e| match &e.kind {
        EventKind::CheckpointCreated { checkpoint_id, .. } => Some(checkpoint_id.clone()),
        _ => None,
    });
    // a staged checkpoint directory outside the workspace (a path-like rewind id could reach it)
    let staged = out.join("staged").join("evil");
    std::fs::create_dir_all(staged.join("files")).ok();
    std::fs::write(staged.join("files/a.txt"), "overwritten from outside\n").ok();
    std::fs::write(
        staged.join("checkpoint.json"),
        serde_json::to_vec(&json!({"id": "evil", "session_id": "sess-1", "label": "x", "created_at_ms": 1, "files": [{"path": "a.txt", "exists": true, "sha256": null}, {"path": "../outside/planted.txt", "exists": true, "sha256": null}]})).unwrap(),
    )
    .ok();
    std::fs::write(staged.join("files/planted.txt"), "planted\n").ok();

    let subst = |p: &str| -> String {
        p.replace("{ROOT}", root.to_str().unwrap())
            .replace("{OUT}", out.to_str().unwrap())
            .replace("{SIB}", sib.to_str().unwrap())
            .replace("{CWD}", cwd_other.to_str().unwrap())
    };
    let root_s = normalize(root.to_str().unwrap());
    let base_s = normalize(base.to_str().unwrap());
    let inside = |p: &str| -> bool {
        let n = normalize(p);
        n == root_s || n.starts_with(&format!("{root_s}/"))
    };

    let mut hash: u64 = 0xcbf2_9ce4_8422_2325;
    let mut violation: Option<Violation> = None;
    let mut odd_ckpt: Option<String> = None;
    wsenv::monitor_begin(std::path::Path::new(""), 7);
    for (k, r) in sc.reqs.iter().enumerate() {
        let path = subst(&r.path);
        let sentinels_before = (snapshot_tree(&out, false), snapshot_tree(&sib, false), snapshot_tree(&cwd_other, false));
        let tree_before = snapshot_tree(&root, false);
        let _ = wsenv::monitor_take();
        let (refused, text): (bool, String) = match r.tool {
            Tool::Read => {
                let ev = te.run_tool("read", json!({"path": path}));
                (tool_exit(&ev) != Some(0), tool_text(&ev))
            }
            Tool::Write => {
                let ev = te.run_tool("write", json!({"path": path, "content": format!("written {k}\n")}));
                (tool_exit(&ev) != Some(0), tool_text(&ev))
            }
            Tool::Ls => {
                let ev = te.run_tool("ls", json!({"path": path}));
                (tool_exit(&ev) != Some(0), tool_text(&ev))
            }
            Tool::Grep => {
                let ev = te.run_tool("grep", json!({"pattern": "secret", "path": path}));
                (tool_exit(&ev) != Some(0), tool_text(&ev))
            }
            Tool::PatchAdd => {
                let ev = te.run_tool("apply_patch", json!({"patch": format!("*** Begin Patch\n*** Add File: {path}\n+added {k}\n*** End Patch\n")}));
                (tool_exit(&ev) != Some(0), tool_text(&ev))
            }
            Tool::PatchUpdate => {
                let ev = te.run_tool("apply_patch", json!({"patch": format!("*** Begin Patch\n*** Update File: {path}\n@@\n-TOP SECRET outside\n+changed\n*** End Patch\n")}));
                (tool_exit(&ev) != Some(0), tool_text(&ev))
            }
            Tool::PatchDelete => {
                let ev = te.run_tool("apply_patch", json!({"patch": format!("*** Begin Patch\n*** Delete File: {path}\n*** End Patch\n")}));
                (tool_exit(&ev) != Some(0), tool_text(&ev))
            }
            Tool::PatchMove => {
                let ev = te.run_tool("apply_patch", json!({"patch": format!("*** Begin Patch\n*** Update File: a.txt\n*** Move to: {path}\n@@\n-inside a\n+moved\n*** End Patch\n")}));
                (tool_exit(&ev) != Some(0), tool_text(&ev))
            }
            Tool::CheckpointCreate => {
                let ev = te.create_checkpoint("c", vec![PathBuf::from(&path)]);
                let failed = ev.iter().any(|e| matches!(e.kind, EventKind::CheckpointFailed { .. }));
                if let Some(id) = ev.iter().find_map(|e| match &e.kind {
                    EventKind::CheckpointCreated { checkpoint_id, .. } => Some(checkpoint_id.clone()),
                    _ => None,
                }) {
                    if path.contains('\\') {
                        odd_ckpt = Some(id);
                        // edit the odd-named file so that a rewind has something to restore
                        let _ = std::fs::write(root.join("..\\outside\\secret.txt"), "edited after checkpoint\n");
                    }
                }
                (failed, tool_text(&ev))
            }
            Tool::Rewind => {
                // path-like checkpoint ids, and occasionally the real one
                let id = if r.path.contains('\\') && odd_ckpt.is_some() {
                    // rewind to the checkpoint taken of the backslash-named file
                    odd_ckpt.clone().unwrap()
                } else if r.path.contains("a.txt") && !r.path.contains("..") {
                    real_ckpt.clone().unwrap_or_else(|| "none".into())
                } else if r.path.contains("secret") {
                    format!("../../../../outside/staged/evil")
                } else {
                    path.clone()
                };
                let ev = te.rewind(&id);
                let failed = ev.iter().any(|e| matches!(e.kind, EventKind::CheckpointFailed { .. }));
                (failed, tool_text(&ev))
            }
            Tool::BashCwd => {
                let ev = te.run_tool("bash", json!({"command": "pwd", "cwd": path}));
                let ok = tool_exit(&ev) == Some(0);
                let text = tool_text(&ev);
                if ok {
                    // no trimming: a directory name may end in white space (".. " is an ordinary name inside the root)
                    let pwd = text.lines().next().unwrap_or("").trim_end_matches('\r').to_string();
                    if !pwd.is_empty() && !inside(&pwd) {
                        violation = Some(Violation {
                            class: "command_ran_outside_root".into(),
                            signature: "command_ran_outside_root:bash_cwd".into(),
                            detail: format!("request {k}: bash with cwd {:?} ran in {pwd}, outside the workspace root {root_s}", r.path),
                        });
                    }
                }
                (!ok, text)
            }
        };
        let seen = wsenv::monitor_take();
        let toolname = format!("{:?}", r.tool);
        for b in format!("{toolname}:{}:{refused};", r.path).as_bytes() {
            hash ^= *b as u64;
            hash = hash.wrapping_mul(0x0000_0100_0000_01B3);
        }
        stats.bump(&format!("requests:{toolname}"), 1);
        stats.bump(if refused { "refused" } else { "accepted" }, 1);
        if violation.is_some() {
            break;
        }
        // 1. effects seen at the libc seam
        for s in &seen {
            for p in std::iter::once(&s.path).chain(s.path2.iter()) {
                if !p.starts_with('/') {
                    continue; // pipes, sockets, eventfds
                }
                let n = normalize(p);
                let under_base = n == base_s || n.starts_with(&format!("{base_s}/"));
                let bad = if under_base {
                    !inside(&n) && n != base_s
                } else {
                    // outside the sandbox altogether: any mutation, or a read of a path the request named
                    (s.kind.is_mutating() && !n.starts_with("/dev/")) || n == "/etc/hostname" || wsenv::is_system_listing(&n)
                };
                // bash itself (spawned with a cwd inside the root) opens system files; only this process is observed
                if bad {
                    violation = Some(Violation {
                        class: "touched_outside_root".into(),
                        signature: format!("touched_outside_root:{toolname}:{}", if s.kind.is_mutating() { "write" } else { "read" }),
                        detail: format!("request {k}: {toolname} with path {:?} (cwd {}) caused {:?} on {n}, outside the workspace root {root_s}", r.path, if sc.cwd_is_root { "= root" } else { "!= root" }, s.kind),
                    });
                    break;
                }
            }
            if violation.is_some() {
                break;
            }
        }
        if violation.is_some() {
            break;
        }
        stats.bump("effects_inspected", seen.len() as u64);
        // 2. sentinel tree untouched
        let sentinels_after = (snapshot_tree(&out, false), snapshot_tree(&sib, false), snapshot_tree(&cwd_other, false));
        if sentinels_after != sentinels_before {
            violation = Some(Violation {
                class: "sentinel_changed".into(),
                signature: format!("sentinel_changed:{toolname}"),
                detail: format!("request {k}: {toolname} with path {:?} changed files outside the workspace root", r.path),
            });
            break;
        }
        // 3. absolute / parent-segment paths are refused, and a refused request leaves nothing behind
        let is_abs = path.starts_with('/');
        let must_refuse = match r.tool {
            Tool::Rewind => false,
            Tool::CheckpointCreate => has_parent_segment(&path) || (is_abs && !inside(&path)),
            _ => is_abs || has_parent_segment(&path),
        };
        if must_refuse && !refused {
            violation = Some(Violation {
                class: "escaping_path_accepted".into(),
                signature: format!("escaping_path_accepted:{toolname}"),
                detail: format!("request {k}: {toolname} accepted the {} path {:?}", if is_abs { "absolute" } else { "parent-segment" }, r.path),
            });
            break;
        }
        if refused && must_refuse {
            stats.bump("refusals_of_escaping_paths_checked", 1);
            let tree_after = snapshot_tree(&root, false);
            if tree_after != tree_before {
                let changed: Vec<String> = tree_after
                    .keys()
                    .chain(tree_before.keys())
                    .filter(|k| tree_after.get(*k) != tree_before.get(*k))
                    .cloned()
                    .collect::<std::collections::BTreeSet<_>>()
                    .into_iter()
                    .take(4)
                    .collect();
                let in_store = changed.iter().any(|c| c.starts_with(".rip/checkpoints"));
                violation = Some(Violation {
                    class: "refused_request_had_side_effect".into(),
                    signature: format!("refused_request_had_side_effect:{toolname}:{}", if in_store { "checkpoint_store" } else { "workspace" }),
                    detail: format!("request {k}: {toolname} refused the path {:?} ({}) but left changes behind: {changed:?}", r.path, text.lines().next().unwrap_or("")),
                });
                break;
            }
        }
    }
    wsenv::monitor_end();
    restore_cwd();
    stats.case_hash = hash ^ fnv1a(&[sc.cwd_is_root as u8]);
    stats.nontrivial = sc.reqs.len() >= 2;
    stats.bump(if sc.cwd_is_root { "cwd_equals_root" } else { "cwd_differs_from_root" }, 1);
    match violation {
        Some(v) => (Outcome::Violation(v), stats),
        None => (Outcome::Ok, stats),
    }
}

impl Check for C13 {
    fn id(&self) -> &'static str {
        "C13"
    }
    fn level(&self) -> &'static str {
        "exploration"
    }
    fn technique(&self) -> &'static str {
        "seeded path-grammar generation against the real tool runner + checkpoint hook, observed by the simulator's libc seam in monitor mode (every open and mutation of the process), sentinel tree and checkpoint-store comparison; reduced form (no scheduler)"
    }
    fn budget(&self, tier: Tier) -> Budget {
        match tier {
            Tier::Quick => Budget { runs: 6_000, secs: 40 },
            Tier::Thorough => Budget { runs: 400_000, secs: 900 },
        }
    }
    fn generate(&self, run_seed: u64, tier: Tier) -> Value {
        serde_json::to_value(generate(run_seed, tier)).unwrap()
    }
    fn execute(&self, scenario: &Value, env: &Env) -> (Outcome, RunStats) {
        match serde_json::from_value::<Scenario>(scenario.clone()) {
            Ok(sc) => execute(&sc, env),
            Err(e) => (Outcome::Harness(format!("bad scenario: {e}")), RunStats::default()),
        }
    }
    fn shrink(&self, scenario: &Value) -> Vec<Value> {
        let Ok(sc) = serde_json::from_value::<Scenario>(scenario.clone()) else {
            return Vec::new();
        };
        let mut out = Vec::new();
        for k in (0..sc.reqs.len()).rev() {
            if sc.reqs.len() > 1 {
                let mut c = sc.clone();
                c.reqs.remove(k);
                out.push(c);
            }
        }
        if !sc.cwd_is_root {
            let mut c = sc.clone();
            c.cwd_is_root = true;
            out.push(c);
        }
        out.into_iter().map(|s| serde_json::to_value(s).unwrap()).collect()
    }
    fn rule(&self) -> String {
        "one evaluation = 2-16 requests (read, write, ls, grep, apply_patch add/update/delete/move-to, checkpoint create, checkpoint rewind incl. path-like ids, bash cwd; in 1 of 5 scenarios also 1-4 background tasks with working-directory strings incl. absolute-inside, sibling-with-shared-prefix and parent segments) with path strings from a grammar (absolute inside/outside/sibling-with-shared-prefix, '..' at any position, '.', empty, trailing and doubled slashes, whitespace-padded, very long, unicode, in-root file names made of backslashes and dots that are checkpointed and rewound) against the real tool runner with the real auto-checkpoint hook, with the process cwd equal to or different from the root; after each request every file-system effect of the process (opens for reading included) is checked against the root, a sentinel tree around the root is compared, escaping paths must be refused and a refusal must leave the whole root incl. .rip/checkpoints unchanged; distinct = hash of (tool, path, outcome) sequence and cwd mode; non-trivial = at least 2 requests".into()
    }
    fn assumptions(&self) -> Vec<String> {
        vec![
            "only this process is observed: a spawned bash is judged by where it runs (pwd), not by what it opens".into(),
            "checkpoint create accepts absolute paths inside the root (C14's quantifier); everywhere else absolute paths must be refused".into(),
            "task working directories go through the real router and task engine (POST /tasks) in 1 of 5 scenarios; where the command ran is what the command itself reports (pwd -P) and where its marker file landed".into(),
            "symlink attacks are out of scope (the property is about path strings)".into(),
        ]
    }
    fn components(&self) -> Value {
        json!({"built-in tools (read/write/ls/grep/apply_patch/bash), tool runner, workspace checkpoint hook, rip-workspace": "real", "file system": "real tmpfs observed through the libc seam (monitor mode)", "child processes": "real bash", "background tasks (task working directories)": "real: ripd router (POST /tasks, status, output), task engine, pipes runner on a tokio runtime in real time; requests enter through tower oneshot (no HTTP listener)", "scheduling/clock": "not involved"})
    }
    fn extra_coverage(&self, c: &BTreeMap<String, u64>) -> Value {
        let per: BTreeMap<&String, &u64> = c.iter().filter(|(k, _)| k.starts_with("requests:")).collect();
        json!({"requests_by_tool": per, "effects_inspected": c.get("effects_inspected").copied().unwrap_or(0),
               "refusals_of_escaping_paths_checked": c.get("refusals_of_escaping_paths_checked").copied().unwrap_or(0),
               "cwd_equals_root": c.get("cwd_equals_root").copied().unwrap_or(0), "cwd_differs_from_root": c.get("cwd_differs_from_root").copied().unwrap_or(0), "fault_counts": {}})
    }
}
