//! C17 — captured process output is faithful; a task has one well-formed lifecycle.
//!
//! Real processes: seeded stdout/stderr payloads (ASCII lines, multi-byte text, arbitrary binary;
//! sizes around the preview limit, the 8 KiB read size and the artifact cap) are cut into segments
//! that a real `bash` writes in a seeded interleaving with seeded pauses, so the pipes deliver
//! them in different read patterns. Foreground: the real shell tool through the tool runner with
//! seeded preview limit / artifact cap (0 included), then `artifact_fetch` page sequences.
//! Background: POST /tasks through the real router with seeded limits in the arguments, seeded
//! cancellation, invalid arguments and spawn failures, then GET /tasks/{id}/output page
//! sequences. Fault: a slow disk — the libc seam delays every write to the artifact store by a
//! seeded number of milliseconds, so data the code did not wait for is visibly missing when the
//! terminal frame is already out.

use std::path::Path;
use std::sync::atomic::{AtomicU64, Ordering};
use std::time::{Duration, Instant};

use serde::{Deserialize, Serialize};
use serde_json::{json, Value};
use sha2::{Digest, Sha256};

use crate::driver::{Budget, Check, Env, Outcome, RunStats, Tier, Violation};
use crate::esim::{self, Engine, ProviderCfg};
use crate::prng::{fnv1a, Rng};
use crate::seam::{self, Decision, Effect, EffectKind};
use crate::wsenv::ToolEnv;

#[derive(Clone, Debug, Serialize, Deserialize, PartialEq)]
pub enum PayloadKind {
    Ascii,
    Utf8,
    Binary,
    /// `prefix` ASCII bytes, then one 3- or 4-byte character, then multi-byte text: used to put a
    /// character across the preview limit / the read size / the cap
    Utf8Straddle { prefix: usize, four: bool },
    /// multi-byte text with stray bytes that are invalid anywhere in UTF-8 (0xFF / 0xFE) between
    /// characters: mixed text and binary, whose lossy decoding does not depend on where it is cut as
    /// long as no valid character is split
    Utf8Dirty,
}

#[derive(Clone, Debug, Serialize, Deserialize, PartialEq)]
pub struct Payload {
    pub kind: PayloadKind,
    pub seed: u64,
    pub len: usize,
}

impl Payload {
    pub fn bytes(&self) -> Vec<u8> {
        let mut rng = Rng::new(self.seed);
        let mut out: Vec<u8> = Vec::with_capacity(self.len + 8);
        match self.kind {
            PayloadKind::Ascii => {
                while out.len() < self.len {
                    let n = rng.range(0, 40) as usize;
                    for _ in 0..n {
                        out.push(b'a' + rng.below(26) as u8);
                    }
                    out.push(if rng.chance(1, 12) { b'\r' } else { b'\n' });
                }
                out.truncate(self.len);
            }
            PayloadKind::Utf8 => {
                let units = ["é", "日本語", "🙂", "x", "ab", "ß\n", " ", "Ω", "🎉🎉", "line\n"];
                let mut s = String::new();
                while s.len() < self.len {
                    s.push_str(units[rng.usize_below(units.len())]);
                }
                // cut at a character boundary at or below len
                let mut cut = self.len.min(s.len());
                while cut > 0 && !s.is_char_boundary(cut) {
                    cut -= 1;
                }
                out = s.as_bytes()[..cut].to_vec();
            }
            PayloadKind::Binary => {
                out.resize(self.len, 0);
                rng.fill(&mut out);
            }
            PayloadKind::Utf8Dirty => {
                let units = ["é", "日本語", "🙂", "x", "ab", "ß\n", " ", "Ω", "🎉🎉", "line\n"];
                loop {
                    let u = units[rng.usize_below(units.len())].as_bytes();
                    if out.len() + u.len() > self.len {
                        break;
                    }
                    out.extend_from_slice(u);
                    if rng.chance(1, 12) && out.len() < self.len {
                        out.push(if rng.chance(1, 2) { 0xFF } else { 0xFE });
                    }
                }
            }
            PayloadKind::Utf8Straddle { prefix, four } => {
                let mut st = "a".repeat(prefix);
                st.push_str(if four { "🙂" } else { "日" });
                let units = ["é", "日本語", "🙂", "x", "ab", "Ω", "line\n"];
                while st.len() < self.len {
                    st.push_str(units[rng.usize_below(units.len())]);
                }
                let mut cut = self.len.max(prefix + 4).min(st.len());
                while cut > 0 && !st.is_char_boundary(cut) {
                    cut -= 1;
                }
                out = st.as_bytes()[..cut].to_vec();
            }
        }
        out
    }
}

#[derive(Clone, Debug, Serialize, Deserialize, PartialEq)]
pub struct Seg {
    pub stderr: bool,
    pub len: usize,
    pub pause_ms_before: u64,
}

#[derive(Clone, Debug, Serialize, Deserialize, PartialEq)]
pub enum Mode {
    Foreground,
    Task { cancel_after_ms: Option<u64>, limits_in_args: bool, bad: Option<BadTask> },
}

#[derive(Clone, Debug, Serialize, Deserialize, PartialEq)]
pub enum BadTask {
    InvalidArgs,
    CwdEscape,
    CwdMissing,
    CwdAbsolute,
}

#[derive(Clone, Debug, Serialize, Deserialize, PartialEq)]
pub struct Scenario {
    pub mode: Mode,
    pub max_bytes: usize,
    pub artifact_max_bytes: usize,
    pub out: Payload,
    pub err: Payload,
    pub segs: Vec<Seg>,
    pub exit_code: i32,
    pub page_sizes: Vec<usize>,
    pub slow_disk_ms: u64,
    /// (delay ms, bytes): the last bytes of stdout are written by a background descendant that
    /// outlives the shell and keeps the pipe open for that long
    #[serde(default)]
    pub late: Option<(u64, usize)>,
    /// the late writer runs in a session of its own (`setsid`): killing the task's process group on
    /// cancellation does not reach it, it keeps the pipe open and still writes its bytes
    #[serde(default)]
    pub late_detached: bool,
    /// a cancelled task gets a second cancellation request this many ms after the first (it may
    /// arrive while the task is being torn down, or after its terminal status)
    #[serde(default)]
    pub cancel_again_after_ms: Option<u64>,
}

pub struct C17;

fn pick_len(rng: &mut Rng, max_bytes: usize, cap: usize) -> usize {
    let around = |rng: &mut Rng, x: usize| (x as i64 + rng.range(0, 4) as i64 - 2).max(0) as usize;
    match rng.below(10) {
        0 => 0,
        1 => rng.range(1, 6) as usize,
        2 | 3 => around(rng, max_bytes),
        4 => around(rng, 8192),
        5 | 6 => around(rng, cap.min(60_000)),
        7 => 3 * 8192 + rng.range(0, 9) as usize,
        8 => rng.range(10, 3000) as usize,
        _ => rng.range(9_000, 40_000) as usize,
    }
}

pub fn generate(run_seed: u64, tier: Tier) -> Scenario {
    let mut rng = Rng::derive(run_seed, "c17");
    let max_bytes = *rng.pick(&[0usize, 1, 2, 3, 5, 16, 64, 100, 1000, 8191, 8192, 8193, 20_000, 524_288]);
    let artifact_max_bytes = *rng.pick(&[0usize, 1, 10, 100, 5000, 8192, 10_000, 30_000, 1 << 20, 1 << 24]);
    let kind = |rng: &mut Rng| match rng.below(5) {
        0 | 1 => PayloadKind::Utf8,
        2 | 3 => PayloadKind::Ascii,
        _ => PayloadKind::Binary,
    };
    let cap_len = if tier == Tier::Quick { 45_000 } else { 200_000 };
    let out = Payload { kind: kind(&mut rng), seed: rng.next_u64(), len: pick_len(&mut rng, max_bytes, artifact_max_bytes).min(cap_len) };
    let err = Payload { kind: kind(&mut rng), seed: rng.next_u64(), len: if rng.chance(1, 3) { 0 } else { pick_len(&mut rng, max_bytes, artifact_max_bytes).min(cap_len) } };
    // segments: cut both payloads at seeded positions and interleave
    let mut cut = |rng: &mut Rng, len: usize, stderr: bool| -> Vec<Seg> {
        let mut v = Vec::new();
        let mut left = len;
        while left > 0 {
            let n = match rng.below(6) {
                0 => rng.range(1, 7) as usize,
                1 => rng.range(1, 200) as usize,
                2 => 8192,
                3 => rng.range(4000, 12_000) as usize,
                _ => left,
            }
            .min(left);
            v.push(Seg { stderr, len: n, pause_ms_before: *rng.pick(&[0u64, 0, 0, 3, 8, 20]) });
            left -= n;
            if v.len() >= 12 {
                if left > 0 {
                    v.push(Seg { stderr, len: left, pause_ms_before: 0 });
                }
                break;
            }
        }
        v
    };
    // 1 in 8: a wide character straddles the preview limit (or 8192, or the cap) and a segment
    // boundary with a pause falls inside it, so its first byte(s) arrive in an earlier read
    let mut out = out;
    let mut forced_first_seg: Option<usize> = None;
    if rng.chance(1, 8) {
        let edge = match rng.below(4) {
            0 => 8192,
            1 if artifact_max_bytes >= 8 => artifact_max_bytes.min(60_000),
            _ => max_bytes.max(4),
        };
        let four = rng.chance(1, 2);
        let width = if four { 4 } else { 3 };
        let j = rng.range(1, width as u64 - 1) as usize; // bytes of the character before the edge
        if edge > j {
            let prefix = edge - j;
            let len = (prefix + width + rng.range(0, 3000) as usize).min(cap_len);
            out = Payload { kind: PayloadKind::Utf8Straddle { prefix, four }, seed: rng.next_u64(), len };
            // the first stdout segment ends inside the character
            forced_first_seg = Some(prefix + rng.range(1, width as u64 - 1) as usize);
        }
    }
    // 1 in 6 (own sub-stream): text with stray invalid bytes in it
    let mut err = err;
    let mut dirty = Rng::derive(run_seed, "c17:dirty");
    if dirty.chance(1, 6) {
        if !matches!(out.kind, PayloadKind::Utf8Straddle { .. }) {
            out.kind = PayloadKind::Utf8Dirty;
        }
        if dirty.chance(1, 2) {
            err.kind = PayloadKind::Utf8Dirty;
        }
    }
    // 1 in 10: a descendant keeps stdout open after the shell has exited and writes the tail late
    let late = if out.len >= 2 && rng.chance(1, 10) { Some((*rng.pick(&[150u64, 600, 1400]), rng.range(1, (out.len / 2) as u64) as usize)) } else { None };
    let out_actual = out.bytes().len();
    let out = Payload { len: out_actual, ..out };
    let late = late.filter(|l| l.1 < out.len && forced_first_seg.is_none());
    let so = match forced_first_seg {
        Some(n) if n < out.len => {
            let mut v = vec![Seg { stderr: false, len: n, pause_ms_before: 0 }];
            let mut rest = cut(&mut rng, out.len - n, false);
            if let Some(f) = rest.first_mut() {
                f.pause_ms_before = 20;
            }
            v.append(&mut rest);
            v
        }
        _ => cut(&mut rng, out.len - late.map(|l| l.1).unwrap_or(0), false),
    };
    let se = cut(&mut rng, err.len, true);
    let mut segs = Vec::new();
    let (mut i, mut j) = (0, 0);
    while i < so.len() || j < se.len() {
        if j >= se.len() || (i < so.len() && rng.chance(1, 2)) {
            segs.push(so[i].clone());
            i += 1;
        } else {
            segs.push(se[j].clone());
            j += 1;
        }
    }
    let mode = if rng.chance(1, 2) {
        Mode::Foreground
    } else {
        Mode::Task {
            cancel_after_ms: if rng.chance(1, 4) { Some(rng.below(60)) } else { None },
            limits_in_args: true,
            bad: if rng.chance(1, 12) { Some(match rng.below(4) { 0 => BadTask::InvalidArgs, 1 => BadTask::CwdEscape, 2 => BadTask::CwdAbsolute, _ => BadTask::CwdMissing }) } else { None },
        }
    };
    let page_sizes = (0..rng.range(1, 4)).map(|_| *rng.pick(&[4usize, 5, 7, 16, 64, 100, 1000, 4096, 8192, 10_000, 100_000])).collect();
    // own sub-stream: half of the late writers leave the process group; two thirds of the tasks with
    // such a writer are cancelled while it is still waiting to write
    let mut drng = Rng::derive(run_seed, "c17:detached");
    let mut late_detached = late.is_some() && drng.chance(1, 2);
    let mut mode = mode;
    let mut late = late;
    let mut segs = segs;
    if late.is_none() && drng.chance(1, 6) {
        // 1 in 6 tasks without a late writer get a detached one: the tail of the last stdout segment
        if let Mode::Task { bad: None, .. } = &mode {
            if let Some(last) = segs.iter_mut().rev().find(|s| !s.stderr && s.len >= 2) {
                let k = drng.range(1, (last.len / 2) as u64) as usize;
                last.len -= k;
                late = Some((*drng.pick(&[600u64, 1100, 1400]), k));
                late_detached = true;
            }
        }
    }
    if late_detached {
        if let Mode::Task { cancel_after_ms, bad: None, .. } = &mut mode {
            if drng.chance(2, 3) {
                // the request arrives after the script has launched the writer (the script itself takes
                // 10-150 ms) and well before the writer writes
                *cancel_after_ms = Some(drng.range(80, 350));
                late = late.map(|l| (*drng.pick(&[900u64, 1400]), l.1));
            }
        }
    }
    let mut arng = Rng::derive(run_seed, "c17:cancel-again");
    let cancel_again_after_ms = if matches!(mode, Mode::Task { cancel_after_ms: Some(_), .. }) && arng.chance(1, 2) { Some(*arng.pick(&[0u64, 1, 3, 10, 40, 200])) } else { None };
    Scenario { mode, max_bytes, artifact_max_bytes, out, err, segs, exit_code: *rng.pick(&[0, 0, 0, 1, 3, 127]), page_sizes, slow_disk_ms: *rng.pick(&[0u64, 0, 5, 25, 60]), late, late_detached, cancel_again_after_ms }
}

// ---------------------------------------------------------------------------------------------

static SLOW_MS: AtomicU64 = AtomicU64::new(0);
static SLOWED: AtomicU64 = AtomicU64::new(0);

fn slow_disk(_actor: i32, e: &Effect) -> Decision {
    let ms = SLOW_MS.load(Ordering::Relaxed);
    if ms > 0 && e.kind == EffectKind::Write && e.path.contains("/.rip/artifacts/") {
        SLOWED.fetch_add(1, Ordering::Relaxed);
        std::thread::sleep(Duration::from_millis(ms));
    }
    Decision::Proceed
}

fn viol(class: &str, sig: String, detail: String) -> Violation {
    Violation { class: class.into(), signature: sig, detail }
}

/// Write the segment files and build the command that emits them.
fn prepare_command(ws: &Path, sc: &Scenario) -> (String, Vec<u8>, Vec<u8>) {
    let out = sc.out.bytes();
    let err = sc.err.bytes();
    let dir = ws.join("segs");
    let _ = std::fs::create_dir_all(&dir);
    let (mut oi, mut ei) = (0usize, 0usize);
    let mut cmd = String::new();
    for (k, s) in sc.segs.iter().enumerate() {
        let (src, idx) = if s.stderr { (&err, &mut ei) } else { (&out, &mut oi) };
        let end = (*idx + s.len).min(src.len());
        let _ = std::fs::write(dir.join(format!("s{k}")), &src[*idx..end]);
        *idx = end;
        if s.pause_ms_before > 0 {
            cmd.push_str(&format!("sleep 0.{:03}; ", s.pause_ms_before));
        }
        cmd.push_str(&format!("cat segs/s{k}{}; ", if s.stderr { " 1>&2" } else { "" }));
    }
    if sc.late.is_some() && oi < out.len() {
        let _ = std::fs::write(dir.join("late"), &out[oi..]);
        let ms = sc.late.map(|l| l.0).unwrap_or(0);
        if sc.late_detached {
            cmd.push_str(&format!("setsid sh -c 'sleep {}.{:03}; cat segs/late' & ", ms / 1000, ms % 1000));
            if matches!(sc.mode, Mode::Task { cancel_after_ms: Some(_), .. }) {
                // the shell is still running when the cancellation arrives (a task whose shell has
                // exited only waits for its pipes and is past cancelling)
                cmd.push_str("sleep 3; ");
            }
        } else {
            cmd.push_str(&format!("(sleep {}.{:03}; cat segs/late) & ", ms / 1000, ms % 1000));
        }
    }
    cmd.push_str(&format!("exit {}", sc.exit_code));
    (cmd, out, err)
}

fn lossy(b: &[u8]) -> String {
    String::from_utf8_lossy(b).into_owned()
}

fn is_valid_utf8(b: &[u8]) -> bool {
    std::str::from_utf8(b).is_ok()
}

/// Valid UTF-8, or valid UTF-8 pieces separated by bytes that are invalid anywhere (0xFF / 0xFE): the
/// lossy decoding of such data is the same however it is cut, as long as no valid character is split.
fn is_text(b: &[u8]) -> bool {
    b.split(|x| *x == 0xFF || *x == 0xFE).all(|piece| std::str::from_utf8(piece).is_ok())
}

struct PageResult {
    content: String,
    bytes: usize,
    total: u64,
    truncated: bool,
}

/// Page through stored output from offset 0, advancing by the number of bytes each page reports.
fn page_through(fetch: impl FnMut(u64, usize) -> Result<PageResult, String>, stored: &[u8], page_sizes: &[usize], what: &str, stats: &mut RunStats) -> Result<Option<Violation>, String> {
    page_through_opt(fetch, stored, page_sizes, what, stats, false)
}

/// `ignore_line_breaks`: the channel the pages come through splits text into lines (tool stdout), so
/// the texts are compared with every CR and LF removed from both sides.
fn page_through_opt(mut fetch: impl FnMut(u64, usize) -> Result<PageResult, String>, stored: &[u8], page_sizes: &[usize], what: &str, stats: &mut RunStats, ignore_line_breaks: bool) -> Result<Option<Violation>, String> {
    let text = is_text(stored);
    let mut offset = 0u64;
    let mut got = String::new();
    let mut k = 0usize;
    let mut pages = 0usize;
    loop {
        let size = page_sizes[k % page_sizes.len()];
        k += 1;
        let p = fetch(offset, size)?;
        pages += 1;
        if p.total != stored.len() as u64 {
            return Ok(Some(viol("page_total_wrong", format!("page_total_wrong:{what}"), format!("{what}: page at offset {offset} reports total_bytes {} but {} bytes are stored", p.total, stored.len()))));
        }
        if p.bytes > size {
            return Ok(Some(viol("page_too_large", format!("page_too_large:{what}"), format!("{what}: page at offset {offset} max {size} returned {} bytes", p.bytes))));
        }
        got.push_str(&p.content);
        let end = offset + p.bytes as u64;
        if p.truncated != (end < stored.len() as u64) {
            return Ok(Some(viol("page_truncated_flag_wrong", format!("page_truncated_flag_wrong:{what}"), format!("{what}: page {offset}+{} of {} says truncated={}", p.bytes, stored.len(), p.truncated))));
        }
        if end >= stored.len() as u64 {
            offset = end;
            break;
        }
        if p.bytes == 0 {
            return Ok(Some(viol("page_makes_no_progress", format!("page_makes_no_progress:{what}"), format!("{what}: page at offset {offset} with max {size} returned 0 bytes before the end ({} stored)", stored.len()))));
        }
        offset = end;
        if pages > 200_000 {
            return Err("pager did not terminate".into());
        }
    }
    stats.bump("pages_read", pages as u64);
    if offset != stored.len() as u64 {
        return Ok(Some(viol("pages_overrun", format!("pages_overrun:{what}"), format!("{what}: pages end at {offset}, {} bytes stored", stored.len()))));
    }
    if text {
        let mut want = lossy(stored);
        if ignore_line_breaks {
            want.retain(|c| c != '\n' && c != '\r');
            got.retain(|c| c != '\n' && c != '\r');
            stats.bump("paged_text_compared_without_line_breaks", 1);
        }
        if got != want {
            let pos = got.bytes().zip(want.bytes()).position(|(a, b)| a != b).unwrap_or(got.len().min(want.len()));
            let ctx = |s: &str| {
                let a = pos.saturating_sub(12);
                let mut a2 = a;
                while a2 > 0 && !s.is_char_boundary(a2) {
                    a2 -= 1;
                }
                let mut b = (pos + 16).min(s.len());
                while b < s.len() && !s.is_char_boundary(b) {
                    b += 1;
                }
                s.get(a2..b).unwrap_or("").to_string()
            };
            return Ok(Some(viol("paged_output_differs", format!("paged_output_differs:{what}"), format!("{what}: reading {} stored bytes of text in pages of {:?} bytes gives different text at byte {pos}: got …{:?}… want …{:?}…", stored.len(), page_sizes, ctx(&got), ctx(&want)))));
        }
    }
    Ok(None)
}

fn check_stored(what: &str, stored: Option<&[u8]>, expected: &[u8], cap: usize) -> Option<Violation> {
    let want = &expected[..expected.len().min(cap)];
    match stored {
        None => None,
        Some(s) if s == want => None,
        Some(s) => {
            let kind = if s.len() < want.len() && want.starts_with(s) {
                "tail_missing"
            } else if s.len() > want.len() {
                "longer_than_cap_or_output"
            } else {
                "bytes_differ"
            };
            let pos = s.iter().zip(want.iter()).position(|(a, b)| a != b).unwrap_or(s.len().min(want.len()));
            Some(viol("stored_output_not_a_prefix", format!("stored_output_not_a_prefix:{what}:{kind}"), format!("{what}: {} bytes stored, process wrote {} (cap {cap}); first difference at byte {pos}", s.len(), expected.len())))
        }
    }
}

// ---------------------------------------------------------------------------------------------
// foreground shell tool

fn run_foreground(sc: &Scenario, env: &Env, stats: &mut RunStats) -> Result<Option<Violation>, String> {
    let root = env.root.join("w");
    let _ = std::fs::remove_dir_all(&root);
    std::fs::create_dir_all(&root).map_err(|e| e.to_string())?;
    let (cmd, out, err) = prepare_command(&root, sc);
    std::env::set_current_dir(&root).map_err(|e| format!("chdir: {e}"))?;
    let mut te = ToolEnv::with_limits(&root, sc.max_bytes, sc.artifact_max_bytes)?;
    let events = te.run_tool("bash", json!({"command": cmd}));
    let ended = events.iter().find_map(|e| match &e.kind {
        rip_kernel::EventKind::ToolEnded { exit_code, artifacts, .. } => Some((*exit_code, artifacts.clone())),
        _ => None,
    });
    let Some((code, Some(art))) = ended else {
        return Err(format!("bash tool did not end normally: {}", crate::wsenv::tool_text(&events)));
    };
    if code != sc.exit_code {
        return Ok(Some(viol("exit_code_wrong", "exit_code_wrong:foreground".into(), format!("exit code {code}, command exits {}", sc.exit_code))));
    }
    for (name, expected, lines) in [
        ("stdout", &out, events.iter().filter_map(|e| if let rip_kernel::EventKind::ToolStdout { chunk, .. } = &e.kind { Some(chunk.clone()) } else { None }).collect::<Vec<_>>()),
        ("stderr", &err, events.iter().filter_map(|e| if let rip_kernel::EventKind::ToolStderr { chunk, .. } = &e.kind { Some(chunk.clone()) } else { None }).collect::<Vec<_>>()),
    ] {
        let what = format!("foreground_{name}");
        let a = &art[name];
        if let Some(e) = a.get("error").and_then(|e| e.as_str()) {
            return Err(format!("{what}: capture error {e}"));
        }
        let bytes_total = a["bytes_total"].as_u64().unwrap_or(u64::MAX);
        if bytes_total != expected.len() as u64 {
            return Ok(Some(viol("bytes_total_wrong", format!("bytes_total_wrong:{what}"), format!("{what}: bytes_total {bytes_total}, process wrote {}", expected.len()))));
        }
        // preview: a prefix within its limit
        let used = a["bytes_preview"].as_u64().unwrap_or(u64::MAX) as usize;
        let limit = sc.max_bytes;
        if used > limit || used > expected.len() {
            return Ok(Some(viol("preview_exceeds_limit", format!("preview_exceeds_limit:{what}"), format!("{what}: bytes_preview {used}, limit {limit}, output {}", expected.len()))));
        }
        let model_lines: Vec<String> = lossy(&expected[..used]).lines().map(|l| l.trim_end_matches('\r').to_string()).collect();
        let got_lines: Vec<String> = lines.iter().flat_map(|c| c.split('\n').map(|s| s.to_string()).collect::<Vec<_>>()).collect();
        let norm = |v: &Vec<String>| v.join("\n");
        if norm(&model_lines) != norm(&got_lines) {
            return Ok(Some(viol("preview_not_a_prefix", format!("preview_not_a_prefix:{what}"), format!("{what}: preview ({} lines) is not the text of the first {used} bytes of the output ({} lines)", got_lines.len(), model_lines.len()))));
        }
        if is_valid_utf8(expected) && used + 3 < limit.min(expected.len()) {
            return Ok(Some(viol("preview_shorter_than_limit", format!("preview_shorter_than_limit:{what}"), format!("{what}: preview uses {used} bytes although limit is {limit} and the output has {}", expected.len()))));
        }
        let truncated = a["truncated"].as_bool().unwrap_or(false);
        if truncated != (expected.len() > limit) {
            return Ok(Some(viol("preview_truncated_flag_wrong", format!("preview_truncated_flag_wrong:{what}"), format!("{what}: truncated={truncated}, output {} limit {limit}", expected.len()))));
        }
        // artifact
        let needs_artifact = expected.len() > limit && sc.artifact_max_bytes > 0;
        let ar = &a["artifact"];
        if ar.is_null() {
            if needs_artifact {
                return Ok(Some(viol("artifact_missing", format!("artifact_missing:{what}"), format!("{what}: output of {} bytes exceeds the preview limit {limit} and the artifact cap is {}, but no artifact was stored", expected.len(), sc.artifact_max_bytes))));
            }
            continue;
        }
        stats.bump("artifacts_checked", 1);
        let id = ar["id"].as_str().unwrap_or("").to_string();
        let path = root.join(ar["path"].as_str().unwrap_or(""));
        let stored = std::fs::read(&path).map_err(|e| format!("{what}: artifact {} unreadable: {e}", path.display()))?;
        if let Some(v) = check_stored(&what, Some(&stored), expected, sc.artifact_max_bytes) {
            return Ok(Some(v));
        }
        let digest = hex::encode(Sha256::digest(&stored));
        if digest != id || path.file_name().and_then(|f| f.to_str()) != Some(id.as_str()) {
            return Ok(Some(viol("artifact_id_not_hash", format!("artifact_id_not_hash:{what}"), format!("{what}: artifact id {id}, sha256 of its bytes {digest}, file {}", path.display()))));
        }
        if ar["bytes"].as_u64() != Some(stored.len() as u64) || ar["truncated"].as_bool() != Some(expected.len() > stored.len()) {
            return Ok(Some(viol("artifact_meta_wrong", format!("artifact_meta_wrong:{what}"), format!("{what}: artifact meta {ar}, stored {} of {}", stored.len(), expected.len()))));
        }
        // page through artifact_fetch
        let mut fetch = |offset: u64, size: usize| -> Result<PageResult, String> {
            let ev = te.run_tool("artifact_fetch", json!({"id": id, "offset_bytes": offset, "max_bytes": size}));
            let (code, art) = ev
                .iter()
                .find_map(|e| match &e.kind {
                    rip_kernel::EventKind::ToolEnded { exit_code, artifacts, .. } => Some((*exit_code, artifacts.clone())),
                    _ => None,
                })
                .ok_or_else(|| "artifact_fetch did not end".to_string())?;
            if code != 0 {
                return Err(format!("artifact_fetch exit {code}: {}", crate::wsenv::tool_text(&ev)));
            }
            let art = art.unwrap_or(Value::Null);
            let content: Vec<String> = ev.iter().filter_map(|e| if let rip_kernel::EventKind::ToolStdout { chunk, .. } = &e.kind { Some(chunk.clone()) } else { None }).collect();
            Ok(PageResult { content: content.join("\n"), bytes: art["bytes"].as_u64().unwrap_or(0) as usize, total: art["total_bytes"].as_u64().unwrap_or(0), truncated: art["truncated"].as_bool().unwrap_or(false) })
        };
        // the tool runner splits tool stdout into lines: when the stored text has line breaks the page
        // texts are compared with all line breaks removed from both sides
        let single_line = !stored.contains(&b'\n') && !stored.contains(&b'\r');
        if let Some(v) = page_through_opt(&mut fetch, &stored, &sc.page_sizes, &format!("{what}_artifact_fetch"), stats, !single_line)? {
            return Ok(Some(v));
        }
    }
    Ok(None)
}

// ---------------------------------------------------------------------------------------------
// background task

fn run_task(sc: &Scenario, env: &Env, stats: &mut RunStats) -> Result<Option<Violation>, String> {
    let Mode::Task { cancel_after_ms, limits_in_args, bad } = &sc.mode else {
        return Err("not a task scenario".into());
    };
    let engine = Engine::new(&env.root.join("e"), &ProviderCfg::default(), vec![], false)?;
    let (cmd, out, err) = prepare_command(&engine.ws, sc);
    let mut args = json!({"command": cmd});
    if *limits_in_args {
        args["max_bytes"] = json!(sc.max_bytes);
        args["artifact_max_bytes"] = json!(sc.artifact_max_bytes);
    }
    match bad {
        Some(BadTask::InvalidArgs) => args = json!({"cmd": "echo hi"}),
        Some(BadTask::CwdEscape) => args["cwd"] = json!("../outside"),
        Some(BadTask::CwdMissing) => args["cwd"] = json!("no/such/dir"),
        Some(BadTask::CwdAbsolute) => args["cwd"] = json!("/tmp"),
        None => {}
    }
    let (st, v) = engine.call_json("POST", "/tasks", Some(json!({"tool": "bash", "args": args})))?;
    if st != 201 {
        return Err(format!("create task: {st} {v}"));
    }
    let id = v["task_id"].as_str().unwrap_or("").to_string();
    let t0 = Instant::now();
    let mut cancelled = false;
    let mut cancelled_at: Option<Instant> = None;
    let mut cancelled_again = false;
    let log_path = engine.data.join("events.jsonl");
    let terminal = |f: &crate::model::Frame| f.ty == "tool_task_status" && matches!(f.s("status"), Some("exited") | Some("failed") | Some("cancelled"));
    loop {
        if let (Some(ms), false) = (cancel_after_ms, cancelled) {
            if t0.elapsed().as_millis() as u64 >= *ms {
                let (st, _) = engine.call("POST", &format!("/tasks/{id}/cancel"), Some(json!({"reason": "sim cancel"})))?;
                if st != 202 {
                    return Err(format!("cancel: {st}"));
                }
                cancelled = true;
                cancelled_at = Some(Instant::now());
                stats.bump("fault:task_cancelled", 1);
            }
        }
        if let (Some(again), Some(at), false) = (sc.cancel_again_after_ms, cancelled_at, cancelled_again) {
            if at.elapsed().as_millis() as u64 >= again {
                let _ = engine.call("POST", &format!("/tasks/{id}/cancel"), Some(json!({"reason": "sim cancel, once more"})))?;
                cancelled_again = true;
                stats.bump("fault:task_cancelled_a_second_time", 1);
            }
        }
        let done = crate::model::parse_truth_file(&log_path).map(|t| t.frames.iter().any(|f| f.stream_id == id && terminal(f))).unwrap_or(false);
        if done {
            break;
        }
        if t0.elapsed() > Duration::from_secs(40) {
            return Err("task did not reach a terminal status within 40 s".into());
        }
        engine.settle(1);
    }
    // the terminal frame is out: what a client reads NOW is what counts
    let status_now = engine.call_json("GET", &format!("/tasks/{id}"), None)?.1;
    let truth = crate::model::parse_truth_file(&log_path).map_err(|e| e.reason)?;
    let frames = truth.stream("task", &id);
    let term = frames.iter().find(|f| terminal(f)).cloned();
    let Some(term) = term else {
        return Err("terminal frame vanished".into());
    };
    let final_status = term.s("status").unwrap_or("?").to_string();
    stats.bump(&format!("task_status:{final_status}"), 1);
    let blobs = engine.ws.join(".rip/artifacts/blobs");
    let mut stored_now: Vec<(String, Option<Vec<u8>>, String)> = Vec::new();
    for name in ["stdout", "stderr"] {
        let lid = term.v.pointer(&format!("/artifacts/logs/{name}/id")).and_then(|x| x.as_str()).unwrap_or("").to_string();
        let bytes = if lid.is_empty() { None } else { std::fs::read(blobs.join(&lid)).ok() };
        stored_now.push((name.to_string(), bytes, lid));
    }
    if let (Some(_), Some(_), false) = (sc.cancel_again_after_ms, cancelled_at, cancelled_again) {
        let _ = engine.call("POST", &format!("/tasks/{id}/cancel"), Some(json!({"reason": "sim cancel, after the end"})))?;
        stats.bump("fault:task_cancelled_again_after_its_terminal_status", 1);
    }
    engine.settle(30);
    if let Some((late_ms, _)) = sc.late {
        // a late writer (one the cancellation did not reach, or one the task did not wait for) still
        // has its bytes to write: nothing of it may show up after the terminal frame, so look again
        // once its time has passed (no wait at all when the terminal frame came after the writer)
        // the writer was launched at the latest when the cancellation arrived / the shell exited
        let launched_by = if cancelled { cancel_after_ms.unwrap_or(0) } else { 0 };
        let until = launched_by + late_ms + 400;
        while (t0.elapsed().as_millis() as u64) < until {
            engine.settle(10);
        }
        stats.bump(if cancelled { "cancelled_tasks_watched_past_their_late_writer" } else { "tasks_watched_past_their_late_writer" }, 1);
    }
    let truth = crate::model::parse_truth_file(&log_path).map_err(|e| e.reason)?;
    let frames = truth.stream("task", &id);

    // --- lifecycle
    let tys: Vec<String> = frames.iter().map(|f| if f.ty == "tool_task_status" { format!("status:{}", f.s("status").unwrap_or("?")) } else { f.ty.trim_start_matches("tool_task_").to_string() }).collect();
    let lc = |class: &str, detail: String| Ok(Some(viol(class, class.to_string(), format!("{detail}; frames: {tys:?}"))));
    if frames.is_empty() || frames[0].ty != "tool_task_spawned" || frames[0].seq != 0 {
        if bad.is_none() || frames.first().map(|f| f.ty.as_str()) != Some("tool_task_status") {
            return lc("task_stream_does_not_open_with_spawn", "the task stream does not open with its spawn frame".into());
        }
    }
    let running = frames.iter().filter(|f| f.ty == "tool_task_status" && f.s("status") == Some("running")).count();
    if running > 1 {
        return lc("task_running_reported_twice", format!("running reported {running} times"));
    }
    let terms: Vec<usize> = frames.iter().enumerate().filter(|(_, f)| terminal(f)).map(|(i, _)| i).collect();
    if terms.len() != 1 {
        return lc("task_terminal_status_count", format!("{} terminal status frames", terms.len()));
    }
    if terms[0] != frames.len() - 1 {
        return lc("task_frames_after_terminal_status", format!("terminal status is frame #{} of {}", terms[0], frames.len()));
    }
    let req = frames.iter().position(|f| f.ty == "tool_task_cancel_requested");
    let canc = frames.iter().position(|f| f.ty == "tool_task_cancelled");
    if final_status == "cancelled" || canc.is_some() {
        match (req, canc) {
            (Some(r), Some(c)) if r < c && c < terms[0] && final_status == "cancelled" => {}
            _ => return lc("task_cancel_frames_inconsistent", format!("cancel_requested at {req:?}, cancelled at {canc:?}, terminal status {final_status}")),
        }
    }
    if let Some(b) = bad {
        stats.bump("fault:task_cannot_start", 1);
        if final_status != "failed" {
            return lc("bad_task_not_failed", format!("{b:?} task ended {final_status}"));
        }
        return Ok(None);
    }
    if status_now["status"].as_str() != Some(final_status.as_str()) {
        return lc("status_endpoint_disagrees", format!("GET /tasks/{{id}} says {} right after the terminal frame {final_status}", status_now["status"]));
    }
    if final_status == "exited" && term.v.get("exit_code").and_then(|c| c.as_i64()) != Some(sc.exit_code as i64) {
        return lc("exit_code_wrong", format!("terminal frame exit_code {:?}, command exits {}", term.v.get("exit_code"), sc.exit_code));
    }

    // --- output
    let cap = sc.artifact_max_bytes;
    for (name, now_bytes, lid) in &stored_now {
        let expected = if name == "stdout" { &out } else { &err };
        let what = format!("task_{name}");
        let later = std::fs::read(blobs.join(lid)).ok();
        let complete = final_status == "exited";
        if complete {
            // what the process wrote is known exactly
            let sum = term.v.pointer(&format!("/artifacts/logs/{name}")).cloned().unwrap_or(Value::Null);
            if sum["bytes_total"].as_u64() != Some(expected.len() as u64) {
                return Ok(Some(viol("bytes_total_wrong", format!("bytes_total_wrong:{what}"), format!("{what}: terminal frame says bytes_total {}, process wrote {}", sum["bytes_total"], expected.len()))));
            }
            let want_stored = expected.len().min(cap);
            if sum["bytes_stored"].as_u64() != Some(want_stored as u64) || sum["truncated"].as_bool() != Some(expected.len() > cap) {
                return Ok(Some(viol("log_summary_wrong", format!("log_summary_wrong:{what}"), format!("{what}: summary {sum}; wrote {} cap {cap}", expected.len()))));
            }
            if let Some(v) = check_stored(&format!("{what}_at_terminal_frame"), now_bytes.as_deref().or(Some(&[])), expected, cap) {
                return Ok(Some(v));
            }
            if let Some(v) = check_stored(&format!("{what}_later"), later.as_deref().or(Some(&[])), expected, cap) {
                return Ok(Some(v));
            }
        } else if let Some(l) = &later {
            // cancelled: whatever was stored must still be a prefix
            if !expected[..expected.len().min(cap)].starts_with(l) {
                return Ok(Some(viol("stored_output_not_a_prefix", format!("stored_output_not_a_prefix:{what}_cancelled:bytes_differ"), format!("{what}: {} bytes stored after cancel are not a prefix of the output", l.len()))));
            }
        }
        let stored = later.clone().unwrap_or_default();
        // ranges referenced by output frames
        let stream_frames: Vec<&&crate::model::Frame> = frames.iter().filter(|f| f.ty == "tool_task_output_delta" && f.s("stream") == Some(name.as_str())).collect();
        let mut next = 0u64;
        let mut prev_total = 0u64;
        for f in &stream_frames {
            let Some(l) = f.v.pointer("/artifacts/log") else {
                continue;
            };
            let off = l["offset_bytes"].as_u64().unwrap_or(u64::MAX);
            let n = l["bytes"].as_u64().unwrap_or(0);
            if off != next {
                let kind = if off > next { "gap" } else { "overlap" };
                return Ok(Some(viol("output_ranges_not_consecutive", format!("output_ranges_not_consecutive:{what}:{kind}"), format!("{what}: frame seq {} references bytes {off}+{n}, previous ranges end at {next} (preview limit {}, cap {cap})", f.seq, sc.max_bytes))));
            }
            next = off + n;
            // the inline chunk is the text of a prefix of what the process wrote in that read (the
            // read covers payload bytes prev_total..bytes_total), within the limit
            let chunk = f.s("chunk").unwrap_or("");
            let limit = sc.max_bytes.min(8192);
            let total_after = l["bytes_total"].as_u64().unwrap_or(0);
            let read = expected.get(prev_total as usize..total_after as usize).unwrap_or(&[]);
            if complete && is_valid_utf8(expected) && is_valid_utf8(read) {
                if chunk.len() > limit || !read.starts_with(chunk.as_bytes()) {
                    return Ok(Some(viol("delta_chunk_not_a_prefix", format!("delta_chunk_not_a_prefix:{what}"), format!("{what}: frame seq {} chunk of {} bytes is not a prefix (limit {limit}) of the {} bytes the process wrote at {prev_total}", f.seq, chunk.len(), read.len()))));
                }
            }
            prev_total = total_after;
        }
        if complete && !stream_frames.is_empty() && sc.max_bytes >= 4 && next != stored.len() as u64 && stream_frames.iter().all(|f| f.v.pointer("/artifacts/log").is_some()) {
            return Ok(Some(viol("output_ranges_incomplete", format!("output_ranges_incomplete:{what}"), format!("{what}: ranges of the output frames end at {next}, {} bytes stored", stored.len()))));
        }
        // paging
        let mut fetch = |offset: u64, size: usize| -> Result<PageResult, String> {
            let (st, v) = engine.call_json("GET", &format!("/tasks/{id}/output?stream={name}&offset_bytes={offset}&max_bytes={size}"), None)?;
            if st != 200 {
                return Err(format!("output page: status {st}"));
            }
            Ok(PageResult { content: v["content"].as_str().unwrap_or("").to_string(), bytes: v["bytes"].as_u64().unwrap_or(0) as usize, total: v["total_bytes"].as_u64().unwrap_or(0), truncated: v["truncated"].as_bool().unwrap_or(false) })
        };
        if let Some(v) = page_through(&mut fetch, &stored, &sc.page_sizes, &format!("{what}_pages"), stats)? {
            return Ok(Some(v));
        }
    }
    let p = esim::panics_take();
    if !p.is_empty() {
        return Ok(Some(viol("engine_task_panicked", "engine_task_panicked".into(), format!("{p:?}"))));
    }
    Ok(None)
}

pub fn execute(sc: &Scenario, env: &Env) -> (Outcome, RunStats) {
    let mut stats = RunStats::default();
    stats.case_hash = fnv1a(serde_json::to_string(sc).unwrap_or_default().as_bytes());
    stats.nontrivial = sc.out.len + sc.err.len > 0;
    let _ = esim::panics_take();
    SLOW_MS.store(sc.slow_disk_ms, Ordering::SeqCst);
    let before = SLOWED.load(Ordering::SeqCst);
    seam::set_mode(seam::MODE_OFF);
    seam::set_root_prefix(env.root.to_str().unwrap_or(""));
    seam::set_report_reads(false);
    seam::set_capture_data(false);
    seam::set_effect_handler(Some(slow_disk));
    seam::set_mode(seam::MODE_MONITOR);
    let res = match sc.mode {
        Mode::Foreground => {
            stats.bump("mode:foreground_shell_tool", 1);
            run_foreground(sc, env, &mut stats)
        }
        Mode::Task { .. } => {
            stats.bump("mode:background_task", 1);
            run_task(sc, env, &mut stats)
        }
    };
    seam::set_mode(seam::MODE_OFF);
    seam::set_effect_handler(None);
    seam::set_report_reads(true);
    seam::set_root_prefix("");
    SLOW_MS.store(0, Ordering::SeqCst);
    stats.bump("fault:slow_disk_write_delayed", SLOWED.load(Ordering::SeqCst) - before);
    stats.bump("payload_bytes", (sc.out.len + sc.err.len) as u64);
    match res {
        Ok(None) => (Outcome::Ok, stats),
        Ok(Some(v)) => (Outcome::Violation(v), stats),
        Err(e) => (Outcome::Harness(e), stats),
    }
}

impl Check for C17 {
    fn id(&self) -> &'static str {
        "C17"
    }
    fn level(&self) -> &'static str {
        "exploration"
    }
    fn technique(&self) -> &'static str {
        "seeded simulation of the process side: real bash processes write seeded payloads (text, multi-byte, binary; sizes around the preview limit, the 8 KiB read size and the artifact cap) in seeded segment/pause patterns through the real foreground shell tool (seeded limits incl. 0) and through background tasks on the real router (seeded limits, cancellation moments, unstartable tasks); the libc seam injects a slow disk (every artifact-store write delayed by a seeded time); oracles: byte-for-byte comparison of stored output, previews, hashes, frame ranges and page sequences with the generated payload, and a lifecycle automaton over the task stream"
    }
    fn budget(&self, tier: Tier) -> Budget {
        match tier {
            Tier::Quick => Budget { runs: 640, secs: 160 },
            Tier::Thorough => Budget { runs: 24_000, secs: 2400 },
        }
    }
    fn generate(&self, run_seed: u64, tier: Tier) -> Value {
        serde_json::to_value(generate(run_seed, tier)).unwrap()
    }
    fn execute(&self, scenario: &Value, env: &Env) -> (Outcome, RunStats) {
        match serde_json::from_value::<Scenario>(scenario.clone()) {
            Ok(sc) => execute(&sc, env),
            Err(e) => (Outcome::Harness(format!("bad scenario: {e}")), RunStats::default()),
        }
    }
    fn shrink(&self, scenario: &Value) -> Vec<Value> {
        let Ok(sc) = serde_json::from_value::<Scenario>(scenario.clone()) else {
            return Vec::new();
        };
        let mut out: Vec<Scenario> = Vec::new();
        if sc.late.is_some() {
            let mut c = sc.clone();
            c.late = None;
            // the late bytes go back into the last stdout segment
            c.segs.push(Seg { stderr: false, len: sc.late.map(|l| l.1).unwrap_or(0), pause_ms_before: 0 });
            out.push(c);
        }
        let resegment = |c: &mut Scenario| {
            c.late = None;
            c.segs.clear();
            if c.out.len > 0 {
                c.segs.push(Seg { stderr: false, len: c.out.len, pause_ms_before: 0 });
            }
            if c.err.len > 0 {
                c.segs.push(Seg { stderr: true, len: c.err.len, pause_ms_before: 0 });
            }
        };
        if sc.err.len > 0 {
            let mut c = sc.clone();
            c.err.len = 0;
            c.segs.retain(|s| !s.stderr);
            out.push(c);
        }
        if sc.out.len > 0 && sc.err.len > 0 {
            let mut c = sc.clone();
            c.out.len = 0;
            c.segs.retain(|s| s.stderr);
            out.push(c);
        }
        if sc.segs.len() > 2 {
            let mut c = sc.clone();
            resegment(&mut c);
            out.push(c);
        }
        for half in [true, false] {
            let mut c = sc.clone();
            if half && c.out.len > 8 {
                c.out.len /= 2;
                resegment(&mut c);
                out.push(c);
            } else if !half && c.out.len > 1 {
                c.out.len -= 1;
                resegment(&mut c);
                out.push(c);
            }
        }
        if sc.slow_disk_ms > 0 {
            let mut c = sc.clone();
            c.slow_disk_ms = 0;
            out.push(c);
        }
        if sc.page_sizes.len() > 1 {
            for i in 0..sc.page_sizes.len() {
                let mut c = sc.clone();
                c.page_sizes = vec![sc.page_sizes[i]];
                out.push(c);
            }
        }
        if sc.exit_code != 0 {
            let mut c = sc.clone();
            c.exit_code = 0;
            out.push(c);
        }
        if let Mode::Task { cancel_after_ms: Some(_), limits_in_args, bad } = &sc.mode {
            let mut c = sc.clone();
            c.mode = Mode::Task { cancel_after_ms: None, limits_in_args: *limits_in_args, bad: bad.clone() };
            out.push(c);
        }
        for s in 0..sc.segs.len() {
            if sc.segs[s].pause_ms_before > 0 {
                let mut c = sc.clone();
                c.segs[s].pause_ms_before = 0;
                out.push(c);
            }
        }
        out.into_iter().map(|s| serde_json::to_value(s).unwrap()).collect()
    }
    fn attempts(&self) -> u32 {
        4
    }
    fn rule(&self) -> String {
        "one run = one seeded scenario: preview limit from {0,1,2,3,5,16,64,100,1000,8191,8192,8193,20000,512Ki}, artifact cap from {0,1,10,100,5000,8192,10000,30000,1Mi,16Mi}, a stdout and a stderr payload (ASCII lines with CR/LF, multi-byte text, arbitrary binary; 1 in 8 stdout payloads place a 3- or 4-byte character across the preview limit, 8192 or the cap with a paused segment boundary inside it) of a length drawn around 0, the preview limit, 8192, the cap, 3x8192 or up to 45 kB (200 kB thorough), cut into up to 13 segments per stream (1-7 bytes, up to 200 bytes, exactly 8192, 4-12 kB, the rest) that a real bash emits with `cat` in a seeded stdout/stderr interleaving with pauses of 0/3/8/20 ms; in 1 of 10 scenarios the last bytes of stdout are written 150/600/1400 ms later by a background descendant that outlives the shell and keeps the pipe open (the terminal frame must still come after all output and account for it); exit code from {0,1,3,127}, page sizes from {4..100000}, slow disk 0/5/25/60 ms per artifact-store write. Half the scenarios run the foreground shell tool through the real tool runner configured with those limits: bytes_total, preview (text of a prefix within the limit, as long as the limit allows), truncated flags, artifact present whenever output exceeds the preview and the cap is non-zero, stored bytes = prefix of the payload up to the cap read the moment the tool returned, id = sha256 of the stored bytes = file name, and artifact_fetch page sequences (offset advanced by the reported byte count) must terminate, respect the page size and total, and for single-line valid UTF-8 reproduce the stored text exactly. The other half create a background task through POST /tasks with the limits in its arguments (1 in 4 cancelled 0-60 ms after creation, 1 in 12 unstartable: invalid args, cwd escaping the workspace through `..`, absolute cwd, missing cwd): the task stream opens with the spawn frame at seq 0, running at most once, exactly one terminal status which is the last frame, cancel_requested < cancelled < terminal cancelled status and never a cancelled status without a recorded request, unstartable tasks fail, the status endpoint agrees with the terminal frame; for exited tasks the terminal frame's bytes_total/bytes_stored/truncated equal the payload's, the log file read the moment the terminal frame is visible (and again 30 ms later) equals the payload prefix up to the cap, output frames reference consecutive non-overlapping ranges covering the stored bytes with an inline chunk that is a prefix of its range within the limit, and GET /tasks/{id}/output page sequences reproduce valid UTF-8 output exactly; for cancelled tasks the stored bytes are a prefix. distinct = hash of the scenario; non-trivial = at least one payload byte".into()
    }
    fn assumptions(&self) -> Vec<String> {
        vec![
            "read chunking is steered through segment sizes and pauses of a real process, not dictated read by read; byte-equality oracles do not depend on it".into(),
            "page text is compared only for valid UTF-8 payloads and page sizes of at least 4 bytes (a page smaller than one character cannot be text); binary payloads are compared on disk byte for byte and by page byte counts".into(),
            "artifact_fetch text goes through the tool runner's line splitting, so its page text is compared only for payloads without line breaks".into(),
            "PTY tasks are not exercised (no PTY in this sandbox)".into(),
        ]
    }
    fn components(&self) -> Value {
        json!({
            "real": ["rip-tools shell tool (capture_stream, preview/artifact hand-over, finalize_artifact)", "rip-tools artifact_fetch", "rip-tools ToolRunner", "ripd::tasks engine, pipes runner, TaskLogWriter, read_artifact_range, cancellation", "ripd::server task routes", "real bash / cat / sleep subprocesses and OS pipes", "tokio current-thread runtime (real time)"],
            "stubbed": ["daemon HTTP listener (tower oneshot)"],
            "simulated": ["slow disk: libc write seam delays artifact-store writes by a seeded time"]
        })
    }
}
