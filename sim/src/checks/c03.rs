//! C03 — replay fidelity: live frames, log, sidecar and snapshot are the same frames; every frame
//! survives a write/read round trip and is assigned to the same stream.

use std::collections::BTreeMap;
use std::sync::{Arc, Mutex};

use rip_kernel::{Event, StreamKind};
use serde::{Deserialize, Serialize};
use serde_json::{json, Value};

use crate::driver::{Budget, Check, Env, Outcome, RunStats, Tier, Violation};
use crate::frames;
use crate::model::{self, canon};
use crate::prng::{fnv1a, Rng};
use crate::sched::{Point, Verdict};
use crate::seam::{Decision, EffectKind};
use crate::storesim::{self, SchedSpec};
use crate::world::{gen_op, Dirs, Op, World};

#[derive(Clone, Debug, Serialize, Deserialize, PartialEq)]
pub enum Scenario {
    /// (a) cross-copy agreement under concurrent writers, optionally with failing log writes
    Cross {
        sim_seed: u64,
        sched: SchedSpec,
        setup: Vec<Op>,
        actors: Vec<Vec<Op>>,
        fail_truth_writes: Vec<u32>,
        /// remove the rebuildable cache directory after the setup phase (the store keeps running)
        #[serde(default)]
        drop_caches: bool,
    },
    /// (b) serde round trip of generated frames through log, sidecar and snapshot
    RoundTrip { seed: u64, count: u32 },
    /// (c) whole-engine runs: what live subscribers received, the log, the per-thread sidecar and
    /// the session / task snapshots written by the real runs must agree frame for frame
    Engine { cfg: crate::esim::ProviderCfg, script: Vec<crate::esim::Resp>, inputs: Vec<EngineInput> },
}

#[derive(Clone, Debug, Serialize, Deserialize, PartialEq)]
pub enum EngineInput {
    Session(crate::checks::c07::Content),
    ThreadPost(crate::checks::c07::Content),
    Task(String),
    /// fault: from here on the artifact store is unwritable (its directory is replaced by a file), so
    /// the context of a provider-answered thread run cannot be compiled and the run ends on that
    /// error path
    BlockArtifacts,
}

fn generate_engine(run_seed: u64) -> Scenario {
    use crate::checks::c07::Content;
    let mut rng = Rng::derive(run_seed, "c03-engine");
    let mut uniq = 0u64;
    let cfg = crate::esim::ProviderCfg { tool_choice: crate::checks::c07::gen_tool_choice(&mut rng), stateless_history: rng.chance(1, 3), ..Default::default() };
    let mut script = Vec::new();
    for i in 0..rng.range(1, 3) {
        let r = crate::checks::c07::gen_resp(&mut rng, &mut uniq, true, i);
        script.push(r);
    }
    let last = crate::checks::c07::gen_resp(&mut rng, &mut uniq, false, 9);
    script.push(last);
    let content = |rng: &mut Rng, u: u64| match rng.below(4) {
        0 | 1 => Content::Prompt(format!("question {u} with ünïcode and \u{2028} separators")),
        2 => Content::Tool { tool: "bash".into(), args: json!({"command": format!("echo out{u}; echo err{u} 1>&2; printf 'tab\\there'")}), timeout_ms: None },
        _ => Content::Tool { tool: "write".into(), args: json!({"path": format!("f{u}.txt"), "content": "x\n"}), timeout_ms: None },
    };
    let mut inputs = Vec::new();
    for u in 0..rng.range(1, 4) {
        inputs.push(match rng.below(5) {
            0 | 1 => EngineInput::Session(content(&mut rng, u)),
            2 | 3 => EngineInput::ThreadPost(content(&mut rng, u)),
            _ => EngineInput::Task(format!("echo task{u}; echo e{u} 1>&2; exit {}", rng.below(3))),
        });
    }
    // own sub-stream: 1 in 3 engine scenarios lose the artifact store at some point and post a
    // prompt to the thread after that
    let mut f = Rng::derive(run_seed, "c03-engine:artifact-store");
    if f.chance(1, 3) {
        let at = f.usize_below(inputs.len() + 1);
        inputs.insert(at, EngineInput::BlockArtifacts);
        inputs.push(EngineInput::ThreadPost(Content::Prompt("a question asked after the artifact store was lost".into())));
    }
    // own sub-stream: 1 in 4 background tasks leave a descendant behind that keeps the pipes open
    // and writes 450-700 ms after the shell has exited (frames that arrive late must still be in the
    // snapshot); 1 in 30 engine scenarios are one very long run — 35 000-36 500 text deltas, two
    // frames each, more than any bounded in-memory history would keep
    let mut l = Rng::derive(run_seed, "c03-engine:late-and-long");
    for i in inputs.iter_mut() {
        if let EngineInput::Task(cmd) = i {
            if l.chance(1, 4) {
                let ms = l.range(450, 700);
                *cmd = cmd.replacen("; exit", &format!("; (sleep 0.{ms:03}; echo late) & exit"), 1);
            }
        }
    }
    if l.chance(1, 30) {
        use crate::esim::{Chunking, DoneMode, Resp, SseEv};
        let n = l.range(35_000, 36_500);
        let mut events = vec![SseEv::Created { id: "resp_long".into() }];
        for i in 0..n {
            events.push(SseEv::TextDelta { text: format!("w{i} ") });
        }
        events.push(SseEv::Completed { id: "resp_long".into() });
        let script = vec![Resp::Sse { events, interleave: false, done: DoneMode::Present, chunking: Chunking::Whole, drop_after: None, crlf: false }];
        let inputs = vec![if l.chance(1, 2) { EngineInput::Session(Content::Prompt("say a very great deal".into())) } else { EngineInput::ThreadPost(Content::Prompt("say a very great deal".into())) }];
        return Scenario::Engine { cfg: crate::esim::ProviderCfg::default(), script, inputs };
    }
    Scenario::Engine { cfg, script, inputs }
}

fn engine_run(cfg: &crate::esim::ProviderCfg, script: &[crate::esim::Resp], inputs: &[EngineInput], env: &Env) -> (Outcome, RunStats) {
    use crate::esim::Engine;
    use std::sync::atomic::Ordering;
    let mut stats = RunStats::default();
    stats.case_hash = crate::prng::fnv1a(serde_json::to_string(&(cfg, script, inputs)).unwrap_or_default().as_bytes());
    let engine = match Engine::new(&env.root.join("e"), cfg, script.to_vec(), true) {
        Ok(e) => e,
        Err(e) => return (Outcome::Harness(e), stats),
    };
    let res: Result<Option<Violation>, String> = (|| {
        let (_, v) = engine.call_json("POST", "/threads/ensure", None)?;
        let tid = v["thread_id"].as_str().unwrap_or("").to_string();
        // live subscribers: the thread from the start, each session/task as soon as it exists
        let thread_sub = crate::checks::c06::spawn_sub(&engine, &format!("/threads/{tid}/events"), crate::checks::c06::When::BeforeStart);
        engine.settle(2);
        let mut streams: Vec<(String, &'static str, String, crate::checks::c06::Sub)> = Vec::new(); // id, kind, snapshot path, sub
        let mut run_sessions: Vec<String> = Vec::new();
        for inp in inputs {
            match inp {
                EngineInput::Session(c) => {
                    let (st, v) = engine.call_json("POST", "/sessions", None)?;
                    if st != 201 {
                        return Err(format!("create session: {st}"));
                    }
                    let sid = v["session_id"].as_str().unwrap_or("").to_string();
                    let sub = crate::checks::c06::spawn_sub(&engine, &format!("/sessions/{sid}/events"), crate::checks::c06::When::BeforeStart);
                    engine.settle(2);
                    let (st, _) = engine.call("POST", &format!("/sessions/{sid}/input"), Some(json!({"input": c.render(&[])})))?;
                    if st != 202 {
                        return Err(format!("input: {st}"));
                    }
                    streams.push((sid.clone(), "session", format!("snapshots/{sid}.json"), sub));
                }
                EngineInput::ThreadPost(c) => {
                    let (st, v) = engine.call_json("POST", &format!("/threads/{tid}/messages"), Some(json!({"content": c.render(&[])})))?;
                    if st != 202 {
                        return Err(format!("post: {st}"));
                    }
                    let sid = v["session_id"].as_str().unwrap_or("").to_string();
                    let sub = crate::checks::c06::spawn_sub(&engine, &format!("/sessions/{sid}/events"), crate::checks::c06::When::BeforeStart);
                    run_sessions.push(sid.clone());
                    streams.push((sid.clone(), "session", format!("snapshots/{sid}.json"), sub));
                }
                EngineInput::BlockArtifacts => {
                    crate::checks::c07::block_artifacts(&engine.ws);
                    stats.bump("fault:artifact_store_unwritable", 1);
                }
                EngineInput::Task(cmd) => {
                    let (st, v) = engine.call_json("POST", "/tasks", Some(json!({"tool": "bash", "args": {"command": cmd}})))?;
                    if st != 201 {
                        return Err(format!("create task: {st}"));
                    }
                    let id = v["task_id"].as_str().unwrap_or("").to_string();
                    let sub = crate::checks::c06::spawn_sub(&engine, &format!("/tasks/{id}/events"), crate::checks::c06::When::BeforeStart);
                    streams.push((id.clone(), "task", format!("task_snapshots/{id}.json"), sub));
                }
            }
        }
        let ids: Vec<(String, &'static str)> = streams.iter().map(|s| (s.0.clone(), s.1)).collect();
        if script.iter().any(|r| matches!(r, crate::esim::Resp::Sse { events, .. } if events.len() > 10_000)) {
            // a very long run: wait for the log to stop growing before parsing it at every tick
            let log_file = engine.data.join("events.jsonl");
            let mut last = (0u64, std::time::Instant::now());
            let t0 = std::time::Instant::now();
            while t0.elapsed() < std::time::Duration::from_secs(150) {
                let n = std::fs::metadata(&log_file).map(|m| m.len()).unwrap_or(0);
                if n != last.0 {
                    last = (n, std::time::Instant::now());
                }
                if n > 1_000_000 && last.1.elapsed() > std::time::Duration::from_millis(800) {
                    break;
                }
                engine.settle(25);
            }
        }
        engine.wait_until(std::time::Duration::from_secs(60), |t| {
            ids.iter().all(|(id, kind)| match *kind {
                "session" => t.frames.iter().any(|f| f.stream_id == *id && f.ty == "session_ended"),
                _ => t.frames.iter().any(|f| f.stream_id == *id && f.ty == "tool_task_status" && matches!(f.s("status"), Some("exited") | Some("failed") | Some("cancelled"))),
            }) && run_sessions.iter().all(|s| t.frames.iter().any(|f| f.ty == "continuity_run_ended" && f.s("run_session_id") == Some(s.as_str())))
        })?;
        // snapshots are written right after the terminal frame
        let data = engine.data.clone();
        let start = std::time::Instant::now();
        while start.elapsed() < std::time::Duration::from_secs(5) && !streams.iter().all(|s| data.join(&s.2).exists()) {
            engine.settle(5);
        }
        engine.settle(20);
        let truth = model::parse_truth_file(&data.join("events.jsonl")).map_err(|e| format!("truth: {}", e.reason))?;
        let canon_list = |v: &[Value]| -> Vec<String> { v.iter().map(model::canon).collect() };
        if truth.frames.len() > 5_000 {
            // a very long stream: its subscriber is still being served; wait until the bytes settle
            let mut last = (0usize, std::time::Instant::now());
            let t0 = std::time::Instant::now();
            while t0.elapsed() < std::time::Duration::from_secs(40) {
                let n: usize = streams.iter().map(|s| s.3.buf.lock().unwrap().len()).sum();
                if n != last.0 {
                    last = (n, std::time::Instant::now());
                }
                if last.1.elapsed() > std::time::Duration::from_millis(500) {
                    break;
                }
                engine.settle(20);
            }
            stats.bump("very_long_runs", 1);
        }
        for (id, kind, snap, sub) in &streams {
            let log: Vec<Value> = truth.stream(kind, id).iter().map(|f| f.v.clone()).collect();
            stats.bump("engine_streams_compared", 1);
            stats.bump("engine_frames_compared", log.len() as u64);
            // live
            let live = crate::checks::c06::parse_sse_frames(&sub.buf.lock().unwrap());
            if sub.status.load(Ordering::SeqCst) == 200 && canon_list(&live) != canon_list(&log) {
                let i = live.iter().zip(log.iter()).position(|(a, b)| model::canon(a) != model::canon(b)).unwrap_or(live.len().min(log.len()));
                return Ok(Some(Violation { class: "live_differs_from_log".into(), signature: format!("live_differs_from_log:engine:{kind}"), detail: format!("{kind} {id}: subscriber received {} frames, log holds {}; first difference at #{i}: live {} vs log {}", live.len(), log.len(), live.get(i).map(|v| v.to_string()).unwrap_or_default().chars().take(300).collect::<String>(), log.get(i).map(|v| v.to_string()).unwrap_or_default().chars().take(300).collect::<String>()) }));
            }
            // snapshot
            let sp = data.join(snap);
            let Ok(bytes) = std::fs::read(&sp) else {
                return Ok(Some(Violation { class: "snapshot_missing".into(), signature: format!("snapshot_missing:engine:{kind}"), detail: format!("{kind} {id} ended but {} does not exist", sp.display()) }));
            };
            let snap_v: Vec<Value> = serde_json::from_slice(&bytes).map_err(|e| format!("snapshot {}: {e}", sp.display()))?;
            if canon_list(&snap_v) != canon_list(&log) {
                let i = snap_v.iter().zip(log.iter()).position(|(a, b)| model::canon(a) != model::canon(b)).unwrap_or(snap_v.len().min(log.len()));
                return Ok(Some(Violation { class: "snapshot_differs_from_log".into(), signature: format!("snapshot_differs_from_log:engine:{kind}"), detail: format!("{kind} {id}: snapshot holds {} frames, log holds {}; first difference at #{i}: snapshot {} vs log {}", snap_v.len(), log.len(), snap_v.get(i).map(|v| v.to_string()).unwrap_or_default().chars().take(300).collect::<String>(), log.get(i).map(|v| v.to_string()).unwrap_or_default().chars().take(300).collect::<String>()) }));
            }
        }
        // the thread: live vs log vs sidecar
        let log: Vec<Value> = truth.stream("continuity", &tid).iter().map(|f| f.v.clone()).collect();
        let want = log.len();
        let start = std::time::Instant::now();
        while start.elapsed() < std::time::Duration::from_secs(5) && crate::checks::c06::parse_sse_frames(&thread_sub.buf.lock().unwrap()).len() < want {
            engine.settle(5);
        }
        let live = crate::checks::c06::parse_sse_frames(&thread_sub.buf.lock().unwrap());
        if canon_list(&live) != canon_list(&log) {
            return Ok(Some(Violation { class: "live_differs_from_log".into(), signature: "live_differs_from_log:engine:continuity".into(), detail: format!("thread {tid}: subscriber received {} frames, log holds {}", live.len(), log.len()) }));
        }
        let side = std::fs::read_to_string(data.join("continuity_streams").join(format!("{tid}.jsonl"))).unwrap_or_default();
        let side_v: Vec<Value> = side.lines().filter_map(|l| serde_json::from_str(l).ok()).collect();
        if canon_list(&side_v) != canon_list(&log) {
            return Ok(Some(Violation { class: "sidecar_differs_from_log".into(), signature: "sidecar_differs_from_log:engine".into(), detail: format!("thread {tid}: sidecar holds {} frames, log holds {}", side_v.len(), log.len()) }));
        }
        stats.bump("engine_streams_compared", 1);
        stats.nontrivial = true;
        for s in &streams {
            s.3.handle.abort();
        }
        thread_sub.handle.abort();
        Ok(None)
    })();
    drop(engine);
    match res {
        Ok(None) => (Outcome::Ok, stats),
        Ok(Some(v)) => (Outcome::Violation(v), stats),
        Err(e) => (Outcome::Harness(e), stats),
    }
}

pub struct C03;

pub fn generate(run_seed: u64, tier: Tier) -> Scenario {
    if Rng::derive(run_seed, "c03-kind").chance(1, 40) {
        return generate_engine(run_seed);
    }
    let mut rng = Rng::derive(run_seed, "ops");
    if rng.chance(1, 2) {
        return Scenario::RoundTrip { seed: rng.next_u64(), count: rng.range(10, if tier == Tier::Quick { 60 } else { 200 }) as u32 };
    }
    let n_actors = rng.range(1, 3) as usize;
    let mut actors: Vec<Vec<Op>> = vec![Vec::new(); n_actors];
    for _ in 0..rng.range(4, 24) {
        let a = rng.usize_below(n_actors);
        let big = rng.below(10) == 0;
        actors[a].push(gen_op(&mut rng, big));
    }
    let mut fails = Vec::new();
    if rng.chance(1, 3) {
        for _ in 0..rng.range(1, 3) {
            fails.push(rng.below(40) as u32);
        }
        fails.sort();
        fails.dedup();
    }
    let mut srng = Rng::derive(run_seed, "sched-spec");
    Scenario::Cross {
        sim_seed: crate::prng::mix_label(run_seed, "sim"),
        sched: SchedSpec::generate(&mut srng, 400),
        setup: vec![Op::EnsureDefault, Op::AppendMessage { thread: 0, size: 1 }],
        actors,
        fail_truth_writes: fails,
        drop_caches: rng.chance(1, 4),
    }
}

fn ev_value(e: &Event) -> Value {
    serde_json::to_value(e).unwrap_or(Value::Null)
}

fn cross(sim_seed: u64, sched: &SchedSpec, setup: &[Op], actors: &[Vec<Op>], fail_truth_writes: &[u32], drop_caches: bool, env: &Env) -> (Outcome, RunStats) {
    let mut stats = RunStats::default();
    let dirs = storesim::begin_run(&env.root, sim_seed, 250_000);
    let world = Arc::new(World::new(dirs.clone()));
    let finish = |o: Outcome, mut stats: RunStats| {
        stats.sim_time_ns = storesim::end_run();
        (o, stats)
    };
    if let Err(e) = storesim::open_world(&world) {
        return finish(Outcome::Harness(format!("open: {e}")), stats);
    }
    let mut rx = world.st().store.subscribe();
    let truth_str = dirs.truth_path().to_string_lossy().to_string();
    let _ = storesim::run_phase(&world, &[setup.to_vec()], 100, sched.config(0), |_| Verdict::proceed());
    if drop_caches {
        let _ = std::fs::remove_dir_all(dirs.streams_dir());
        stats.bump("fault:cache_dir_removed_while_running", 1);
    }
    let counter = Arc::new(Mutex::new((0u32, 0u64)));
    let c2 = counter.clone();
    let fails = fail_truth_writes.to_vec();
    let rep = storesim::run_phase(&world, actors, 0, sched.config(1), move |ev| {
        if let Point::Fs(e) = &ev.point {
            if e.kind == EffectKind::Write && e.path == truth_str {
                let mut g = c2.lock().unwrap();
                let k = g.0;
                g.0 += 1;
                if fails.contains(&k) {
                    g.1 += 1;
                    return Verdict { decision: Decision::Fail(libc::ENOSPC), stop: false };
                }
            }
        }
        Verdict::proceed()
    });
    if let Some(p) = storesim::harness_problem(&rep) {
        return finish(Outcome::Harness(p), stats);
    }
    let injected = counter.lock().unwrap().1;
    stats.bump("fault:truth_write_enospc", injected);
    stats.bump("context_switches", rep.context_switches);
    stats.case_hash = rep.trace_hash ^ injected;
    // live frames
    let mut live: Vec<Event> = Vec::new();
    loop {
        match rx.try_recv() {
            Ok(e) => live.push(e),
            Err(tokio::sync::broadcast::error::TryRecvError::Empty) | Err(tokio::sync::broadcast::error::TryRecvError::Closed) => break,
            Err(tokio::sync::broadcast::error::TryRecvError::Lagged(_)) => return finish(Outcome::Harness("subscriber lagged".into()), stats),
        }
    }
    // what the store itself replays for every thread (whatever read path it picks)
    let replayed: Arc<Mutex<BTreeMap<String, Result<Vec<Value>, String>>>> = Arc::new(Mutex::new(BTreeMap::new()));
    {
        let (w, r2) = (world.clone(), replayed.clone());
        let ids: Vec<String> = model::parse_truth_file(&dirs.truth_path()).map(|t| t.thread_ids()).unwrap_or_default();
        let _ = storesim::run_single("replayer", move || {
            let st = w.st();
            for t in ids {
                let r = st.store.replay_events(&t).map(|ev| ev.iter().map(ev_value).collect::<Vec<_>>()).map_err(|e| e.to_string());
                r2.lock().unwrap().insert(t, r);
            }
        });
    }
    world.close();
    stats.bump("live_frames", live.len() as u64);
    let truth = match model::parse_truth_file(&dirs.truth_path()) {
        Ok(t) => t,
        Err(e) => {
            // after an injected write error a partial line is the store's problem under C02/C05, not judged here
            if injected > 0 {
                return finish(Outcome::Ok, stats);
            }
            return finish(Outcome::Violation(Violation { class: "truth_unparseable".into(), signature: "truth_unparseable".into(), detail: e.reason }), stats);
        }
    };
    stats.nontrivial = live.len() >= 5 && rep.context_switches >= 1;
    let by_id: BTreeMap<&str, &model::Frame> = truth.frames.iter().map(|f| (f.id.as_str(), f)).collect();
    let fault_free = injected == 0;
    // (i) live vs (ii) log
    for e in &live {
        let v = ev_value(e);
        match by_id.get(e.id.as_str()) {
            None => {
                return finish(
                    Outcome::Violation(Violation {
                        class: "live_frame_not_in_log".into(),
                        signature: format!("live_frame_not_in_log:{}", if fault_free { "no_fault" } else { "after_log_write_error" }),
                        detail: format!("a subscriber received frame {} ({}, seq {} of {}) which is not in events.jsonl", e.id, v["type"], e.seq, e.session_id),
                    }),
                    stats,
                )
            }
            Some(f) => {
                if canon(&f.v) != canon(&v) {
                    return finish(Outcome::Violation(Violation { class: "live_frame_differs_from_log".into(), signature: "live_frame_differs_from_log".into(), detail: format!("live {} vs log {}", canon(&v), canon(&f.v)) }), stats);
                }
            }
        }
    }
    if fault_free {
        for t in truth.thread_ids() {
            let want: Vec<&str> = truth.thread(&t).iter().map(|f| f.id.as_str()).collect();
            let got: Vec<&str> = live.iter().filter(|e| e.session_id == t).map(|e| e.id.as_str()).collect();
            if want != got {
                let idx = want.iter().zip(got.iter()).position(|(a, b)| a != b).unwrap_or(want.len().min(got.len()));
                return finish(
                    Outcome::Violation(Violation {
                        class: "live_sequence_differs_from_log".into(),
                        signature: format!("live_sequence_differs_from_log:{}", if got.len() < want.len() { "missing" } else if got.len() > want.len() { "extra" } else { "order" }),
                        detail: format!("thread {t}: the log holds {} frames, the subscriber received {}; first difference at #{idx}", want.len(), got.len()),
                    }),
                    stats,
                );
            }
        }
        stats.bump("threads_compared_live_vs_log", truth.thread_ids().len() as u64);
    }
    // store replay vs log
    if fault_free {
        for (t, r) in replayed.lock().unwrap().iter() {
            let want: Vec<String> = truth.thread(t).iter().map(|f| canon(&f.v)).collect();
            match r {
                Ok(got) => {
                    let got: Vec<String> = got.iter().map(canon).collect();
                    if got != want {
                        return finish(
                            Outcome::Violation(Violation {
                                class: "store_replay_differs_from_log".into(),
                                signature: format!(
                                    "store_replay_differs_from_log:{}:{}",
                                    if drop_caches { "after_cache_dir_removed" } else { "caches_intact" },
                                    {
                                        // shape of the sidecar the store trusted
                                        let image = crate::faults::read_tree(&dirs.data);
                                        let st = crate::checks::c04::stale_wellformed_sidecars(&image, &truth, t);
                                        st.iter().find(|x| x.starts_with("full=")).cloned().unwrap_or_else(|| "full=exact_or_absent".into())
                                    }
                                ),
                                detail: format!("thread {t}: replay_events returns {} frames, the log holds {}", got.len(), want.len()),
                            }),
                            stats,
                        );
                    }
                }
                Err(e) => return finish(Outcome::Violation(Violation { class: "store_replay_failed".into(), signature: "store_replay_failed".into(), detail: format!("thread {t}: {e}") }), stats),
            }
            stats.bump("threads_compared_store_replay_vs_log", 1);
        }
    }
    // (iii) sidecar vs log
    for t in truth.thread_ids() {
        let p = dirs.streams_dir().join(format!("{t}.jsonl"));
        let Ok(bytes) = std::fs::read(&p) else { continue };
        let mut ids: Vec<String> = Vec::new();
        for line in bytes.split(|b| *b == b'\n') {
            if line.is_empty() {
                continue;
            }
            let Ok(v) = serde_json::from_slice::<Value>(line) else {
                if fault_free {
                    return finish(Outcome::Violation(Violation { class: "sidecar_line_unparseable".into(), signature: "sidecar_line_unparseable".into(), detail: format!("thread {t}") }), stats);
                }
                continue;
            };
            let id = v["id"].as_str().unwrap_or("").to_string();
            match by_id.get(id.as_str()) {
                None => {
                    return finish(
                        Outcome::Violation(Violation {
                            class: "sidecar_frame_not_in_log".into(),
                            signature: format!("sidecar_frame_not_in_log:{}", if fault_free { "no_fault" } else { "after_log_write_error" }),
                            detail: format!("sidecar of thread {t} holds frame {id} ({}) which is not in events.jsonl", v["type"]),
                        }),
                        stats,
                    )
                }
                Some(f) => {
                    if canon(&f.v) != canon(&v) {
                        return finish(Outcome::Violation(Violation { class: "sidecar_frame_differs_from_log".into(), signature: "sidecar_frame_differs_from_log".into(), detail: format!("sidecar {} vs log {}", canon(&v), canon(&f.v)) }), stats);
                    }
                }
            }
            ids.push(id);
        }
        if fault_free && !drop_caches {
            let want: Vec<String> = truth.thread(&t).iter().map(|f| f.id.clone()).collect();
            if want != ids {
                return finish(Outcome::Violation(Violation { class: "sidecar_sequence_differs_from_log".into(), signature: "sidecar_sequence_differs_from_log".into(), detail: format!("thread {t}: log {} frames, sidecar {}", want.len(), ids.len()) }), stats);
            }
            stats.bump("threads_compared_sidecar_vs_log", 1);
        }
    }
    finish(Outcome::Ok, stats)
}

fn round_trip(seed: u64, count: u32, env: &Env) -> (Outcome, RunStats) {
    let mut stats = RunStats::default();
    let _ = std::fs::remove_dir_all(&env.root);
    let dirs = Dirs::fresh(&env.root);
    let mut rng = Rng::derive(seed, "frames");
    stats.case_hash = fnv1a(&seed.to_le_bytes());
    stats.nontrivial = true;
    let fail = |class: &str, sig: String, detail: String, stats: RunStats| (Outcome::Violation(Violation { class: class.into(), signature: sig, detail }), stats);
    // a synthetic thread, a synthetic session and a synthetic task
    let mut thread: Vec<Event> = Vec::new();
    let mut session: Vec<Event> = Vec::new();
    let mut task: Vec<Event> = Vec::new();
    for i in 0..count as u64 {
        let which = rng.next_u64();
        match rng.below(3) {
            0 => thread.push(Event { id: format!("t{i}"), session_id: "thread-x".into(), timestamp_ms: frames::n(&mut rng), seq: thread.len() as u64, kind: frames::continuity_kind(&mut rng, which) }),
            1 => session.push(Event { id: format!("s{i}"), session_id: "session-x".into(), timestamp_ms: frames::n(&mut rng), seq: session.len() as u64, kind: frames::session_kind(&mut rng, which) }),
            _ => task.push(Event { id: format!("k{i}"), session_id: "task-x".into(), timestamp_ms: frames::n(&mut rng), seq: task.len() as u64, kind: frames::task_kind(&mut rng, which) }),
        }
    }
    let log = match rip_log::EventLog::new(dirs.truth_path()) {
        Ok(l) => Arc::new(l),
        Err(e) => return (Outcome::Harness(format!("log: {e}")), stats),
    };
    let mut all: Vec<&Event> = Vec::new();
    let (mut a, mut b, mut c) = (thread.iter(), session.iter(), task.iter());
    loop {
        let mut any = false;
        for it in [&mut a as &mut dyn Iterator<Item = &Event>, &mut b, &mut c] {
            if let Some(e) = it.next() {
                all.push(e);
                any = true;
            }
        }
        if !any {
            break;
        }
    }
    for e in &all {
        if let Err(err) = log.append(e) {
            return (Outcome::Harness(format!("append: {err}")), stats);
        }
    }
    stats.bump("frames_round_tripped", all.len() as u64);
    let ty = |e: &Event| ev_value(e)["type"].as_str().unwrap_or("").to_string();
    // log round trip
    let replayed = match log.replay() {
        Ok(r) => r,
        Err(e) => return fail("log_replay_failed", "log_replay_failed".into(), format!("replay of {} generated frames failed: {e}", all.len()), stats),
    };
    if replayed.len() != all.len() {
        return fail("log_round_trip", "log_round_trip_count".into(), format!("{} written, {} read", all.len(), replayed.len()), stats);
    }
    for (w, r) in all.iter().zip(replayed.iter()) {
        if canon(&ev_value(w)) != canon(&ev_value(r)) {
            return fail("log_round_trip", format!("log_round_trip_field:{}", ty(w)), format!("frame {} changed in a log round trip: wrote {} ; read {}", w.id, brief(&canon(&ev_value(w))), brief(&canon(&ev_value(r)))), stats);
        }
        if w.stream_kind() != r.stream_kind() || w.stream_id() != r.stream_id() {
            return fail("stream_assignment", format!("stream_assignment:{}", ty(w)), format!("frame {} written to {:?}/{} read back as {:?}/{}", w.id, w.stream_kind(), w.stream_id(), r.stream_kind(), r.stream_id()), stats);
        }
    }
    // the wire form names the stream the model expects
    if let Err(e) = model::parse_truth_file(&dirs.truth_path()) {
        return fail("wire_stream_kind", "wire_stream_kind".into(), e.reason, stats);
    }
    // per-stream replay
    for (kind, id, want) in [(StreamKind::Continuity, "thread-x", &thread), (StreamKind::Session, "session-x", &session), (StreamKind::Task, "task-x", &task)] {
        match log.replay_stream(kind, id) {
            Ok(got) => {
                if got.len() != want.len() || got.iter().zip(want.iter()).any(|(g, w)| canon(&ev_value(g)) != canon(&ev_value(w))) {
                    return fail("stream_replay", format!("stream_replay:{kind:?}"), format!("{kind:?}/{id}: wrote {} frames, stream replay returns {}", want.len(), got.len()), stats);
                }
            }
            Err(e) => return fail("stream_replay", format!("stream_replay_failed:{kind:?}"), e.to_string(), stats),
        }
    }
    // snapshot round trip
    for (name, set) in [("session-x", &session), ("task-x", &task)] {
        if set.is_empty() {
            continue;
        }
        let path = match rip_log::write_snapshot(dirs.snapshots_dir(), name, set) {
            Ok(p) => p,
            Err(e) => return (Outcome::Harness(format!("snapshot: {e}")), stats),
        };
        match rip_log::read_snapshot(&path) {
            Ok(got) => {
                for (w, r) in set.iter().zip(got.iter()) {
                    if canon(&ev_value(w)) != canon(&ev_value(r)) {
                        return fail("snapshot_round_trip", format!("snapshot_round_trip_field:{}", ty(w)), format!("wrote {} ; read {}", brief(&canon(&ev_value(w))), brief(&canon(&ev_value(r)))), stats);
                    }
                }
                if got.len() != set.len() {
                    return fail("snapshot_round_trip", "snapshot_round_trip_count".into(), format!("{} vs {}", set.len(), got.len()), stats);
                }
                if let Err(e) = rip_log::verify_snapshot(&log, &path) {
                    return fail("snapshot_verify", "snapshot_verify".into(), e.to_string(), stats);
                }
            }
            Err(e) => return fail("snapshot_round_trip", "snapshot_unreadable".into(), e.to_string(), stats),
        }
    }
    // sidecar round trip (truth path builds the sidecar, the second call reads it)
    if !thread.is_empty() {
        match ripd::ContinuityStore::new(dirs.data.clone(), dirs.workspace.clone(), log.clone()) {
            Ok(store) => {
                for pass in ["truth_path", "sidecar_path"] {
                    match store.replay_events("thread-x") {
                        Ok(got) => {
                            if got.len() != thread.len() {
                                return fail("sidecar_round_trip", format!("sidecar_round_trip_count:{pass}"), format!("{} vs {}", thread.len(), got.len()), stats);
                            }
                            for (w, r) in thread.iter().zip(got.iter()) {
                                if canon(&ev_value(w)) != canon(&ev_value(r)) {
                                    return fail("sidecar_round_trip", format!("sidecar_round_trip_field:{}:{pass}", ty(w)), format!("wrote {} ; read {}", brief(&canon(&ev_value(w))), brief(&canon(&ev_value(r)))), stats);
                                }
                            }
                        }
                        Err(e) => return fail("sidecar_round_trip", format!("sidecar_replay_failed:{pass}"), e.to_string(), stats),
                    }
                }
            }
            Err(e) => return (Outcome::Harness(e), stats),
        }
    }
    // typed round trip: the Rust value read back equals the value written (Debug form), which
    // sees differences the JSON comparison cannot (e.g. Some([]) vs None behind a skip rule)
    for (w, r) in all.iter().zip(replayed.iter()) {
        // an optional JSON value that is present and null is indistinguishable from an absent one
        // after any JSON round trip; the JSON comparison above is the one that judges that case
        let norm = |s: String| s.replace("Some(Null)", "None");
        if norm(format!("{:?}", w.kind)) != norm(format!("{:?}", r.kind)) {
            return fail("typed_round_trip", format!("typed_round_trip:{}", ty(w)), format!("frame {}: wrote {} ; read {}", w.id, brief(&format!("{:?}", w.kind)), brief(&format!("{:?}", r.kind))), stats);
        }
    }
    (Outcome::Ok, stats)
}

fn brief(s: &str) -> String {
    if s.len() > 500 {
        let mut cut = 500;
        while !s.is_char_boundary(cut) {
            cut -= 1;
        }
        format!("{}…", &s[..cut])
    } else {
        s.to_string()
    }
}

pub fn execute(sc: &Scenario, env: &Env) -> (Outcome, RunStats) {
    match sc {
        Scenario::Cross { sim_seed, sched, setup, actors, fail_truth_writes, drop_caches } => {
            let (o, mut s) = cross(*sim_seed, sched, setup, actors, fail_truth_writes, *drop_caches, env);
            s.bump("cross_copy_runs", 1);
            (o, s)
        }
        Scenario::RoundTrip { seed, count } => {
            let (o, mut s) = round_trip(*seed, *count, env);
            s.bump("round_trip_runs", 1);
            (o, s)
        }
        Scenario::Engine { cfg, script, inputs } => {
            let (o, mut s) = engine_run(cfg, script, inputs, env);
            s.bump("engine_runs", 1);
            (o, s)
        }
    }
}

impl Check for C03 {
    fn id(&self) -> &'static str {
        "C03"
    }
    fn level(&self) -> &'static str {
        "exploration"
    }
    fn technique(&self) -> &'static str {
        "(a) deterministic simulation: concurrent store actors under the baton scheduler with a live subscriber and injected log-write errors, cross-copy oracle live/log/sidecar; (b) seeded frame generation (every variant, optional fields, extremes) round-tripped through log, per-stream replay, snapshot and sidecar — input generation, labelled as such"
    }
    fn budget(&self, tier: Tier) -> Budget {
        match tier {
            Tier::Quick => Budget { runs: 12_000, secs: 45 },
            Tier::Thorough => Budget { runs: 500_000, secs: 1200 },
        }
    }
    fn generate(&self, run_seed: u64, tier: Tier) -> Value {
        serde_json::to_value(generate(run_seed, tier)).unwrap()
    }
    fn execute(&self, scenario: &Value, env: &Env) -> (Outcome, RunStats) {
        match serde_json::from_value::<Scenario>(scenario.clone()) {
            Ok(sc) => execute(&sc, env),
            Err(e) => (Outcome::Harness(format!("bad scenario: {e}")), RunStats::default()),
        }
    }
    fn shrink(&self, scenario: &Value) -> Vec<Value> {
        let Ok(sc) = serde_json::from_value::<Scenario>(scenario.clone()) else {
            return Vec::new();
        };
        let mut out: Vec<Scenario> = Vec::new();
        match &sc {
            Scenario::Engine { cfg, script, inputs } => {
                for i in (0..inputs.len()).rev() {
                    if inputs.len() > 1 {
                        let mut c = inputs.clone();
                        c.remove(i);
                        out.push(Scenario::Engine { cfg: cfg.clone(), script: script.clone(), inputs: c });
                    }
                }
                for i in (0..script.len()).rev() {
                    if script.len() > 1 {
                        let mut c = script.clone();
                        c.remove(i);
                        out.push(Scenario::Engine { cfg: cfg.clone(), script: c, inputs: inputs.clone() });
                    }
                }
            }
            Scenario::RoundTrip { seed, count } => {
                if *count > 2 {
                    out.push(Scenario::RoundTrip { seed: *seed, count: count / 2 });
                    out.push(Scenario::RoundTrip { seed: *seed, count: count - 1 });
                }
            }
            Scenario::Cross { sim_seed, sched, setup, actors, fail_truth_writes, drop_caches } => {
                for a in 0..actors.len() {
                    for k in (0..actors[a].len()).rev() {
                        let mut na = actors.clone();
                        na[a].remove(k);
                        let mut s2 = sched.clone();
                        s2.schedules = None;
                        out.push(Scenario::Cross { sim_seed: *sim_seed, sched: s2, setup: setup.clone(), actors: na, fail_truth_writes: fail_truth_writes.clone(), drop_caches: *drop_caches });
                    }
                }
            }
        }
        out.into_iter().map(|s| serde_json::to_value(s).unwrap()).collect()
    }
    fn attempts(&self) -> u32 {
        2
    }
    fn rule(&self) -> String {
        "1 in 40 evaluations is a whole-engine run (real router, scripted provider with all fault kinds, 1-4 inputs: thread-less sessions, thread posts, background tasks, each watched by a live SSE subscriber attached before it starts, plus one on the thread): after quiescence the frames each subscriber received, the stream in the log, the session / task snapshot written by the real run and the thread's sidecar must be identical as JSON, frame for frame. Of the rest, half are cross-copy runs: 1-3 store actors under the baton scheduler execute 4-24 generated operations while a subscriber attached before the workload collects the broadcast; a third of them inject ENOSPC into chosen writes of events.jsonl; afterwards every live frame and every sidecar line must be, field for field, a frame of the parsed log, and in fault-free runs the per-thread sequences of live frames, sidecar lines and log frames must be identical. The other half are round-trip runs (input generation): 10-200 frames over all 44 frame variants with optional fields absent/present, empty collections, U+2028/NUL, 100 KiB strings, nested JSON, u64::MAX are written through EventLog::append and read back through replay, per-stream replay, snapshot write/read/verify and the sidecar (truth path then sidecar path), compared as JSON, as stream assignment and as typed values; distinct = schedule hash / seed; non-trivial = every round-trip run, and cross runs with >=5 live frames and a context switch".into()
    }
    fn assumptions(&self) -> Vec<String> {
        vec![
            "in store-level runs snapshots are written by the harness through the public writer; snapshots written by real runs are compared in the whole-engine variant (real time, see C07)".into(),
            "after an injected log-write error only the subset clauses are judged (nothing outside the log), not sequence equality".into(),
        ]
    }
    fn components(&self) -> Value {
        json!({"EventLog, ContinuityStore, stream cache, broadcast channel, snapshot writer/reader, kernel serde": "real", "file system": "real tmpfs via libc seam (fault injection on events.jsonl writes)", "scheduling/clock/randomness": "simulated", "sessions": "not involved"})
    }
    fn extra_coverage(&self, c: &BTreeMap<String, u64>) -> Value {
        json!({"cross_copy_runs": c.get("cross_copy_runs").copied().unwrap_or(0), "round_trip_runs": c.get("round_trip_runs").copied().unwrap_or(0), "frames_round_tripped": c.get("frames_round_tripped").copied().unwrap_or(0),
               "live_frames": c.get("live_frames").copied().unwrap_or(0), "fault_counts": {"truth_write_enospc": c.get("fault:truth_write_enospc").copied().unwrap_or(0), "preemptions": c.get("context_switches").copied().unwrap_or(0)}})
    }
}

#[allow(dead_code)]
fn _j() -> Value {
    json!(null)
}
