//! C20 — surfaces are total, bounded, deterministic folds over the frame stream.
//!
//! Reduced form (a pure fold has no schedule or clock in it): a faulty frame channel (drop,
//! duplicate, reorder, interleave streams, seq jumps) over seeded frame sequences of every frame
//! type feeds `TuiState::update`, `FrameStore` and the renderer on a test backend.

use std::collections::BTreeMap;
use std::panic::{catch_unwind, AssertUnwindSafe};

use ratatui::backend::TestBackend;
use ratatui::Terminal;
use rip_kernel::{CheckpointAction, Event, EventKind, ProviderEventStatus, ToolTaskExecutionMode, ToolTaskStatus, ToolTaskStream};
use rip_tui::{render, OutputViewMode, RenderMode, TuiState};
use serde::{Deserialize, Serialize};
use serde_json::{json, Value};

use crate::driver::{Budget, Check, Env, Outcome, RunStats, Tier, Violation};
use crate::prng::{fnv1a, Rng};

#[derive(Clone, Debug, Serialize, Deserialize, PartialEq)]
pub struct Scenario {
    pub max_frames: usize,
    pub max_output_bytes: usize,
    /// frames as delivered (after channel faults), as JSON values of the wire form
    pub delivered: Vec<Value>,
    pub width: u16,
    pub height: u16,
}

pub struct C20;

fn text(rng: &mut Rng, long: bool) -> String {
    let pool = ["plain ascii ", "ünïcödé ", "日本語テキスト", "🙂🙃", "\n", "line\nbreak ", "é", "\t", "a"];
    // long texts: usually up to a few kB; 1 in 8 of them larger than any preview cap (a single
    // chunk beyond 8 KiB)
    let n = if long { if rng.chance(1, 8) { rng.range(1200, 3000) } else { rng.range(20, 400) } } else { rng.range(0, 6) };
    let mut s = String::new();
    for _ in 0..n {
        s.push_str(pool[rng.usize_below(pool.len())]);
    }
    s
}

fn gen_kind(rng: &mut Rng, ids: &[String]) -> EventKind {
    let id = |rng: &mut Rng| ids[rng.usize_below(ids.len())].clone();
    let long = rng.chance(1, 6);
    match rng.below(34) {
        0 => EventKind::SessionStarted { input: text(rng, long) },
        1..=4 => EventKind::OutputTextDelta { delta: text(rng, long) },
        5 => EventKind::SessionEnded { reason: text(rng, false) },
        6 => EventKind::ToolStarted { tool_id: id(rng), name: text(rng, false), args: json!({"path": text(rng, long)}), timeout_ms: Some(5) },
        7 => EventKind::ToolStdout { tool_id: id(rng), chunk: text(rng, long) },
        8 => EventKind::ToolStderr { tool_id: id(rng), chunk: text(rng, long) },
        9 => EventKind::ToolEnded { tool_id: id(rng), exit_code: rng.below(3) as i32 - 1, duration_ms: rng.next_u64() >> 40, artifacts: if rng.chance(1, 2) { Some(json!({"stdout": {"artifact_id": id(rng)}})) } else { None } },
        10 => EventKind::ToolFailed { tool_id: id(rng), error: text(rng, long) },
        11 => EventKind::ProviderEvent { provider: "openresponses".into(), status: [ProviderEventStatus::Event, ProviderEventStatus::Done, ProviderEventStatus::InvalidJson][rng.usize_below(3)].clone(), event_name: Some(text(rng, false)), data: Some(json!({"type": text(rng, long), "nested": {"x": [1, 2, {"y": text(rng, false)}]}})), raw: Some(text(rng, long)), errors: vec![text(rng, long)], response_errors: vec![] },
        12 => EventKind::OpenResponsesRequestStarted { endpoint: text(rng, long), model: Some(text(rng, false)), request_index: rng.next_u64(), kind: "initial".into() },
        13 => EventKind::OpenResponsesResponseHeaders { request_index: rng.below(3), status: 200 + rng.below(400) as u16, request_id: None, content_type: Some(text(rng, false)) },
        14 => EventKind::OpenResponsesResponseFirstByte { request_index: rng.below(3) },
        15 => EventKind::OpenResponsesRequest { endpoint: text(rng, false), model: None, request_index: 0, kind: "followup".into(), body_artifact_id: id(rng), body_bytes: 1, total_bytes: 2, truncated: rng.chance(1, 2) },
        16 => EventKind::CheckpointCreated { checkpoint_id: id(rng), label: text(rng, long), created_at_ms: rng.next_u64(), files: vec![text(rng, long)], auto: rng.chance(1, 2), tool_name: None },
        17 => EventKind::CheckpointRewound { checkpoint_id: id(rng), label: text(rng, false), files: vec![] },
        18 => EventKind::CheckpointFailed { action: if rng.chance(1, 2) { CheckpointAction::Create } else { CheckpointAction::Rewind }, error: text(rng, long) },
        19 => EventKind::ToolTaskSpawned { task_id: id(rng), tool_name: text(rng, false), args: json!({"command": text(rng, long)}), cwd: Some(text(rng, false)), title: Some(text(rng, long)), execution_mode: if rng.chance(1, 2) { ToolTaskExecutionMode::Pipes } else { ToolTaskExecutionMode::Pty }, origin_session_id: None, artifacts: Some(json!({"stdout": {"artifact_id": id(rng)}})) },
        20 => EventKind::ToolTaskStatus { task_id: id(rng), status: [ToolTaskStatus::Queued, ToolTaskStatus::Running, ToolTaskStatus::Exited, ToolTaskStatus::Cancelled, ToolTaskStatus::Failed][rng.usize_below(5)], exit_code: Some(rng.below(300) as i32 - 3), started_at_ms: Some(rng.next_u64()), ended_at_ms: Some(rng.below(10)), artifacts: None, error: Some(text(rng, long)) },
        21 => EventKind::ToolTaskCancelRequested { task_id: id(rng), reason: text(rng, false) },
        22 => EventKind::ToolTaskCancelled { task_id: id(rng), reason: text(rng, false), wall_time_ms: Some(rng.next_u64()) },
        23 | 24 => EventKind::ToolTaskOutputDelta { task_id: id(rng), stream: [ToolTaskStream::Stdout, ToolTaskStream::Stderr, ToolTaskStream::Pty][rng.usize_below(3)], chunk: text(rng, long), artifacts: None },
        25 => EventKind::ToolTaskStdinWritten { task_id: id(rng), chunk_b64: text(rng, false) },
        26 => EventKind::ToolTaskResized { task_id: id(rng), rows: rng.below(500) as u16, cols: rng.below(500) as u16 },
        27 => EventKind::ToolTaskSignalled { task_id: id(rng), signal: text(rng, false) },
        28 => EventKind::ContinuityJobSpawned { job_id: id(rng), job_kind: text(rng, false), details: None, actor_id: "a".into(), origin: "o".into() },
        29 => EventKind::ContinuityJobEnded { job_id: id(rng), job_kind: text(rng, false), status: ["completed", "failed", "weird"][rng.usize_below(3)].into(), result: None, error: Some(text(rng, long)), actor_id: "a".into(), origin: "o".into() },
        30 => EventKind::ContinuityContextSelectionDecided { run_session_id: id(rng), message_id: id(rng), compiler_id: "c".into(), compiler_strategy: text(rng, false), limits: json!({}), compaction_checkpoint: None, compaction_checkpoints: vec![], resets: vec![], reason: None, actor_id: "a".into(), origin: "o".into() },
        31 => EventKind::ContinuityContextCompiled { run_session_id: id(rng), bundle_artifact_id: id(rng), compiler_id: "c".into(), compiler_strategy: text(rng, false), from_seq: rng.next_u64(), from_message_id: None, actor_id: "a".into(), origin: "o".into() },
        32 => EventKind::ContinuityMessageAppended { actor_id: "a".into(), origin: "o".into(), content: text(rng, long) },
        _ => EventKind::ContinuityToolSideEffects { run_session_id: id(rng), tool_id: id(rng), tool_name: text(rng, false), affected_paths: Some(vec![text(rng, long)]), checkpoint_id: None, actor_id: "a".into(), origin: "o".into() },
    }
}

pub fn generate(run_seed: u64, tier: Tier) -> Scenario {
    let mut rng = Rng::derive(run_seed, "ops");
    let ids: Vec<String> = (0..rng.range(1, 5)).map(|i| format!("id{i}")).collect();
    let n = rng.range(1, if tier == Tier::Quick { 60 } else { 300 }) as usize;
    let streams = ["s1", "s2", "task-1"];
    let mut seqs: BTreeMap<&str, u64> = BTreeMap::new();
    let mut frames: Vec<Event> = Vec::new();
    let well_ordered = rng.chance(1, 3);
    for _ in 0..n {
        let stream = if well_ordered { "s1" } else { streams[rng.usize_below(streams.len())] };
        let seq = seqs.entry(stream).or_insert(0);
        let kind = gen_kind(&mut rng, &ids);
        frames.push(Event { id: format!("e{}", frames.len()), session_id: stream.to_string(), timestamp_ms: if rng.chance(1, 10) { rng.next_u64() } else { 1_000 + frames.len() as u64 * 7 }, seq: *seq, kind });
        *seq += 1;
    }
    // channel faults
    let mut delivered: Vec<Event> = Vec::new();
    for f in frames {
        if well_ordered {
            delivered.push(f);
            continue;
        }
        match rng.below(20) {
            0 | 1 => {} // drop
            2 => {
                delivered.push(f.clone());
                delivered.push(f);
            }
            3 => {
                let mut g = f;
                g.seq = match rng.below(4) {
                    0 => g.seq + rng.range(2, 1000),
                    1 => u64::MAX,
                    2 => 0,
                    _ => g.seq.saturating_sub(rng.range(1, 5)),
                };
                delivered.push(g);
            }
            4 if !delivered.is_empty() => {
                let pos = rng.usize_below(delivered.len());
                delivered.insert(pos, f);
            }
            _ => delivered.push(f),
        }
    }
    Scenario {
        max_frames: *rng.pick(&[1usize, 2, 3, 8, 50, 10_000]),
        max_output_bytes: *rng.pick(&[1usize, 2, 5, 64, 1024, 1_000_000]),
        delivered: delivered.iter().map(|e| serde_json::to_value(e).unwrap()).collect(),
        width: *rng.pick(&[20u16, 60, 80, 120]),
        height: *rng.pick(&[8u16, 20, 24, 40]),
    }
}

fn render_to_string(state: &TuiState, w: u16, h: u16, mode: RenderMode) -> Result<String, String> {
    let mut terminal = Terminal::new(TestBackend::new(w, h)).map_err(|e| e.to_string())?;
    terminal.draw(|f| render(f, state, mode, "typed input")).map_err(|e| e.to_string())?;
    let buf = terminal.backend().buffer().clone();
    let mut s = String::new();
    for y in 0..buf.area.height {
        for x in 0..buf.area.width {
            s.push_str(buf[(x, y)].symbol());
        }
        s.push('\n');
    }
    Ok(s)
}

fn panic_text(p: Box<dyn std::any::Any + Send>) -> String {
    p.downcast_ref::<String>().cloned().or_else(|| p.downcast_ref::<&str>().map(|s| s.to_string())).unwrap_or_else(|| "panic".into())
}

/// The fold runs on a fresh thread with the simulated randomness seeded from the scenario, so that
/// per-thread hash seeds (`RandomState`) are a function of the scenario: a fold whose result
/// depends on hash iteration order then fails — or passes — identically in the worker and in the
/// replay process.
pub fn execute(sc: &Scenario, env: &Env) -> (Outcome, RunStats) {
    let seed = fnv1a(serde_json::to_string(&sc.delivered).unwrap_or_default().as_bytes());
    crate::seam::sim_rand_reset(seed, true);
    let sc2 = sc.clone();
    let root = env.root.clone();
    let tier = env.tier;
    let r = std::thread::Builder::new().stack_size(16 << 20).spawn(move || execute_on_thread(&sc2, &Env { root, tier })).map(|h| h.join());
    crate::seam::sim_rand_disable();
    match r {
        Ok(Ok(x)) => x,
        Ok(Err(_)) => (Outcome::Harness("fold thread panicked outside catch_unwind".into()), RunStats::default()),
        Err(e) => (Outcome::Harness(format!("spawn: {e}")), RunStats::default()),
    }
}

fn execute_on_thread(sc: &Scenario, _env: &Env) -> (Outcome, RunStats) {
    let mut stats = RunStats::default();
    let events: Vec<Event> = match sc.delivered.iter().map(|v| serde_json::from_value::<Event>(v.clone())).collect::<Result<Vec<_>, _>>() {
        Ok(e) => e,
        Err(e) => return (Outcome::Harness(format!("frame does not deserialize: {e}")), stats),
    };
    stats.case_hash = fnv1a(serde_json::to_string(&sc.delivered).unwrap_or_default().as_bytes()) ^ sc.max_frames as u64 ^ ((sc.max_output_bytes as u64) << 20);
    stats.nontrivial = events.len() >= 3;
    stats.bump("frames_delivered", events.len() as u64);
    let fold = |label: &str| -> Result<(TuiState, Vec<String>), Violation> {
        let mut st = TuiState::new(sc.max_frames, sc.max_output_bytes);
        let mut renders = Vec::new();
        for (i, ev) in events.iter().enumerate() {
            let ty = serde_json::to_value(ev).ok().and_then(|v| v.get("type").and_then(|t| t.as_str()).map(|s| s.to_string())).unwrap_or_default();
            let r = catch_unwind(AssertUnwindSafe(|| st.update(ev.clone())));
            if let Err(p) = r {
                return Err(Violation { class: "panic_in_update".into(), signature: format!("panic_in_update:{ty}"), detail: format!("{label}: update with frame #{i} ({ty}, seq {}) panicked: {}", ev.seq, panic_text(p)) });
            }
            // bounds after every delivery
            if st.frames.len() > sc.max_frames.max(1) {
                return Err(Violation { class: "frame_window_exceeds_bound".into(), signature: "frame_window_exceeds_bound".into(), detail: format!("after frame #{i}: {} frames held, configured maximum {}", st.frames.len(), sc.max_frames) });
            }
            if st.output_text.len() > sc.max_output_bytes.max(1) {
                return Err(Violation { class: "output_text_exceeds_bound".into(), signature: "output_text_exceeds_bound".into(), detail: format!("after frame #{i} ({ty}): output text holds {} bytes, configured maximum {}", st.output_text.len(), sc.max_output_bytes) });
            }
            for (id, t) in &st.tools {
                if t.stdout_preview.len() > 8192 || t.stderr_preview.len() > 8192 {
                    return Err(Violation { class: "preview_exceeds_bound".into(), signature: "tool_preview_exceeds_bound".into(), detail: format!("after frame #{i}: tool {id} preview holds {} / {} bytes", t.stdout_preview.len(), t.stderr_preview.len()) });
                }
            }
            for (id, t) in &st.tasks {
                if t.stdout_preview.len() > 8192 || t.stderr_preview.len() > 8192 || t.pty_preview.len() > 8192 {
                    return Err(Violation { class: "preview_exceeds_bound".into(), signature: "task_preview_exceeds_bound".into(), detail: format!("after frame #{i}: task {id} preview exceeds 8192 bytes") });
                }
            }
        }
        // render in every view (after the last delivery, and once mid-way)
        for (view, mode) in [(OutputViewMode::Rendered, RenderMode::Json), (OutputViewMode::Raw, RenderMode::Json), (OutputViewMode::Raw, RenderMode::Decoded)] {
            let mut s2 = st.clone();
            s2.output_view = view;
            for overlay_pass in 0..2 {
                if overlay_pass == 1 {
                    s2.toggle_activity_overlay();
                }
                match catch_unwind(AssertUnwindSafe(|| render_to_string(&s2, sc.width, sc.height, mode))) {
                    Ok(Ok(s)) => renders.push(s),
                    Ok(Err(e)) => return Err(Violation { class: "render_error".into(), signature: "render_error".into(), detail: e }),
                    Err(p) => {
                        return Err(Violation {
                            class: "panic_in_render".into(),
                            signature: format!("panic_in_render:{}", match (view, mode) { (OutputViewMode::Rendered, _) => "canvas", (_, RenderMode::Json) => "xray_json", _ => "xray_decoded" }),
                            detail: format!("{label}: rendering {}x{} after {} frames panicked: {}", sc.width, sc.height, events.len(), panic_text(p)),
                        })
                    }
                }
            }
        }
        Ok((st, renders))
    };
    let (a, ra) = match fold("first fold") {
        Ok(x) => x,
        Err(v) => return (Outcome::Violation(v), stats),
    };
    let (b, rb) = match fold("second fold") {
        Ok(x) => x,
        Err(v) => return (Outcome::Violation(v), stats),
    };
    // same frames => same state (structural compare of two independent folds) and same picture
    let (da, db) = (format!("{a:?}"), format!("{b:?}"));
    if da != db {
        let pos = da.bytes().zip(db.bytes()).position(|(x, y)| x != y).unwrap_or(0);
        let s = pos.saturating_sub(60);
        return (Outcome::Violation(Violation { class: "fold_not_deterministic".into(), signature: "fold_not_deterministic:state".into(), detail: format!("two folds of the same {} frames differ: …{}… vs …{}…", events.len(), &da[s..(pos + 60).min(da.len())], &db[s..(pos + 60).min(db.len())]) }), stats);
    }
    if ra != rb {
        let k = ra.iter().zip(rb.iter()).position(|(x, y)| x != y).unwrap_or(0);
        let (x, y) = (&ra[k], &rb[k]);
        let line = x.lines().zip(y.lines()).find(|(p, q)| p != q).map(|(p, q)| format!("{:?} vs {:?}", p.trim_end(), q.trim_end())).unwrap_or_default();
        return (Outcome::Violation(Violation { class: "fold_not_deterministic".into(), signature: "fold_not_deterministic:render".into(), detail: format!("two folds of the same frames render differently (view #{k}): {line}") }), stats);
    }
    // the rip-cli headless renderers (raw / output / metrics) on the same delivered frames
    if let Err(v) = headless_checks(&events, &mut stats) {
        return (Outcome::Violation(v), stats);
    }
    // lookup by seq returns that frame or nothing
    let mut probe: Vec<u64> = events.iter().map(|e| e.seq).collect();
    probe.extend([0, 1, 2, 5, u64::MAX, u64::MAX - 1]);
    probe.sort();
    probe.dedup();
    for s in probe {
        let r = catch_unwind(AssertUnwindSafe(|| a.frames.get_by_seq(s).map(|e| e.seq)));
        match r {
            Ok(Some(got)) if got != s => {
                return (Outcome::Violation(Violation { class: "lookup_returns_other_frame".into(), signature: "lookup_returns_other_frame".into(), detail: format!("get_by_seq({s}) returned the frame with seq {got} (window holds seqs {:?})", a.frames.iter().map(|e| e.seq).take(12).collect::<Vec<_>>()) }), stats);
            }
            Err(p) => return (Outcome::Violation(Violation { class: "panic_in_lookup".into(), signature: "panic_in_lookup".into(), detail: panic_text(p) }), stats),
            _ => {}
        }
        stats.bump("lookups_checked", 1);
    }
    (Outcome::Ok, stats)
}

/// rip-cli's headless renderers, compiled from the repository's `main.rs` (see `sim/ripcli`): the
/// real loop `stream_events_with_writer` over an always-ready in-memory event stream, and the
/// per-frame fold `render_message`, for the three views.
///
/// Clauses: no panic and no error on well-formed frames; two folds write identical bytes; the loop
/// stops exactly at the first `session_ended` frame and consumes nothing after it; the raw view
/// writes exactly the payloads it was given, one per line; the output view writes exactly the
/// concatenation of the text deltas (closing the last line when the session ends), and when there
/// was no text at all nothing before the end; the metrics view writes nothing before the end and
/// then one line of JSON.
fn headless_checks(events: &[Event], stats: &mut RunStats) -> Result<(), Violation> {
    use ripcli_shadow::access::{run_stream, Headless, View};
    let payloads: Vec<String> = events.iter().map(|e| serde_json::to_string(e).unwrap_or_default()).collect();
    let stop_at = events.iter().position(|e| matches!(e.kind, EventKind::SessionEnded { .. }));
    let upto = stop_at.map(|i| i + 1).unwrap_or(events.len());
    let viol = |class: &str, sig: String, detail: String| Violation { class: class.into(), signature: sig, detail };
    for (view, vname) in [(View::Raw, "raw"), (View::Output, "output"), (View::Metrics, "metrics")] {
        let run = |label: &str| -> Result<(Vec<u8>, usize), Violation> {
            match catch_unwind(AssertUnwindSafe(|| run_stream(view, &payloads))) {
                Ok(Ok(x)) => Ok(x),
                Ok(Err(e)) => Err(viol("headless_error", format!("headless_error:{vname}"), format!("{label}: the headless {vname} loop failed on {} well-formed frames: {e}", payloads.len()))),
                Err(p) => Err(viol("panic_in_headless", format!("panic_in_headless:{vname}"), format!("{label}: the headless {vname} loop panicked on {} frames: {}", payloads.len(), panic_text(p)))),
            }
        };
        let (out_a, consumed) = run("first fold")?;
        let (out_b, _) = run("second fold")?;
        stats.bump("headless_folds", 2);
        if out_a != out_b {
            return Err(viol("fold_not_deterministic", format!("fold_not_deterministic:headless_{vname}"), format!("two headless {vname} folds of the same {} frames wrote different bytes ({} vs {} bytes)", payloads.len(), out_a.len(), out_b.len())));
        }
        if consumed != upto {
            return Err(viol("headless_stop_wrong", format!("headless_stop_wrong:{vname}"), format!("the loop consumed {consumed} of {} messages; the first session_ended frame is {:?}", payloads.len(), stop_at)));
        }
        // frame-by-frame fold: should_stop exactly on session_ended, same bytes as the loop
        let mut h = Headless::new(view);
        let mut inc: Vec<u8> = Vec::new();
        for (i, p) in payloads.iter().take(upto).enumerate() {
            let before = inc.len();
            let r = catch_unwind(AssertUnwindSafe(|| h.feed(p, &mut inc)));
            let stop = match r {
                Ok(Ok(s)) => s,
                Ok(Err(e)) => return Err(viol("headless_error", format!("headless_error:{vname}"), format!("frame #{i}: {e}"))),
                Err(pn) => return Err(viol("panic_in_headless", format!("panic_in_headless:{vname}"), format!("frame #{i}: {}", panic_text(pn)))),
            };
            let is_end = matches!(events[i].kind, EventKind::SessionEnded { .. });
            if stop != is_end {
                return Err(viol("headless_stop_wrong", format!("headless_stop_wrong:{vname}"), format!("frame #{i}: should_stop={stop} for a frame that is {}a session end", if is_end { "" } else { "not " })));
            }
            if matches!(view, View::Metrics) && !is_end && inc.len() != before {
                return Err(viol("headless_output_wrong", "headless_output_wrong:metrics_before_end".into(), format!("frame #{i}: the metrics view wrote {} bytes before the session ended", inc.len() - before)));
            }
        }
        if inc != out_a {
            return Err(viol("fold_not_deterministic", format!("fold_not_deterministic:headless_{vname}_loop_vs_fold"), format!("the loop wrote {} bytes, the frame-by-frame fold {} bytes", out_a.len(), inc.len())));
        }
        match view {
            View::Raw => {
                let mut want = Vec::new();
                for p in payloads.iter().take(upto) {
                    want.extend_from_slice(p.as_bytes());
                    want.push(b'\n');
                }
                if out_a != want {
                    let pos = out_a.iter().zip(want.iter()).position(|(x, y)| x != y).unwrap_or(out_a.len().min(want.len()));
                    return Err(viol("headless_output_wrong", "headless_output_wrong:raw".into(), format!("raw view: {} bytes written, {} expected (the payloads, one per line); first difference at byte {pos}", out_a.len(), want.len())));
                }
            }
            View::Output => {
                let mut text = String::new();
                let mut any = false;
                for e in events.iter().take(upto) {
                    if let EventKind::OutputTextDelta { delta } = &e.kind {
                        text.push_str(delta);
                        any = true;
                    }
                }
                if any {
                    if stop_at.is_some() && !text.ends_with('\n') {
                        text.push('\n');
                    }
                    if out_a != text.as_bytes() {
                        let pos = out_a.iter().zip(text.as_bytes().iter()).position(|(x, y)| x != y).unwrap_or(out_a.len().min(text.len()));
                        return Err(viol("headless_output_wrong", "headless_output_wrong:output_text".into(), format!("output view: {} bytes written, the text deltas concatenate to {} bytes; first difference at byte {pos}", out_a.len(), text.len())));
                    }
                    stats.bump("headless_output_text_compared", 1);
                } else if stop_at.is_none() && !out_a.is_empty() {
                    return Err(viol("headless_output_wrong", "headless_output_wrong:output_without_text".into(), format!("output view wrote {} bytes although no text delta arrived and the session has not ended", out_a.len())));
                }
            }
            View::Metrics => {
                if stop_at.is_some() {
                    let s = String::from_utf8_lossy(&out_a);
                    let line = s.strip_suffix('\n').unwrap_or(&s);
                    if line.contains('\n') || serde_json::from_str::<Value>(line).map(|v| !v.is_object()).unwrap_or(true) {
                        return Err(viol("headless_output_wrong", "headless_output_wrong:metrics_not_one_json_line".into(), format!("metrics view wrote {:?}", s.chars().take(200).collect::<String>())));
                    }
                } else if !out_a.is_empty() {
                    return Err(viol("headless_output_wrong", "headless_output_wrong:metrics_before_end".into(), format!("metrics view wrote {} bytes although the session has not ended", out_a.len())));
                }
            }
        }
    }
    Ok(())
}

impl Check for C20 {
    fn id(&self) -> &'static str {
        "C20"
    }
    fn level(&self) -> &'static str {
        "exploration"
    }
    fn technique(&self) -> &'static str {
        "seeded frame sequences through a simulated faulty frame channel (drop, duplicate, reorder, stream mixing, seq jumps) into the real TuiState/FrameStore/renderer and rip-cli's headless renderers; panic capture per delivery, bound checks after every delivery, double fold for determinism; reduced form (pure fold: no scheduler or clock)"
    }
    fn budget(&self, tier: Tier) -> Budget {
        match tier {
            Tier::Quick => Budget { runs: 12_000, secs: 40 },
            Tier::Thorough => Budget { runs: 500_000, secs: 900 },
        }
    }
    fn generate(&self, run_seed: u64, tier: Tier) -> Value {
        serde_json::to_value(generate(run_seed, tier)).unwrap()
    }
    fn execute(&self, scenario: &Value, env: &Env) -> (Outcome, RunStats) {
        match serde_json::from_value::<Scenario>(scenario.clone()) {
            Ok(sc) => execute(&sc, env),
            Err(e) => (Outcome::Harness(format!("bad scenario: {e}")), RunStats::default()),
        }
    }
    fn shrink(&self, scenario: &Value) -> Vec<Value> {
        let Ok(sc) = serde_json::from_value::<Scenario>(scenario.clone()) else {
            return Vec::new();
        };
        let mut out = Vec::new();
        let n = sc.delivered.len();
        if n > 4 {
            let mut c = sc.clone();
            c.delivered.truncate(n / 2);
            out.push(c);
            let mut c = sc.clone();
            c.delivered.drain(..n / 2);
            out.push(c);
        }
        for k in (0..n).rev() {
            if n > 1 {
                let mut c = sc.clone();
                c.delivered.remove(k);
                out.push(c);
            }
        }
        out.into_iter().map(|s| serde_json::to_value(s).unwrap()).collect()
    }
    fn rule(&self) -> String {
        "one evaluation = one sequence of 1-300 frames drawn from every frame type (session, provider, tool, checkpoint, task, continuity) with arbitrary ids incl. unknown tool/task ids and terminal frames without a start, arbitrary timestamps, payloads with multi-byte text of 0-400 pieces (around every truncation limit) and now and then 1200-3000 pieces (single chunks of 9-30 kB, beyond every cap), nested JSON; a third are well-ordered single-stream histories, the rest pass a faulty channel (10% drop, 5% duplicate, 5% seq rewritten to a jump/0/MAX/earlier value, 5% reordered, three streams mixed); capacities from {1,2,3,8,50,10000} frames x {1,2,5,64,1024,10^6} output bytes; terminal sizes from 20x8 to 120x40; after every delivery: no panic, frame window / output text / previews within bounds; after the last: canvas, x-ray (json, decoded) and overlay renders do not panic; two independent folds give equal state (Debug) and equal renders; get_by_seq(s) for every seen seq and edge values returns a frame with that seq or nothing; the same delivered frames go through rip-cli's headless loop in its raw, output and metrics views (no panic or error, two folds byte-identical, loop == frame-by-frame fold, stops exactly at the first session_ended, raw == payload lines, output == concatenated text deltas with the last line closed at the end, metrics == nothing before the end then one JSON object line); distinct = hash of delivered frames and capacities; non-trivial = at least 3 frames".into()
    }
    fn assumptions(&self) -> Vec<String> {
        vec![
            "the per-id summary maps (tools, tasks, jobs, artifacts) have no configured bound and are not judged".into(),
            "the rip-cli headless renderers are compiled from the repository's crates/rip-cli/src/main.rs by textual inclusion into a library (sim/ripcli); their configured memory bound does not exist (the output view buffers tool output until text arrives), so no bound is judged for them".into(),
            "the output-view fallback summary printed when a session ends without any text is judged for determinism and totality only (no document fixes its layout)".into(),
            "key handling / interactive state (selection, scrolling) is not part of the fold and is not driven".into(),
        ]
    }
    fn components(&self) -> Value {
        json!({"rip-tui TuiState::update, FrameStore, summary, render (ratatui TestBackend)": "real", "frame channel": "simulated (harness fault model)", "rip-cli headless loop stream_events_with_writer + render_message (raw/output/metrics views) + metrics.rs": "real (main.rs included textually into sim/ripcli); the SSE transport is an always-ready in-memory stream", "scheduling/clock": "not involved"})
    }
    fn extra_coverage(&self, c: &BTreeMap<String, u64>) -> Value {
        json!({"frames_delivered": c.get("frames_delivered").copied().unwrap_or(0), "lookups_checked": c.get("lookups_checked").copied().unwrap_or(0), "fault_counts": {"channel_faults": "drop/duplicate/reorder/seq-jump/stream-mixing applied at generation time (see rule)"}})
    }
}
