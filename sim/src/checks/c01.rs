//! C01 — per-stream total order (seq 0,1,2,... no gap, no duplicate, file order) under any
//! schedule of concurrent writers, across an authority restart.

use std::collections::BTreeMap;
use std::sync::Arc;

use serde::{Deserialize, Serialize};
use serde_json::{json, Value};

use crate::driver::{Budget, Check, Env, Outcome, RunStats, Tier, Violation};
use crate::model;
use crate::prng::Rng;
use crate::sched::{Point, Verdict};
use crate::storesim::{self, SchedSpec};
use crate::world::{gen_op, Op, World};

#[derive(Clone, Debug, Serialize, Deserialize, PartialEq)]
pub struct Scenario {
    pub sim_seed: u64,
    pub clock_quantum_us: u64,
    pub sched: SchedSpec,
    pub setup: Vec<Op>,
    pub phase1: Vec<Vec<Op>>,
    /// Clean restart between the phases (drop every handle, reopen on the same directory);
    /// `drop_caches`: also remove the whole rebuildable cache directory first.
    pub restart: Option<bool>,
    pub phase2: Vec<Vec<Op>>,
    /// whole-engine variant: sessions and background tasks (several concurrent emitters per task
    /// stream) on the real router, with seeded holds at the emitter scheduling points
    #[serde(default)]
    pub engine: Option<EngineSc>,
}

#[derive(Clone, Debug, Serialize, Deserialize, PartialEq)]
pub struct EngineSc {
    pub commands: Vec<String>,
    pub tool_posts: u8,
    pub plan: crate::esim::gates::Plan,
    pub workers: u8,
    /// prompts answered by the scripted provider (session seq threaded through the provider pipe,
    /// the tool runner and the request-observability frames)
    #[serde(default)]
    pub prompts: u8,
    #[serde(default)]
    pub script: Vec<crate::esim::Resp>,
    /// RIP_OPENRESPONSES_DUMP_REQUEST=1: every provider request also logs a request-dump frame
    #[serde(default)]
    pub dump_requests: bool,
}

pub struct C01;

fn generate_engine(rng: &mut Rng) -> EngineSc {
    use crate::esim::gates::{HoldRule, Plan, Release};
    let n = rng.range(1, 3);
    let commands = (0..n)
        .map(|_| match rng.below(3) {
            0 => "for i in 1 2 3 4 5 6 7 8; do echo o$i; echo e$i 1>&2; done".to_string(),
            1 => "echo a; echo b 1>&2; echo c; echo d 1>&2; exit 2".to_string(),
            _ => "for i in 1 2 3 4 5 6; do echo o$i; sleep 0.002; echo e$i 1>&2; done".to_string(),
        })
        .collect();
    let mut rules = Vec::new();
    if rng.chance(2, 3) {
        rules.push(HoldRule { point: if rng.chance(1, 2) { "task_emit:before_record".into() } else { "task_emit:between_record_and_publish".into() }, nth: rng.below(12), release: Release::AfterMs(rng.range(5, 40)) });
    }
    if rng.chance(1, 3) {
        rules.push(HoldRule { point: "session_emit:before_record".into(), nth: rng.below(10), release: Release::AfterMs(rng.range(5, 30)) });
    }
    let prompts = rng.below(3) as u8;
    let mut script = Vec::new();
    let mut uniq = 0u64;
    for i in 0..rng.range(1, 3) {
        let r = crate::checks::c07::gen_resp(rng, &mut uniq, true, i);
        script.push(r);
    }
    let last = crate::checks::c07::gen_resp(rng, &mut uniq, false, 9);
    script.push(last);
    let sc = EngineSc { commands, tool_posts: rng.below(3) as u8, plan: Plan { rules, random: Some((rng.next_u64(), 1, rng.range(2, 5), rng.range(1, 10))) }, workers: if rng.chance(1, 2) { 3 } else { 0 }, prompts, script, dump_requests: rng.chance(1, 2) };
    // last draws (nothing above depends on them): 1 in 2 scripts carry a byte that is not UTF-8 in
    // the middle of a response, and then at least one prompt is answered by the provider
    let mut sc = sc;
    if rng.chance(1, 2) && crate::esim::inject_invalid_byte(&mut sc.script, rng) {
        sc.prompts = sc.prompts.max(1);
    }
    // 1 in 3 scripts carry keep-alive / unknown-type events inside a response (frames derived from
    // them are numbered under the same oracle)
    if rng.chance(1, 3) && crate::esim::inject_odd_events(&mut sc.script, rng) {
        sc.prompts = sc.prompts.max(1);
    }
    sc
}

fn execute_engine(e: &EngineSc, env: &Env) -> Executed {
    use crate::esim::{self, gates, Engine, ProviderCfg};
    let mut stats = RunStats::default();
    stats.bump("engine_scenarios", 1);
    let done = |outcome: Outcome, stats: RunStats| Executed { outcome, stats, schedules: Vec::new() };
    esim::WORKER_THREADS.store(e.workers as usize, std::sync::atomic::Ordering::SeqCst);
    let engine = Engine::new(&env.root.join("e"), &ProviderCfg::default(), e.script.clone(), e.prompts > 0);
    esim::WORKER_THREADS.store(0, std::sync::atomic::Ordering::SeqCst);
    if e.dump_requests {
        std::env::set_var("RIP_OPENRESPONSES_DUMP_REQUEST", "1");
        stats.bump("request_dump_on", 1);
    }
    let engine = match engine {
        Ok(x) => x,
        Err(err) => return done(Outcome::Harness(err), stats),
    };
    gates::install(e.plan.clone());
    let res: Result<(), String> = (|| {
        let (_, v) = engine.call_json("POST", "/threads/ensure", None)?;
        let tid = v["thread_id"].as_str().unwrap_or("").to_string();
        let mut tasks = Vec::new();
        let mut runs = Vec::new();
        for c in &e.commands {
            let (st, v) = engine.call_json("POST", "/tasks", Some(json!({"tool": "bash", "args": {"command": c}})))?;
            if st != 201 {
                return Err(format!("create task: {st}"));
            }
            tasks.push(v["task_id"].as_str().unwrap_or("").to_string());
        }
        for k in 0..e.prompts {
            let (st, v) = engine.call_json("POST", &format!("/threads/{tid}/messages"), Some(json!({"content": format!("question {k}")})))?;
            if st != 202 {
                return Err(format!("post: {st}"));
            }
            runs.push(v["session_id"].as_str().unwrap_or("").to_string());
        }
        for k in 0..e.tool_posts {
            let (st, v) = engine.call_json("POST", &format!("/threads/{tid}/messages"), Some(json!({"content": json!({"tool": "bash", "args": {"command": format!("echo p{k}; echo q{k} 1>&2")}}).to_string()})))?;
            if st != 202 {
                return Err(format!("post: {st}"));
            }
            runs.push(v["session_id"].as_str().unwrap_or("").to_string());
        }
        let log = engine.data.join("events.jsonl");
        engine.wait_until(std::time::Duration::from_secs(40), |t| {
            tasks.iter().all(|id| t.frames.iter().any(|f| f.stream_id == *id && f.ty == "tool_task_status" && matches!(f.s("status"), Some("exited") | Some("failed") | Some("cancelled"))))
                && runs.iter().all(|s| t.frames.iter().any(|f| f.ty == "continuity_run_ended" && f.s("run_session_id") == Some(s.as_str())))
        })?;
        let _ = log;
        Ok(())
    })();
    gates::release_all();
    engine.settle(10);
    std::env::remove_var("RIP_OPENRESPONSES_DUMP_REQUEST");
    let (_, holds) = gates::uninstall();
    for (k, v) in holds {
        stats.bump(&format!("fault:task_held_at:{k}"), v);
    }
    let truth_path = engine.data.join("events.jsonl");
    let truth = model::parse_truth_file(&truth_path);
    drop(engine);
    if let Err(err) = res {
        return done(Outcome::Harness(err), stats);
    }
    let truth = match truth {
        Ok(t) => t,
        Err(err) => return done(Outcome::Violation(Violation { class: "truth_unparseable".into(), signature: "truth_unparseable:engine".into(), detail: format!("line {}: {}", err.line_no, err.reason) }), stats),
    };
    stats.bump("frames_in_truth", truth.frames.len() as u64);
    stats.nontrivial = truth.frames.len() > 10;
    stats.case_hash = crate::prng::fnv1a(serde_json::to_string(e).unwrap_or_default().as_bytes());
    if let Some(v) = truth.first_order_violation() {
        let kind = if v.got < v.expected { "duplicate_or_reordered_seq" } else { "gap_or_reordered_seq" };
        return done(Outcome::Violation(Violation { class: kind.into(), signature: format!("{kind}:{}:engine", v.stream_kind), detail: format!("stream {}/{} line {}: expected seq {}, got {} (frame type {}, previous {:?})", v.stream_kind, v.stream_id, v.line_no, v.expected, v.got, v.ty, v.prev_ty) }), stats);
    }
    done(Outcome::Ok, stats)
}

pub fn generate(run_seed: u64, tier: Tier) -> Scenario {
    let mut rng = Rng::derive(run_seed, "ops");
    if Rng::derive(run_seed, "kind").chance(1, 60) {
        let mut erng = Rng::derive(run_seed, "engine");
        let mut srng = Rng::derive(run_seed, "sched-spec");
        return Scenario { sim_seed: 1, clock_quantum_us: 1000, sched: SchedSpec::generate(&mut srng, 10), setup: vec![], phase1: vec![], restart: None, phase2: vec![], engine: Some(generate_engine(&mut erng)) };
    }
    let n_actors = rng.range(2, if tier == Tier::Quick { 4 } else { 6 }) as usize;
    let ops_total = rng.range(5, if tier == Tier::Quick { 30 } else { 60 }) as usize;
    let mut setup = vec![Op::EnsureDefault];
    for _ in 0..rng.below(4) {
        setup.push(Op::AppendMessage { thread: 0, size: 1 });
    }
    if rng.chance(1, 3) {
        setup.push(Op::Branch { thread: 0, sel: crate::world::CutSel::None });
    }
    let allow_big = rng.chance(1, 4);
    let mut phase1: Vec<Vec<Op>> = vec![Vec::new(); n_actors];
    for _ in 0..ops_total {
        let a = rng.usize_below(n_actors);
        phase1[a].push(gen_op(&mut rng, allow_big));
    }
    let restart = if rng.chance(1, 3) { Some(rng.chance(1, 4)) } else { None };
    let mut phase2: Vec<Vec<Op>> = Vec::new();
    if restart.is_some() {
        let n2 = rng.range(1, 3) as usize;
        phase2 = vec![Vec::new(); n2];
        for _ in 0..rng.range(2, 12) {
            let a = rng.usize_below(n2);
            phase2[a].push(gen_op(&mut rng, allow_big));
        }
    }
    let est_steps = (ops_total as u64) * 30;
    let mut srng = Rng::derive(run_seed, "sched-spec");
    Scenario {
        sim_seed: crate::prng::mix_label(run_seed, "sim"),
        clock_quantum_us: *rng.pick(&[50u64, 250, 1000, 3000]),
        sched: SchedSpec::generate(&mut srng, est_steps),
        setup,
        phase1,
        restart,
        phase2,
        engine: None,
    }
}

pub struct Executed {
    pub outcome: Outcome,
    pub stats: RunStats,
    pub schedules: Vec<Vec<u32>>,
}

pub fn execute(sc: &Scenario, env: &Env) -> Executed {
    if let Some(e) = &sc.engine {
        return execute_engine(e, env);
    }
    let mut stats = RunStats::default();
    let dirs = storesim::begin_run(&env.root, sc.sim_seed, sc.clock_quantum_us * 1000);
    let world = Arc::new(World::new(dirs.clone()));
    let mut schedules: Vec<Vec<u32>> = Vec::new();
    let finish = |outcome: Outcome, mut stats: RunStats, schedules: Vec<Vec<u32>>| {
        stats.sim_time_ns = storesim::end_run();
        Executed { outcome, stats, schedules }
    };
    if let Err(e) = storesim::open_world(&world) {
        return finish(Outcome::Harness(format!("open: {e}")), stats, schedules);
    }

    let mut hash: u64 = 0;
    let mut count_point = |ev: &crate::sched::Event, stats: &mut RunStats| {
        if let Point::Fs(e) = &ev.point {
            if e.kind.is_mutating() {
                stats.bump(&format!("effect:{}", crate::sched::file_class(&e.path)), 1);
            }
        }
    };

    // phase 0: setup (sequential)
    let rep0 = storesim::run_phase(&world, &[sc.setup.clone()], 100, sc.sched.config(0), |ev| {
        count_point(ev, &mut stats);
        Verdict::proceed()
    });
    schedules.push(rep0.decisions.clone());
    if let Some(p) = storesim::harness_problem(&rep0) {
        return finish(Outcome::Harness(p), stats, schedules);
    }

    // phase 1: concurrent
    let rep1 = storesim::run_phase(&world, &sc.phase1, 0, sc.sched.config(1), |ev| {
        count_point(ev, &mut stats);
        Verdict::proceed()
    });
    schedules.push(rep1.decisions.clone());
    hash ^= rep1.trace_hash;
    stats.bump("sched_points", rep0.steps + rep1.steps);
    stats.bump("context_switches", rep1.context_switches);
    stats.bump("preempted_in_critical_section", rep1.preempted_in_lock);
    stats.bump("lock_contention_events", rep1.blocked_events);
    stats.bump("fs_effects", rep1.fs_effects + rep0.fs_effects);
    if let Some(p) = storesim::harness_problem(&rep1) {
        return finish(Outcome::Harness(p), stats, schedules);
    }
    if rep1.replay_diverged {
        stats.bump("replay_diverged", 1);
    }
    let mut panics = rep1.panics.clone();
    let mut deadlock = rep1.deadlock;

    let mut frames_before_restart: Option<usize> = None;
    if let Some(drop_caches) = sc.restart {
        world.close();
        frames_before_restart = model::parse_truth_file(&dirs.truth_path()).ok().map(|t| t.frames.len());
        stats.bump("fault:restart", 1);
        if drop_caches {
            let _ = std::fs::remove_dir_all(dirs.streams_dir());
            stats.bump("fault:cache_dir_removed", 1);
        }
        if let Err(e) = storesim::open_world(&world) {
            return finish(Outcome::Harness(format!("reopen: {e}")), stats, schedules);
        }
        let rep2 = storesim::run_phase(&world, &sc.phase2, 10, sc.sched.config(2), |ev| {
            count_point(ev, &mut stats);
            Verdict::proceed()
        });
        schedules.push(rep2.decisions.clone());
        hash ^= rep2.trace_hash.rotate_left(17);
        stats.bump("sched_points", rep2.steps);
        stats.bump("context_switches", rep2.context_switches);
        stats.bump("fs_effects", rep2.fs_effects);
        if let Some(p) = storesim::harness_problem(&rep2) {
            return finish(Outcome::Harness(p), stats, schedules);
        }
        panics.extend(rep2.panics.clone());
        deadlock |= rep2.deadlock;
    }

    // probes
    {
        let reg = world.reg.lock().unwrap();
        for r in &reg.results {
            if r.ok {
                stats.bump(&format!("op_ok:{}", r.op), 1);
            } else if r.err.as_deref().map(|e| e.starts_with("skip:")).unwrap_or(false) {
                stats.bump("op_skipped", 1);
            } else {
                stats.bump(&format!("op_err:{}", r.op), 1);
            }
        }
    }
    stats.case_hash = hash;
    stats.nontrivial = rep1.context_switches >= 2 && rep1.preempted_in_lock >= 1;

    world.close();
    let truth_path = dirs.truth_path();
    let outcome = (|| {
        if deadlock {
            return Outcome::Violation(Violation {
                class: "deadlock".into(),
                signature: "deadlock".into(),
                detail: "actors blocked forever on store locks".into(),
            });
        }
        if let Some((who, msg)) = panics.first() {
            return Outcome::Violation(Violation {
                class: "panic".into(),
                signature: format!("panic:{}", short(msg)),
                detail: format!("actor {who} panicked: {msg}"),
            });
        }
        let truth = match model::parse_truth_file(&truth_path) {
            Ok(t) => t,
            Err(e) => {
                return Outcome::Violation(Violation {
                    class: "truth_unparseable".into(),
                    signature: format!("truth_unparseable:{}", short(&e.reason)),
                    detail: format!("events.jsonl line {} offset {}: {}", e.line_no, e.offset, e.reason),
                })
            }
        };
        if truth.torn_tail.is_some() {
            return Outcome::Violation(Violation {
                class: "partial_line".into(),
                signature: "partial_line_at_quiescence".into(),
                detail: "events.jsonl ends with a partial line after quiescence".into(),
            });
        }
        if let Some(v) = truth.first_order_violation() {
            let kind = if v.got < v.expected { "duplicate_seq" } else { "seq_gap" };
            let shape = {
                let frames = truth.thread(&v.stream_id);
                let at1: Vec<&&model::Frame> = frames.iter().filter(|f| f.seq == 1).collect();
                let lineage_at1 = at1
                    .iter()
                    .any(|f| f.ty == "continuity_branched" || f.ty == "continuity_handoff_created");
                // first frame of this thread written by the restarted authority?
                let first_after_restart = frames_before_restart
                    .map(|n| {
                        v.line_no >= n
                            && !frames.iter().any(|f| f.line_no >= n && f.line_no < v.line_no)
                    })
                    .unwrap_or(false);
                if v.stream_kind == "continuity" && v.got == 1 && v.expected == 2 && at1.len() >= 2 && lineage_at1 {
                    // the child's lineage frame (literal seq 1) raced with a post to the child
                    "lineage_seq1_race"
                } else if first_after_restart && sc.restart == Some(true) && sc.phase2.len() >= 2 {
                    // next seq recovered from a sidecar that a concurrent rebuild had only
                    // partly written (cache directory lost, two actors after the restart)
                    "recovery_after_cache_loss_concurrent_rebuild"
                } else if first_after_restart {
                    "recovery_after_restart"
                } else {
                    "other"
                }
            };
            return Outcome::Violation(Violation {
                class: kind.into(),
                signature: format!("{kind}:{}:{shape}", v.stream_kind),
                detail: format!(
                    "stream {}/{} line {}: expected seq {}, got {} (frame type {}, previous {:?})",
                    v.stream_kind, v.stream_id, v.line_no, v.expected, v.got, v.ty, v.prev_ty
                ),
            });
        }
        // the store's own validator must agree
        let log = match rip_log::EventLog::new(&truth_path) {
            Ok(l) => l,
            Err(e) => return Outcome::Harness(format!("reopen log: {e}")),
        };
        if let Err(e) = log.replay_validated() {
            return Outcome::Violation(Violation {
                class: "replay_validated_failed".into(),
                signature: "replay_validated_failed".into(),
                detail: format!("model accepted the log but replay_validated failed: {e}"),
            });
        }
        Outcome::Ok
    })();
    stats.bump("frames_in_truth", model::parse_truth_file(&truth_path).map(|t| t.frames.len() as u64).unwrap_or(0));
    finish(outcome, stats, schedules)
}

fn short(s: &str) -> String {
    let s: String = s.chars().filter(|c| !c.is_ascii_digit()).collect();
    s.chars().take(60).collect()
}

impl Check for C01 {
    fn id(&self) -> &'static str {
        "C01"
    }
    fn level(&self) -> &'static str {
        "exploration"
    }
    fn technique(&self) -> &'static str {
        "deterministic simulation: seeded baton scheduler over real store threads, libc fs/clock/rand seams, restart injection; oracle = independent parser of events.jsonl"
    }
    fn budget(&self, tier: Tier) -> Budget {
        match tier {
            Tier::Quick => Budget { runs: 40_000, secs: 50 },
            Tier::Thorough => Budget { runs: 2_000_000, secs: 1200 },
        }
    }
    fn generate(&self, run_seed: u64, tier: Tier) -> Value {
        serde_json::to_value(generate(run_seed, tier)).unwrap()
    }
    fn execute(&self, scenario: &Value, env: &Env) -> (Outcome, RunStats) {
        let sc: Scenario = match serde_json::from_value(scenario.clone()) {
            Ok(s) => s,
            Err(e) => return (Outcome::Harness(format!("bad scenario: {e}")), RunStats::default()),
        };
        let ex = execute(&sc, env);
        (ex.outcome, ex.stats)
    }
    fn shrink(&self, scenario: &Value) -> Vec<Value> {
        let Ok(sc) = serde_json::from_value::<Scenario>(scenario.clone()) else {
            return Vec::new();
        };
        shrink(&sc).into_iter().map(|s| serde_json::to_value(s).unwrap()).collect()
    }
    fn concretize(&self, scenario: &Value, env: &Env) -> Value {
        let Ok(mut sc) = serde_json::from_value::<Scenario>(scenario.clone()) else {
            return scenario.clone();
        };
        let ex = execute(&sc, env);
        sc.sched.schedules = Some(ex.schedules);
        serde_json::to_value(sc).unwrap()
    }
    fn attempts(&self) -> u32 {
        3
    }
    fn rule(&self) -> String {
        "one evaluation = one seeded run: 2-6 actor threads execute generated operation lists (message/run/side-effect/compile/cursor/checkpoint/auto/schedule/branch/handoff/raw-session appends plus read-only noise) against one real ContinuityStore+EventLog under the baton scheduler, optionally followed by a clean authority restart and a second concurrent phase; distinct = distinct hash of the (actor, point-class) schedule trace; non-trivial = at least 2 context switches and at least one preemption of an actor inside a store critical section".into()
    }
    fn assumptions(&self) -> Vec<String> {
        vec![
            "scheduling points are mutating fs effects, opens, shim-mutex operations; code between two points is atomic in the simulation".into(),
            "1 in 60 scenarios is a whole-engine run (real router, session and task emitters with 2-3 concurrent producers per task stream, prompts answered by a scripted provider incl. tool calls and faults, request dumping on or off, seeded holds at the emitter scheduling points, current-thread or 3-worker runtime, real time); the rest share the log with raw session frames only".into(),
            "restarts in this check are clean (no crash); crash states are C05".into(),
        ]
    }
    fn components(&self) -> Value {
        json!({
            "EventLog": "real", "ContinuityStore": "real", "stream caches/indexes": "real",
            "file system": "real tmpfs directory seen through the libc seam",
            "clock": "simulated", "randomness/uuids": "simulated", "thread scheduling": "simulated (baton scheduler)",
            "sessions/tasks": "stub (raw frames appended by an actor)"
        })
    }
    fn extra_coverage(&self, c: &BTreeMap<String, u64>) -> Value {
        json!({
            "scheduling_points": c.get("sched_points").copied().unwrap_or(0),
            "context_switches": c.get("context_switches").copied().unwrap_or(0),
            "fault_counts": {
                "restart": c.get("fault:restart").copied().unwrap_or(0),
                "cache_dir_removed": c.get("fault:cache_dir_removed").copied().unwrap_or(0),
                "preemption_inside_critical_section": c.get("preempted_in_critical_section").copied().unwrap_or(0),
            }
        })
    }
}

/// Reductions, simplest first: drop phase 2, drop whole actors, drop single ops, simplify policy.
pub fn shrink(sc: &Scenario) -> Vec<Scenario> {
    let mut out = Vec::new();
    let base = {
        let mut b = sc.clone();
        b.sched.schedules = None;
        b
    };
    if base.restart.is_some() {
        let mut c = base.clone();
        c.restart = None;
        c.phase2.clear();
        out.push(c);
    }
    for a in 0..base.phase1.len() {
        if base.phase1.len() > 1 {
            let mut c = base.clone();
            c.phase1.remove(a);
            out.push(c);
        }
    }
    for a in 0..base.phase2.len() {
        let mut c = base.clone();
        c.phase2.remove(a);
        out.push(c);
    }
    // halves then single ops
    for a in 0..base.phase1.len() {
        let n = base.phase1[a].len();
        if n >= 4 {
            let mut c = base.clone();
            c.phase1[a].truncate(n / 2);
            out.push(c);
            let mut c = base.clone();
            c.phase1[a].drain(..n / 2);
            out.push(c);
        }
    }
    for a in 0..base.phase1.len() {
        for k in (0..base.phase1[a].len()).rev() {
            let mut c = base.clone();
            c.phase1[a].remove(k);
            out.push(c);
        }
    }
    for a in 0..base.phase2.len() {
        for k in (0..base.phase2[a].len()).rev() {
            let mut c = base.clone();
            c.phase2[a].remove(k);
            out.push(c);
        }
    }
    for k in (1..base.setup.len()).rev() {
        let mut c = base.clone();
        c.setup.remove(k);
        out.push(c);
    }
    // try a handful of other schedule seeds with the simplest policies (fewest context switches)
    if !matches!(base.sched.policy, crate::sched::Policy::Bounded { .. }) {
        for d in 1..=2u64 {
            for s in 0..6u64 {
                let mut c = base.clone();
                let mut r = Rng::new(crate::prng::mix(base.sched.sched_seed, d * 100 + s));
                let at: Vec<u64> = (0..d).map(|_| r.below(200)).collect();
                c.sched.policy = crate::sched::Policy::Bounded { preempt_at: at };
                c.sched.sched_seed = r.next_u64();
                out.push(c);
            }
        }
    }
    out
}

#[allow(dead_code)]
fn _unused(_: BTreeMap<String, u64>) {}
