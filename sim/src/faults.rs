//! Cache faults (delete / truncate / garbage / foreign content / rollback) applied to the
//! rebuildable files under `data/continuity_streams/` and, narrowly, to `continuities/index.json`.

use std::collections::BTreeMap;
use std::path::{Path, PathBuf};

use serde::{Deserialize, Serialize};

use crate::prng::Rng;
use crate::world::Dirs;

/// Suffixes of the per-thread cache files (after `<thread id>`).
pub const CACHE_SUFFIXES: &[&str] = &[
    ".jsonl",
    ".seek.v1.jsonl",
    ".messages.v1.bin",
    ".mr.v1.jsonl",
    ".mr.seek.v1.jsonl",
    ".mr.messages.v1.bin",
    ".mr.msgord.v1.bin",
    ".comp.v1.jsonl",
    ".comp.idx.v1.jsonl",
];

#[derive(Clone, Debug, Serialize, Deserialize, PartialEq)]
pub enum FaultKind {
    Delete,
    /// keep the first len*num/den bytes (any byte position, may be mid-line)
    TruncateBytes { num: u32, den: u32 },
    /// keep the first k = lines*num/den whole lines (stale but well-formed)
    TruncateLines { num: u32, den: u32 },
    /// drop exactly the last line (what a crash between truth and cache append leaves)
    DropLastLine,
    Garbage,
    /// overwrite with the same-kind file of another thread (valid content, wrong thread)
    ForeignThread,
    /// restore the content this file had at an earlier saved version
    Rollback { version: u32 },
    /// empty file
    Empty,
}

#[derive(Clone, Debug, Serialize, Deserialize, PartialEq)]
pub struct CacheFault {
    pub thread: u32,
    /// index into CACHE_SUFFIXES; >= len means "every cache file of the thread"
    pub file: u32,
    pub kind: FaultKind,
}

pub fn gen_fault(rng: &mut Rng) -> CacheFault {
    let kind = match rng.below(16) {
        0..=3 => FaultKind::Delete,
        4 | 5 => FaultKind::TruncateBytes {
            num: rng.below(16) as u32,
            den: 16,
        },
        6 | 7 => FaultKind::TruncateLines {
            num: rng.below(8) as u32,
            den: 8,
        },
        8 | 9 => FaultKind::DropLastLine,
        10 => FaultKind::Garbage,
        11 => FaultKind::ForeignThread,
        12 | 13 => FaultKind::Rollback {
            version: rng.below(8) as u32,
        },
        14 => FaultKind::Empty,
        _ => FaultKind::Delete,
    };
    CacheFault {
        thread: rng.below(6) as u32,
        file: if rng.chance(1, 8) {
            99
        } else {
            rng.below(CACHE_SUFFIXES.len() as u64) as u32
        },
        kind,
    }
}

pub type DirImage = BTreeMap<String, Vec<u8>>;

/// Read every regular file under `dir` (recursively) into memory, keyed by relative path.
pub fn read_tree(dir: &Path) -> DirImage {
    let mut out = DirImage::new();
    fn walk(base: &Path, dir: &Path, out: &mut DirImage) {
        let Ok(rd) = std::fs::read_dir(dir) else {
            return;
        };
        let mut entries: Vec<PathBuf> = rd.filter_map(|e| e.ok().map(|e| e.path())).collect();
        entries.sort();
        for p in entries {
            if p.is_dir() {
                walk(base, &p, out);
            } else if let Ok(bytes) = std::fs::read(&p) {
                let rel = p.strip_prefix(base).unwrap_or(&p).to_string_lossy().to_string();
                out.insert(rel, bytes);
            }
        }
    }
    walk(dir, dir, &mut out);
    out
}

pub fn write_tree(dir: &Path, image: &DirImage) {
    for (rel, bytes) in image {
        let p = dir.join(rel);
        if let Some(parent) = p.parent() {
            let _ = std::fs::create_dir_all(parent);
        }
        let _ = std::fs::write(&p, bytes);
    }
}

fn line_prefix(bytes: &[u8], keep_lines: usize) -> Vec<u8> {
    let mut n = 0usize;
    let mut end = 0usize;
    for (i, b) in bytes.iter().enumerate() {
        if *b == b'\n' {
            n += 1;
            end = i + 1;
            if n == keep_lines {
                break;
            }
        }
    }
    if keep_lines == 0 {
        Vec::new()
    } else {
        bytes[..end].to_vec()
    }
}

fn count_lines(bytes: &[u8]) -> usize {
    bytes.iter().filter(|b| **b == b'\n').count()
}

/// Apply a cache fault. `threads` is the ordered list of thread ids; `versions` are earlier
/// images of the cache directory. Returns a short label of what was actually done (None = no-op).
pub fn apply_fault(dirs: &Dirs, threads: &[String], versions: &[DirImage], fault: &CacheFault) -> Option<String> {
    if threads.is_empty() {
        return None;
    }
    let thread = &threads[fault.thread as usize % threads.len()];
    let dir = dirs.streams_dir();
    let suffixes: Vec<&str> = if (fault.file as usize) < CACHE_SUFFIXES.len() {
        vec![CACHE_SUFFIXES[fault.file as usize]]
    } else {
        CACHE_SUFFIXES.to_vec()
    };
    let mut did = Vec::new();
    for suffix in suffixes {
        let name = format!("{thread}{suffix}");
        let path = dir.join(&name);
        let existing = std::fs::read(&path).ok();
        match &fault.kind {
            FaultKind::Delete => {
                if existing.is_some() && std::fs::remove_file(&path).is_ok() {
                    did.push(format!("delete{suffix}"));
                }
            }
            FaultKind::TruncateBytes { num, den } => {
                if let Some(b) = existing {
                    let keep = b.len() * (*num as usize) / (*den).max(1) as usize;
                    if keep < b.len() && std::fs::write(&path, &b[..keep]).is_ok() {
                        did.push(format!("truncate_bytes{suffix}"));
                    }
                }
            }
            FaultKind::TruncateLines { num, den } => {
                if let Some(b) = existing {
                    let lines = count_lines(&b);
                    let keep = lines * (*num as usize) / (*den).max(1) as usize;
                    let nb = line_prefix(&b, keep);
                    if nb.len() < b.len() && std::fs::write(&path, &nb).is_ok() {
                        did.push(format!("truncate_lines{suffix}"));
                    }
                }
            }
            FaultKind::DropLastLine => {
                if let Some(b) = existing {
                    let lines = count_lines(&b);
                    if lines >= 1 {
                        let nb = line_prefix(&b, lines - 1);
                        if std::fs::write(&path, &nb).is_ok() {
                            did.push(format!("drop_last_line{suffix}"));
                        }
                    }
                }
            }
            FaultKind::Garbage => {
                if existing.is_some() {
                    let junk = b"\x00\xff garbage {not json}\n\x01\x02\x03".repeat(7);
                    if std::fs::write(&path, junk).is_ok() {
                        did.push(format!("garbage{suffix}"));
                    }
                }
            }
            FaultKind::Empty => {
                if existing.is_some() && std::fs::write(&path, b"").is_ok() {
                    did.push(format!("empty{suffix}"));
                }
            }
            FaultKind::ForeignThread => {
                let other = threads.iter().find(|t| *t != thread);
                if let (Some(_), Some(o)) = (existing, other) {
                    if let Ok(ob) = std::fs::read(dir.join(format!("{o}{suffix}"))) {
                        if std::fs::write(&path, ob).is_ok() {
                            did.push(format!("foreign{suffix}"));
                        }
                    }
                }
            }
            FaultKind::Rollback { version } => {
                if versions.is_empty() {
                    continue;
                }
                let v = &versions[*version as usize % versions.len()];
                match v.get(&name) {
                    Some(old) => {
                        if existing.as_deref() != Some(old.as_slice()) && std::fs::write(&path, old).is_ok() {
                            did.push(format!("rollback{suffix}"));
                        }
                    }
                    None => {
                        if existing.is_some() && std::fs::remove_file(&path).is_ok() {
                            did.push(format!("rollback_absent{suffix}"));
                        }
                    }
                }
            }
        }
    }
    if did.is_empty() {
        return None;
    }
    // Mark each affected file whose resulting content could pass for a well-formed but incomplete
    // cache ("stale-like"): a missing file (re-created piecemeal by later appends), a JSONL file
    // that is empty or ends at a line boundary with every line parsing, any shortened/older binary index.
    let marked: Vec<String> = did
        .into_iter()
        .map(|label| {
            let suffix = label.find('.').map(|i| label[i..].to_string()).unwrap_or_default();
            let path = dir.join(format!("{thread}{suffix}"));
            let stale_like = match std::fs::read(&path) {
                Err(_) => true,
                Ok(b) => {
                    if suffix.ends_with(".bin") {
                        !label.starts_with("garbage")
                    } else {
                        b.is_empty()
                            || (b.last() == Some(&b'\n')
                                && b.split(|c| *c == b'\n')
                                    .filter(|l| !l.is_empty())
                                    .all(|l| serde_json::from_slice::<serde_json::Value>(l).is_ok()))
                    }
                }
            };
            if stale_like {
                format!("{label}!stale")
            } else {
                label
            }
        })
        .collect();
    Some(marked.join(","))
}
