//! Generic batch driver: seeded search over scenarios, worker fan-out, minimisation, replay files,
//! known-findings matching and evidence writing. Checks plug in through the `Check` trait.

use std::collections::{BTreeMap, BTreeSet};
use std::io::Write;
use std::path::{Path, PathBuf};
use std::time::{Duration, Instant};

use serde::{Deserialize, Serialize};
use serde_json::{json, Value};

use crate::prng::{fnv1a, mix};

#[derive(Clone, Copy, Debug, PartialEq, Eq)]
pub enum Tier {
    Quick,
    Thorough,
}

impl Tier {
    pub fn name(self) -> &'static str {
        match self {
            Tier::Quick => "quick",
            Tier::Thorough => "thorough",
        }
    }
    pub fn parse(s: &str) -> Option<Tier> {
        match s {
            "quick" => Some(Tier::Quick),
            "thorough" => Some(Tier::Thorough),
            _ => None,
        }
    }
}

#[derive(Clone, Debug, Serialize, Deserialize)]
pub struct Violation {
    /// Violation class, stable under minimisation (e.g. "duplicate_seq").
    pub class: String,
    /// Specific signature used to match known findings (class + the failing shape).
    pub signature: String,
    /// Human-readable first offending observation.
    pub detail: String,
}

#[derive(Clone, Debug)]
pub enum Outcome {
    Ok,
    Violation(Violation),
    /// The harness itself failed (watchdog, replay divergence, setup error): never a verdict.
    Harness(String),
}

#[derive(Clone, Debug, Default, Serialize, Deserialize)]
pub struct RunStats {
    pub counters: BTreeMap<String, u64>,
    /// Hash identifying the explored case (interleaving / state) for distinctness counting.
    pub case_hash: u64,
    /// Non-trivial by the check's stated rule.
    pub nontrivial: bool,
    pub sim_time_ns: u64,
    /// Extra distinct-state hashes reached inside the run (e.g. crash states).
    pub state_hashes: Vec<u64>,
    /// Number of evaluated cases inside this run when a run evaluates many (0 = count as one).
    #[serde(default)]
    pub evals: u64,
}

impl RunStats {
    pub fn bump(&mut self, key: &str, n: u64) {
        *self.counters.entry(key.to_string()).or_insert(0) += n;
    }
}

pub struct Env {
    /// Fixed-length scratch root for this process (wiped per run by the check).
    pub root: PathBuf,
    pub tier: Tier,
}

pub struct Budget {
    pub runs: u64,
    pub secs: u64,
}

pub trait Check: Sync {
    fn id(&self) -> &'static str;
    fn level(&self) -> &'static str;
    fn technique(&self) -> &'static str;
    fn budget(&self, tier: Tier) -> Budget;
    /// Generate a concrete scenario from a run seed.
    fn generate(&self, run_seed: u64, tier: Tier) -> Value;
    /// Execute a concrete scenario.
    fn execute(&self, scenario: &Value, env: &Env) -> (Outcome, RunStats);
    /// Candidate reductions of a failing scenario, simplest first.
    fn shrink(&self, _scenario: &Value) -> Vec<Value> {
        Vec::new()
    }
    /// Re-run a failing scenario and return it with every PRNG-derived choice (schedule decision
    /// vectors) made explicit, so the replay file is a concrete trace.
    fn concretize(&self, scenario: &Value, _env: &Env) -> Value {
        scenario.clone()
    }
    fn rule(&self) -> String;
    fn assumptions(&self) -> Vec<String>;
    fn components(&self) -> Value;
    /// Extra coverage keys computed from merged counters.
    fn extra_coverage(&self, _counters: &BTreeMap<String, u64>) -> Value {
        json!({})
    }
    /// When true, `distinct_nontrivial` is the number of distinct state hashes (the check only
    /// reports non-trivial states there) instead of distinct non-trivial run hashes.
    fn distinct_from_states(&self) -> bool {
        false
    }
    fn exhaustive(&self) -> bool {
        false
    }
    /// How many times a scenario is executed when a violation is being reproduced (minimisation
    /// candidates, replay). 1 for fully deterministic engines; more for the real-time engine
    /// simulation, whose task-level timing the seed does not fix.
    fn attempts(&self) -> u32 {
        1
    }
}

#[derive(Clone, Debug, Serialize, Deserialize)]
pub struct FoundViolation {
    pub run_index: u64,
    pub run_seed: u64,
    pub scenario: Value,
    pub violation: Violation,
}

#[derive(Default, Serialize, Deserialize)]
pub struct WorkerResult {
    pub runs: u64,
    #[serde(default)]
    pub evals: u64,
    pub counters: BTreeMap<String, u64>,
    pub case_hashes_nontrivial: Vec<u64>,
    pub case_hashes_all: u64,
    pub state_hashes: Vec<u64>,
    pub sim_time_ns: u64,
    pub violations: Vec<FoundViolation>,
    pub harness_errors: Vec<String>,
    pub samples: Vec<Value>,
    pub wall_s: f64,
}

/// The verif directory this binary belongs to: `$VERIF_DIR`, else the directory that contains
/// `sim/target/...` of the running executable (so a snapshot run writes into its own snapshot),
/// else /verif.
pub fn verif_dir() -> PathBuf {
    if let Ok(v) = std::env::var("VERIF_DIR") {
        return PathBuf::from(v);
    }
    if let Ok(exe) = std::env::current_exe() {
        let mut p = exe.as_path();
        while let Some(parent) = p.parent() {
            if p.file_name().map(|n| n == "sim").unwrap_or(false) && parent.join("properties.jsonl").exists() {
                return parent.to_path_buf();
            }
            p = parent;
        }
    }
    PathBuf::from("/verif")
}

fn scratch_base() -> PathBuf {
    let shm = Path::new("/dev/shm");
    let base = if shm.is_dir() && std::fs::create_dir_all(shm.join("ripsim")).is_ok() {
        shm.join("ripsim")
    } else {
        let b = std::env::temp_dir().join("ripsim");
        let _ = std::fs::create_dir_all(&b);
        b
    };
    base
}

/// Fixed-length scratch root: <base>/<inv:07>/<kind><slot:02>
pub fn scratch_root(inv: u32, kind: char, slot: u32) -> PathBuf {
    scratch_base()
        .join(format!("{:07}", inv % 10_000_000))
        .join(format!("{kind}{:02}", slot % 100))
}

pub fn run_seed_for(seed: u64, check_id: &str, run_index: u64) -> u64 {
    mix(mix(seed, fnv1a(check_id.as_bytes())), run_index)
}

/// Worker: runs indices slot, slot+of, ... until the run or time budget ends.
pub fn worker(check: &dyn Check, tier: Tier, seed: u64, slot: u32, of: u32, runs: u64, secs: u64, inv: u32, out: &Path) {
    let env = Env {
        root: scratch_root(inv, 'w', slot),
        tier,
    };
    let start = Instant::now();
    let mut res = WorkerResult::default();
    let mut nontrivial: BTreeSet<u64> = BTreeSet::new();
    let mut all: BTreeSet<u64> = BTreeSet::new();
    let mut states: BTreeSet<u64> = BTreeSet::new();
    let mut sigs: BTreeSet<String> = BTreeSet::new();
    let known = load_known_findings();
    let (mut known_kept, mut unknown_kept) = (0usize, 0usize);
    let mut r = slot as u64;
    while r < runs {
        if start.elapsed() > Duration::from_secs(secs) {
            break;
        }
        let run_seed = run_seed_for(seed, check.id(), r);
        let scenario = check.generate(run_seed, tier);
        let (outcome, stats) = check.execute(&scenario, &env);
        res.runs += 1;
        res.evals += stats.evals.max(1);
        for (k, v) in &stats.counters {
            *res.counters.entry(k.clone()).or_insert(0) += v;
        }
        res.sim_time_ns += stats.sim_time_ns;
        all.insert(stats.case_hash);
        if stats.nontrivial {
            nontrivial.insert(stats.case_hash);
        }
        for h in &stats.state_hashes {
            states.insert(*h);
        }
        if res.samples.len() < 2 && stats.nontrivial {
            res.samples.push(json!({"run_index": r, "run_seed": run_seed, "scenario": scenario.clone()}));
        }
        match outcome {
            Outcome::Ok => {}
            Outcome::Violation(v) => {
                let is_known = known.iter().any(|k| k.property == check.id() && k.status == "open" && sig_matches(&k.signature, &v.signature));
                if sigs.insert(v.signature.clone()) {
                    // listed findings never crowd out an unlisted violation
                    if is_known {
                        if known_kept < 8 {
                            known_kept += 1;
                            res.violations.push(FoundViolation { run_index: r, run_seed, scenario, violation: v });
                        }
                    } else if unknown_kept < 8 {
                        unknown_kept += 1;
                        res.violations.push(FoundViolation { run_index: r, run_seed, scenario, violation: v });
                    }
                }
                *res.counters.entry("violating_runs".into()).or_insert(0) += 1;
            }
            Outcome::Harness(e) => {
                if res.harness_errors.len() < 5 {
                    res.harness_errors.push(format!("run {r} seed {run_seed}: {e}"));
                }
                *res.counters.entry("harness_errors".into()).or_insert(0) += 1;
            }
        }
        r += of as u64;
    }
    res.case_hashes_nontrivial = nontrivial.into_iter().collect();
    res.case_hashes_all = all.len() as u64;
    res.state_hashes = states.into_iter().collect();
    res.wall_s = start.elapsed().as_secs_f64();
    let _ = std::fs::remove_dir_all(&env.root);
    let bytes = serde_json::to_vec(&res).expect("serialize worker result");
    std::fs::write(out, bytes).expect("write worker result");
}

#[derive(Clone, Debug, Serialize, Deserialize)]
pub struct KnownFinding {
    pub property: String,
    pub signature: String,
    pub status: String, // "open" | "fixed"
    pub what: String,
    #[serde(default)]
    pub commit: Option<String>,
}

/// Known-finding signature match; `*` in the pattern matches any run of characters.
pub fn sig_matches(pattern: &str, sig: &str) -> bool {
    if !pattern.contains('*') {
        return pattern == sig;
    }
    let parts: Vec<&str> = pattern.split('*').collect();
    let mut rest = sig;
    for (i, part) in parts.iter().enumerate() {
        if i == 0 {
            if !rest.starts_with(part) {
                return false;
            }
            rest = &rest[part.len()..];
        } else if i == parts.len() - 1 {
            return rest.ends_with(part);
        } else {
            match rest.find(part) {
                Some(pos) => rest = &rest[pos + part.len()..],
                None => return false,
            }
        }
    }
    true
}

pub fn load_known_findings() -> Vec<KnownFinding> {
    let p = verif_dir().join("known_findings.json");
    match std::fs::read(&p) {
        Ok(b) => serde_json::from_slice(&b).unwrap_or_default(),
        Err(_) => Vec::new(),
    }
}

#[derive(Serialize, Deserialize)]
pub struct ReplayFile {
    pub property: String,
    pub seed: u64,
    pub run_index: u64,
    pub run_seed: u64,
    pub tier: String,
    pub violation: Violation,
    pub minimised: bool,
    pub scenario: Value,
}

/// Execute a scenario in-process and classify.
fn exec_once(check: &dyn Check, scenario: &Value, env: &Env) -> Outcome {
    let mut last = Outcome::Ok;
    for _ in 0..check.attempts().max(1) {
        last = check.execute(scenario, env).0;
        if matches!(last, Outcome::Violation(_)) {
            return last;
        }
    }
    last
}

/// Greedy delta-debugging over the check's shrink candidates while the same violation class
/// persists. Bounded by wall-clock.
fn minimise(check: &dyn Check, found: &FoundViolation, env: &Env, deadline: Instant) -> (Value, Violation) {
    let mut best = found.scenario.clone();
    let mut best_v = found.violation.clone();
    let mut progress = true;
    while progress && Instant::now() < deadline {
        progress = false;
        for cand in check.shrink(&best) {
            if Instant::now() >= deadline {
                break;
            }
            if let Outcome::Violation(v) = exec_once(check, &cand, env) {
                // same specific signature, so a reduction can never drift from an unlisted
                // violation into a listed finding of the same class
                if v.signature == best_v.signature {
                    best = cand;
                    best_v = v;
                    progress = true;
                    break;
                }
            }
        }
    }
    (best, best_v)
}

pub struct CheckArgs {
    pub tier: Tier,
    pub seed: u64,
    pub workers: u32,
    pub runs: Option<u64>,
    pub secs: Option<u64>,
}

/// Parent: fan out, merge, minimise, write replay + evidence, print verdict lines.
/// Returns the process exit code.
pub fn run_check(check: &dyn Check, args: &CheckArgs) -> i32 {
    let start = Instant::now();
    let budget = check.budget(args.tier);
    let runs = args.runs.unwrap_or(budget.runs);
    let secs = args.secs.unwrap_or(budget.secs);
    let inv = std::process::id();
    println!(
        "ripsim check {} tier={} VERIF_SEED={} runs<={} secs<={} workers={}",
        check.id(),
        args.tier.name(),
        args.seed,
        runs,
        secs,
        args.workers
    );
    let exe = std::env::current_exe().expect("current exe");
    let base = scratch_root(inv, 'w', 0).parent().unwrap().to_path_buf();
    let _ = std::fs::create_dir_all(&base);
    let mut children = Vec::new();
    for slot in 0..args.workers {
        let out = base.join(format!("result-{slot:02}.json"));
        let child = std::process::Command::new(&exe)
            .arg("worker")
            .arg(check.id())
            .arg(args.tier.name())
            .arg("--seed")
            .arg(args.seed.to_string())
            .arg("--slot")
            .arg(slot.to_string())
            .arg("--of")
            .arg(args.workers.to_string())
            .arg("--runs")
            .arg(runs.to_string())
            .arg("--secs")
            .arg(secs.to_string())
            .arg("--inv")
            .arg(inv.to_string())
            .arg("--out")
            .arg(&out)
            .spawn()
            .expect("spawn worker");
        children.push((slot, child, out));
    }
    let mut merged = WorkerResult::default();
    let mut nontrivial: BTreeSet<u64> = BTreeSet::new();
    let mut states: BTreeSet<u64> = BTreeSet::new();
    let mut harness_fail = false;
    for (slot, mut child, out) in children {
        let status = child.wait().expect("wait worker");
        if !status.success() {
            println!("HARNESS-ERROR worker {slot} exited with {status}");
            harness_fail = true;
            continue;
        }
        let Ok(bytes) = std::fs::read(&out) else {
            println!("HARNESS-ERROR worker {slot} wrote no result");
            harness_fail = true;
            continue;
        };
        let r: WorkerResult = match serde_json::from_slice(&bytes) {
            Ok(r) => r,
            Err(e) => {
                println!("HARNESS-ERROR worker {slot} result unreadable: {e}");
                harness_fail = true;
                continue;
            }
        };
        merged.runs += r.runs;
        merged.evals += r.evals;
        for (k, v) in r.counters {
            *merged.counters.entry(k).or_insert(0) += v;
        }
        merged.sim_time_ns += r.sim_time_ns;
        merged.case_hashes_all += r.case_hashes_all;
        nontrivial.extend(r.case_hashes_nontrivial);
        states.extend(r.state_hashes);
        merged.violations.extend(r.violations);
        merged.harness_errors.extend(r.harness_errors);
        if merged.samples.len() < 3 {
            merged.samples.extend(r.samples.into_iter().take(1));
        }
    }
    for e in &merged.harness_errors {
        println!("HARNESS-ERROR {e}");
        harness_fail = true;
    }

    // Group violations by signature; minimise one per signature.
    let known = load_known_findings();
    let env = Env {
        root: scratch_root(inv, 'm', 0),
        tier: args.tier,
    };
    let mut by_sig: BTreeMap<String, FoundViolation> = BTreeMap::new();
    merged.violations.sort_by_key(|v| v.run_index);
    for v in merged.violations.drain(..) {
        by_sig.entry(v.violation.signature.clone()).or_insert(v);
    }
    let mut exit_violation = false;
    let mut known_lines: BTreeSet<String> = BTreeSet::new();
    let replay_dir = verif_dir().join("replays");
    let mut reported: Vec<Value> = Vec::new();
    let min_budget = Duration::from_secs(if args.tier == Tier::Quick { 30 } else { 120 });
    let min_total_deadline = Instant::now() + Duration::from_secs(if args.tier == Tier::Quick { 90 } else { 600 });
    let mut seen_min_sigs: BTreeSet<String> = BTreeSet::new();
    for (_sig, found) in by_sig {
        // a violation that already matches a listed finding needs no minimisation
        if let Some(k) = known.iter().find(|k| {
            k.property == check.id() && k.status == "open" && sig_matches(&k.signature, &found.violation.signature)
        }) {
            known_lines.insert(format!(
                "KNOWN-FINDING: property={} signature={} {}",
                check.id(),
                k.signature,
                k.what
            ));
            continue;
        }
        let deadline = (Instant::now() + min_budget).min(min_total_deadline);
        let (scenario, violation) = minimise(check, &found, &env, deadline);
        let scenario = {
            let c = check.concretize(&scenario, &env);
            match exec_once(check, &c, &env) {
                Outcome::Violation(v) if v.signature == violation.signature => c,
                _ => scenario,
            }
        };
        // A minimised scenario may have a different (more specific or less specific) signature;
        // known-finding matching uses the minimised one, falling back to the original.
        if !seen_min_sigs.insert(violation.signature.clone()) {
            continue;
        }
        let matched = known.iter().find(|k| {
            k.property == check.id()
                && k.status == "open"
                && (sig_matches(&k.signature, &violation.signature) || sig_matches(&k.signature, &found.violation.signature))
        });
        if let Some(k) = matched {
            known_lines.insert(format!(
                "KNOWN-FINDING: property={} signature={} {}",
                check.id(),
                k.signature,
                k.what
            ));
            continue;
        }
        let _ = std::fs::create_dir_all(&replay_dir);
        let name = format!(
            "{}-{}-{:016x}.json",
            check.id(),
            found.run_seed,
            fnv1a(violation.signature.as_bytes())
        );
        let path = replay_dir.join(name);
        let file = ReplayFile {
            property: check.id().to_string(),
            seed: args.seed,
            run_index: found.run_index,
            run_seed: found.run_seed,
            tier: args.tier.name().to_string(),
            violation: violation.clone(),
            minimised: scenario != found.scenario,
            scenario,
        };
        std::fs::write(&path, serde_json::to_vec_pretty(&file).unwrap()).expect("write replay");
        // Confirm in a fresh process before reporting.
        let status = std::process::Command::new(&exe)
            .arg("replay")
            .arg(&path)
            .arg("--quiet")
            .arg("--inv")
            .arg(inv.to_string())
            .status()
            .expect("spawn replay");
        if status.code() == Some(1) {
            println!("VIOLATION property={} replay={}", check.id(), path.display());
            println!("  class={} signature={}", violation.class, violation.signature);
            println!("  detail={}", violation.detail);
            reported.push(json!({"signature": violation.signature, "replay": path.display().to_string()}));
            exit_violation = true;
        } else if check.attempts() > 1 {
            // real-time engine simulation: the violation was observed by a schedule-insensitive
            // oracle; the scenario is kept unminimised and replay may need further attempts
            let file = ReplayFile { minimised: false, scenario: found.scenario.clone(), violation: found.violation.clone(), ..file };
            std::fs::write(&path, serde_json::to_vec_pretty(&file).unwrap()).expect("write replay");
            println!("VIOLATION property={} replay={}", check.id(), path.display());
            println!("  class={} signature={}", found.violation.class, found.violation.signature);
            println!("  detail={}", found.violation.detail);
            println!("  note=timing-dependent: not reproduced in {} fresh attempts; the file holds the original scenario", check.attempts());
            reported.push(json!({"signature": found.violation.signature, "replay": path.display().to_string(), "replay_is_probabilistic": true}));
            exit_violation = true;
        } else {
            println!(
                "HARNESS-ERROR replay of {} did not reproduce in a fresh process (exit {:?})",
                path.display(),
                status.code()
            );
            harness_fail = true;
        }
    }
    for l in &known_lines {
        println!("{l}");
    }
    let _ = std::fs::remove_dir_all(&base);

    // Evidence.
    let wall = start.elapsed().as_secs_f64();
    let mut coverage = json!({
        "evaluations": merged.evals.max(merged.runs),
        "runs": merged.runs,
        "distinct_nontrivial": if check.distinct_from_states() { states.len() } else { nontrivial.len() },
        "rule": check.rule(),
        "samples": merged.samples,
        "exhaustive": check.exhaustive(),
        "runs_per_hour": if wall > 0.0 { (merged.runs as f64 / wall * 3600.0) as u64 } else { 0 },
        "simulated_time_s": merged.sim_time_ns as f64 / 1e9,
        "distinct_states": states.len(),
        "counters": merged.counters,
        "components": check.components(),
        "workers": args.workers,
        "known_findings_hit": known_lines.iter().cloned().collect::<Vec<_>>(),
        "violations_reported": reported,
    });
    if let (Some(obj), Value::Object(extra)) = (coverage.as_object_mut(), check.extra_coverage(&merged.counters)) {
        for (k, v) in extra {
            obj.insert(k, v);
        }
    }
    let evidence = json!({
        "property_id": check.id(),
        "tier": args.tier.name(),
        "seed": args.seed,
        "level": check.level(),
        "technique": check.technique(),
        "coverage": coverage,
        "assumptions": check.assumptions(),
        "wall_s": wall,
        "violations": if exit_violation { 1 } else { 0 },
    });
    let ev_dir = verif_dir().join("evidence");
    let _ = std::fs::create_dir_all(&ev_dir);
    let ev_path = ev_dir.join(format!("{}.json", check.id()));
    let mut f = std::fs::File::create(&ev_path).expect("evidence file");
    f.write_all(&serde_json::to_vec_pretty(&evidence).unwrap()).unwrap();
    f.write_all(b"\n").unwrap();
    println!(
        "{} {}: runs={} distinct_nontrivial={} states={} wall={:.1}s evidence={}",
        check.id(),
        args.tier.name(),
        merged.runs,
        nontrivial.len(),
        states.len(),
        wall,
        ev_path.display()
    );
    if exit_violation {
        1
    } else if harness_fail {
        2
    } else {
        0
    }
}

/// Replay a file in this (fresh) process. Exit 1 if the same violation class reproduces.
pub fn replay(check: &dyn Check, file: &ReplayFile, inv: u32, quiet: bool) -> i32 {
    let env = Env {
        root: scratch_root(inv, 'r', 0),
        tier: Tier::parse(&file.tier).unwrap_or(Tier::Quick),
    };
    let mut outcome = Outcome::Ok;
    let attempts = check.attempts().max(1);
    for k in 0..attempts {
        outcome = check.execute(&file.scenario, &env).0;
        if matches!(outcome, Outcome::Violation(_)) {
            if !quiet && attempts > 1 {
                println!("replay: reproduced at attempt {} of {}", k + 1, attempts);
            }
            break;
        }
    }
    let _ = std::fs::remove_dir_all(&env.root);
    match outcome {
        Outcome::Violation(v) => {
            if !quiet {
                println!("replay: violation class={} signature={}", v.class, v.signature);
                println!("  detail={}", v.detail);
            }
            if v.class == file.violation.class {
                if !quiet {
                    println!("VIOLATION property={} replay=(this file)", file.property);
                }
                1
            } else {
                if !quiet {
                    println!("replay: different class than recorded ({})", file.violation.class);
                }
                3
            }
        }
        Outcome::Ok => {
            if !quiet {
                println!("replay: no violation");
            }
            0
        }
        Outcome::Harness(e) => {
            println!("HARNESS-ERROR replay: {e}");
            2
        }
    }
}
