//! Hand-rolled PRNG (SplitMix64 seeding a xoshiro256**) with labelled sub-streams.
//!
//! One integer (`VERIF_SEED`) decides everything: every run derives `run_seed = mix(seed, check,
//! run index)` and, inside a run, independent streams are derived by label so adding a draw in
//! one stream never shifts another. Nothing in logging paths draws from these.

#[derive(Clone, Debug)]
pub struct Rng {
    s: [u64; 4],
}

pub fn splitmix64(x: &mut u64) -> u64 {
    *x = x.wrapping_add(0x9E37_79B9_7F4A_7C15);
    let mut z = *x;
    z = (z ^ (z >> 30)).wrapping_mul(0xBF58_476D_1CE4_E5B9);
    z = (z ^ (z >> 27)).wrapping_mul(0x94D0_49BB_1331_11EB);
    z ^ (z >> 31)
}

pub fn fnv1a(bytes: &[u8]) -> u64 {
    let mut h: u64 = 0xcbf2_9ce4_8422_2325;
    for b in bytes {
        h ^= *b as u64;
        h = h.wrapping_mul(0x0000_0100_0000_01B3);
    }
    h
}

pub fn mix(a: u64, b: u64) -> u64 {
    let mut x = a ^ b.rotate_left(32) ^ 0xD6E8_FEB8_6659_FD93;
    let r = splitmix64(&mut x);
    r ^ splitmix64(&mut x)
}

pub fn mix_label(seed: u64, label: &str) -> u64 {
    mix(seed, fnv1a(label.as_bytes()))
}

impl Rng {
    pub fn new(seed: u64) -> Self {
        let mut x = seed;
        let s = [
            splitmix64(&mut x),
            splitmix64(&mut x),
            splitmix64(&mut x),
            splitmix64(&mut x),
        ];
        Rng { s }
    }

    pub fn derive(seed: u64, label: &str) -> Self {
        Rng::new(mix_label(seed, label))
    }

    pub fn next_u64(&mut self) -> u64 {
        let result = self.s[1].wrapping_mul(5).rotate_left(7).wrapping_mul(9);
        let t = self.s[1] << 17;
        self.s[2] ^= self.s[0];
        self.s[3] ^= self.s[1];
        self.s[1] ^= self.s[2];
        self.s[0] ^= self.s[3];
        self.s[2] ^= t;
        self.s[3] = self.s[3].rotate_left(45);
        result
    }

    /// Uniform in `0..n` (n > 0).
    pub fn below(&mut self, n: u64) -> u64 {
        if n <= 1 {
            return 0;
        }
        // Lemire-style rejection is unnecessary at these sizes; modulo bias is negligible here but
        // we reject the short tail anyway to keep the distribution exact.
        let zone = u64::MAX - (u64::MAX % n);
        loop {
            let v = self.next_u64();
            if v < zone {
                return v % n;
            }
        }
    }

    pub fn range(&mut self, lo: u64, hi_inclusive: u64) -> u64 {
        lo + self.below(hi_inclusive - lo + 1)
    }

    pub fn usize_below(&mut self, n: usize) -> usize {
        self.below(n as u64) as usize
    }

    pub fn chance(&mut self, num: u64, den: u64) -> bool {
        self.below(den) < num
    }

    pub fn pick<'a, T>(&mut self, items: &'a [T]) -> &'a T {
        &items[self.usize_below(items.len())]
    }

    pub fn fill(&mut self, buf: &mut [u8]) {
        let mut i = 0;
        while i < buf.len() {
            let v = self.next_u64().to_le_bytes();
            let n = (buf.len() - i).min(8);
            buf[i..i + n].copy_from_slice(&v[..n]);
            i += n;
        }
    }

    pub fn shuffle<T>(&mut self, items: &mut [T]) {
        for i in (1..items.len()).rev() {
            let j = self.usize_below(i + 1);
            items.swap(i, j);
        }
    }
}
