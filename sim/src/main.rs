//! ripsim — deterministic simulation with fault injection for numman-ali/rip.

mod checks;
/// The rip-cli attach / recovery loop, compiled from the repository's own source file (rip-cli is a
/// binary crate and cannot be linked).
#[allow(dead_code)]
#[path = "/repo/crates/rip-cli/src/local_authority.rs"]
mod cli_local_authority;
mod driver;
mod esim;
mod faults;
mod frames;
mod model;
mod prng;
mod sched;
mod seam;
mod storesim;
mod threadmodel;
mod world;
mod wsenv;

use driver::{CheckArgs, ReplayFile, Tier};

fn arg_val(args: &[String], name: &str) -> Option<String> {
    args.iter().position(|a| a == name).and_then(|i| args.get(i + 1).cloned())
}

fn main() {
    let args: Vec<String> = std::env::args().collect();
    {
        // panics inside simulated actors are observations, not crashes of the harness
        let verbose = std::env::var("RIPSIM_PANIC_OUTPUT").is_ok();
        let default_hook = std::panic::take_hook();
        std::panic::set_hook(Box::new(move |info| {
            esim::note_panic(info);
            if verbose {
                default_hook(info);
            }
        }));
    }
    let cmd = args.get(1).map(|s| s.as_str()).unwrap_or("");
    if cmd == "serve" {
        // the rip-cli attach loop (run by C18's client contenders) spawns `<current exe> serve` as
        // the local authority; in the simulation server contenders are separate actors, so the
        // spawned process has nothing to do
        std::process::exit(0);
    }
    if cmd == "serve-real" {
        // C18's shutdown hand-over scenario runs the daemon's real `serve` loop (authority
        // acquisition, listener, endpoint advertisement, signal handling, graceful drain, release)
        // in a process of its own; store, workspace and address come from the environment
        let rt = tokio::runtime::Builder::new_multi_thread().worker_threads(2).enable_all().build().expect("runtime");
        rt.block_on(ripd::serve_default());
        std::process::exit(0);
    }
    let code = match cmd {
        "check" => {
            let id = args.get(2).cloned().unwrap_or_default();
            let tier = args.get(3).and_then(|s| Tier::parse(s)).unwrap_or(Tier::Quick);
            let Some(check) = checks::by_id(&id) else {
                eprintln!("HARNESS-ERROR unknown check {id}");
                std::process::exit(2);
            };
            let seed = arg_val(&args, "--seed")
                .or_else(|| std::env::var("VERIF_SEED").ok())
                .and_then(|s| s.parse().ok())
                .unwrap_or(1u64);
            let workers = arg_val(&args, "--workers")
                .and_then(|s| s.parse().ok())
                .unwrap_or_else(|| std::thread::available_parallelism().map(|n| n.get() as u32).unwrap_or(8).min(16));
            let a = CheckArgs {
                tier,
                seed,
                workers,
                runs: arg_val(&args, "--runs").and_then(|s| s.parse().ok()),
                secs: arg_val(&args, "--secs").and_then(|s| s.parse().ok()),
            };
            driver::run_check(check.as_ref(), &a)
        }
        "worker" => {
            let id = args.get(2).cloned().unwrap_or_default();
            let tier = args.get(3).and_then(|s| Tier::parse(s)).unwrap_or(Tier::Quick);
            let check = checks::by_id(&id).expect("check");
            let g = |n: &str| arg_val(&args, n).expect(n);
            driver::worker(
                check.as_ref(),
                tier,
                g("--seed").parse().unwrap(),
                g("--slot").parse().unwrap(),
                g("--of").parse().unwrap(),
                g("--runs").parse().unwrap(),
                g("--secs").parse().unwrap(),
                g("--inv").parse().unwrap(),
                std::path::Path::new(&g("--out")),
            );
            0
        }
        "replay" => {
            let path = args.get(2).cloned().unwrap_or_default();
            let bytes = std::fs::read(&path).unwrap_or_else(|e| {
                eprintln!("HARNESS-ERROR cannot read {path}: {e}");
                std::process::exit(2);
            });
            let file: ReplayFile = serde_json::from_slice(&bytes).unwrap_or_else(|e| {
                eprintln!("HARNESS-ERROR bad replay file: {e}");
                std::process::exit(2);
            });
            let check = checks::by_id(&file.property).expect("check");
            let inv = arg_val(&args, "--inv").and_then(|s| s.parse().ok()).unwrap_or(std::process::id());
            let quiet = args.iter().any(|a| a == "--quiet");
            driver::replay(check.as_ref(), &file, inv, quiet)
        }
        "one" => {
            // ripsim one <ID> <tier> <run_index> [--seed N] : run a single generated scenario, print it
            let id = args.get(2).cloned().unwrap_or_default();
            let tier = args.get(3).and_then(|s| Tier::parse(s)).unwrap_or(Tier::Quick);
            let idx: u64 = args.get(4).and_then(|s| s.parse().ok()).unwrap_or(0);
            let seed = arg_val(&args, "--seed").and_then(|s| s.parse().ok()).unwrap_or(1u64);
            let check = checks::by_id(&id).expect("check");
            let run_seed = driver::run_seed_for(seed, check.id(), idx);
            let sc = check.generate(run_seed, tier);
            let env = driver::Env { root: driver::scratch_root(std::process::id(), 'w', 0), tier };
            let (o, st) = check.execute(&sc, &env);
            if args.iter().any(|a| a == "--print") {
                println!("{}", serde_json::to_string_pretty(&sc).unwrap());
            }
            println!("outcome={o:?}");
            println!("case_hash={:016x} nontrivial={} counters={:?}", st.case_hash, st.nontrivial, st.counters);
            if args.iter().any(|a| a == "--keep") {
                println!("root={}", env.root.display());
            } else {
                let _ = std::fs::remove_dir_all(&env.root);
            }
            0
        }
        _ => {
            eprintln!("usage: ripsim check <ID> <quick|thorough> [--seed N] [--runs N] [--secs S] [--workers W] | replay <file> | one <ID> <tier> <idx>");
            2
        }
    };
    std::process::exit(code);
}
