//! The store-level world for synchronous simulations: real `EventLog` + `ContinuityStore` on a
//! real directory, driven through the public API (plus the `verif_api` exports) by concrete,
//! serialisable operations that refer to threads and messages symbolically (by index), so that an
//! operation list can be generated up-front, replayed and shrunk.

use std::collections::BTreeMap;
use std::path::{Path, PathBuf};
use std::sync::{Arc, Mutex};

use rip_log::EventLog;
use ripd::verif_api;
use ripd::{
    CompactionAutoScheduleV1Request, CompactionAutoV1Request,
    CompactionCheckpointCumulativeV1Request, CompactionCutPointsV1Request,
    CompactionStatusV1Request, ContextSelectionStatusV1Request, ContinuityRunLink,
    ContinuityStore, ProviderCursorRotateV1Request, ProviderCursorStatusV1Request,
    ToolSideEffects,
};
use serde::{Deserialize, Serialize};
use serde_json::{json, Value};

use crate::prng::Rng;

#[derive(Clone, Debug)]
pub struct Dirs {
    pub root: PathBuf,
    pub data: PathBuf,
    pub workspace: PathBuf,
}

impl Dirs {
    pub fn at(root: &Path) -> Dirs {
        Dirs {
            root: root.to_path_buf(),
            data: root.join("data"),
            workspace: root.join("ws"),
        }
    }
    pub fn fresh(root: &Path) -> Dirs {
        let _ = std::fs::remove_dir_all(root);
        let d = Dirs::at(root);
        std::fs::create_dir_all(&d.data).expect("data dir");
        std::fs::create_dir_all(&d.workspace).expect("workspace dir");
        d
    }
    pub fn truth_path(&self) -> PathBuf {
        self.data.join("events.jsonl")
    }
    pub fn streams_dir(&self) -> PathBuf {
        self.data.join("continuity_streams")
    }
    pub fn snapshots_dir(&self) -> PathBuf {
        self.data.join("snapshots")
    }
    pub fn blobs_dir(&self) -> PathBuf {
        self.workspace.join(".rip").join("artifacts").join("blobs")
    }
}

pub struct Store {
    pub log: Arc<EventLog>,
    pub store: Arc<ContinuityStore>,
}

pub fn open_store(dirs: &Dirs) -> Result<Store, String> {
    let log = Arc::new(EventLog::new(dirs.truth_path()).map_err(|e| format!("event log: {e}"))?);
    let store = Arc::new(ContinuityStore::new(
        dirs.data.clone(),
        dirs.workspace.clone(),
        log.clone(),
    )?);
    Ok(Store { log, store })
}

// ---------------------------------------------------------------------------------------------

#[derive(Clone, Debug, Serialize, Deserialize, PartialEq)]
pub enum CutSel {
    None,
    /// from_seq = head * num / den (num may exceed den: out of range)
    SeqFrac { num: u32, den: u32 },
    SeqAbs(u64),
    /// k-th message known for the thread
    Message(u32),
    UnknownMessage,
    /// id of a non-message frame of the thread (k-th frame)
    NonMessageFrame(u32),
    Both,
}

#[derive(Clone, Debug, Serialize, Deserialize, PartialEq)]
pub enum SummarySel {
    Text,
    Artifact,
    Neither,
    UnreadableArtifact,
    Both,
}

#[derive(Clone, Debug, Serialize, Deserialize, PartialEq)]
pub enum Op {
    EnsureDefault,
    AppendMessage { thread: u32, size: u32 },
    RunSpawned { thread: u32, msg: u32 },
    RunEnded { thread: u32, msg: u32 },
    ToolSideEffects { thread: u32, msg: u32, paths: u32 },
    /// compile context for (thread,msg) and log decided+compiled like a run does
    CompileForRun { thread: u32, msg: u32 },
    CursorUpdated { thread: u32, key: u32 },
    CursorRotate { thread: u32, filter: u32 },
    ManualCheckpoint { thread: u32, sel: CutSel, stride: Option<u64>, summary: SummarySel },
    CompactionAuto { thread: u32, stride: Option<u64>, max_new: Option<u32>, dry_run: Option<bool> },
    CompactionSchedule {
        thread: u32,
        stride: Option<u64>,
        max_new: Option<u32>,
        block: Option<bool>,
        execute: Option<bool>,
        dry_run: Option<bool>,
    },
    Branch { thread: u32, sel: CutSel },
    Handoff { thread: u32, sel: CutSel, summary: SummarySel },
    /// message + run_spawned + compile (decided/compiled) + side effects + cursor + run_ended
    FullRun { thread: u32, size: u32, effects: u32, cursor_key: Option<u32> },
    // read-only
    Replay { thread: u32 },
    CutPoints { thread: u32, stride: Option<u64>, limit: Option<u32> },
    CompactionStatus { thread: u32, stride: Option<u64> },
    CursorStatus { thread: u32 },
    SelectionStatus { thread: u32, limit: Option<u32> },
    List,
    Get { thread: u32 },
    /// message + run_spawned + a real-looking session stream (started, `deltas` text deltas, ended)
    /// + optional snapshot file (0 none, 1 valid, 2 corrupt, 3 of another session) + run_ended
    RunWithReply { thread: u32, size: u32, deltas: u32, snapshot: u32 },
    /// operations aimed at a thread id that does not exist
    UnknownThread { which: u32 },
    /// raw session-stream frames appended straight to the log by this actor (cross-stream noise)
    RawSession { frames: u32 },
}

impl Op {
    pub fn is_read_only(&self) -> bool {
        match self {
            Op::Replay { .. } | Op::CutPoints { .. } | Op::CompactionStatus { .. } | Op::CursorStatus { .. } | Op::SelectionStatus { .. } | Op::List | Op::Get { .. } => true,
            // a dry run adds nothing, whatever else the request says and whatever it answers
            Op::CompactionAuto { dry_run: Some(true), .. } | Op::CompactionSchedule { dry_run: Some(true), .. } => true,
            // replay / cut points / the three status calls on an unknown thread id
            Op::UnknownThread { which } => matches!(which % 9, 1..=5),
            _ => false,
        }
    }
    pub fn name(&self) -> &'static str {
        match self {
            Op::EnsureDefault => "ensure_default",
            Op::AppendMessage { .. } => "append_message",
            Op::RunSpawned { .. } => "run_spawned",
            Op::RunEnded { .. } => "run_ended",
            Op::ToolSideEffects { .. } => "tool_side_effects",
            Op::CompileForRun { .. } => "compile_for_run",
            Op::CursorUpdated { .. } => "cursor_updated",
            Op::CursorRotate { .. } => "cursor_rotate",
            Op::ManualCheckpoint { .. } => "manual_checkpoint",
            Op::CompactionAuto { .. } => "compaction_auto",
            Op::CompactionSchedule { .. } => "compaction_schedule",
            Op::Branch { .. } => "branch",
            Op::Handoff { .. } => "handoff",
            Op::FullRun { .. } => "full_run",
            Op::Replay { .. } => "replay",
            Op::CutPoints { .. } => "cut_points",
            Op::CompactionStatus { .. } => "compaction_status",
            Op::CursorStatus { .. } => "cursor_status",
            Op::SelectionStatus { .. } => "selection_status",
            Op::List => "list",
            Op::Get { .. } => "get",
            Op::RunWithReply { .. } => "run_with_reply",
            Op::UnknownThread { .. } => "unknown_thread",
            Op::RawSession { .. } => "raw_session",
        }
    }
}

/// Unknown thread ids: well-formed UUIDs that were never minted, and (from 90 up) ids a hostile or
/// careless client could send - path-like, empty, over-long.
pub const WEIRD_THREAD_IDS: &[&str] = &["../events", "..", ".", "", "a/b", "../snapshots/x", "../continuity_streams/../events", "events", "../../data/events", "%2e%2e%2fevents", "../events.jsonl", "x\u{0}y"];
pub const UNKNOWN_THREAD_SPACE: u64 = 90 + 9 * 13;

pub fn unknown_thread_id(which: u32) -> String {
    if which < 90 {
        return format!("00000000-0000-4000-8000-{:012}", which);
    }
    let k = ((which - 90) / 9) as usize;
    if k < WEIRD_THREAD_IDS.len() {
        WEIRD_THREAD_IDS[k].to_string()
    } else {
        "t".repeat(300)
    }
}

/// What an operation returned, recorded by the driver for the oracles.
#[derive(Clone, Debug, Default, Serialize)]
pub struct OpResult {
    pub actor: usize,
    pub index: usize,
    pub op: String,
    pub ok: bool,
    pub err: Option<String>,
    /// thread the op addressed (resolved id)
    pub thread: Option<String>,
    /// ids of frames this op was told were appended (acknowledged)
    pub acked_ids: Vec<String>,
    /// new thread created (branch/handoff/ensure_default)
    pub new_thread: Option<String>,
    /// response as JSON where useful
    pub response: Option<Value>,
    /// response said nothing was done (noop / dry_run)
    pub noop: bool,
}

/// Harness-side registry shared by actors (never held across a scheduling point).
#[derive(Default)]
pub struct Registry {
    /// message ids acknowledged per thread, in acknowledgement order
    pub messages: BTreeMap<String, Vec<String>>,
    /// (message id, run session id) pairs spawned per thread
    pub runs: BTreeMap<String, Vec<(String, String)>>,
    pub results: Vec<OpResult>,
    pub run_counter: u64,
    /// (frame id, op name) acknowledged to the caller, in acknowledgement order, recorded the
    /// moment the appending call returns Ok
    pub acks: Vec<(String, String)>,
    /// thread ids in the order the harness learned of them (creation acknowledged)
    pub threads: Vec<String>,
}

pub struct World {
    pub dirs: Dirs,
    pub store: Mutex<Option<Arc<Store>>>,
    pub reg: Mutex<Registry>,
}

impl World {
    pub fn new(dirs: Dirs) -> World {
        World {
            dirs,
            store: Mutex::new(None),
            reg: Mutex::new(Registry::default()),
        }
    }
    pub fn open(&self) -> Result<(), String> {
        let s = open_store(&self.dirs)?;
        *self.store.lock().unwrap() = Some(Arc::new(s));
        Ok(())
    }
    pub fn close(&self) {
        *self.store.lock().unwrap() = None;
    }
    pub fn st(&self) -> Arc<Store> {
        self.store.lock().unwrap().clone().expect("store open")
    }

    /// Threads in a schedule-determined order that does not depend on random ids: first the ones
    /// whose creation was acknowledged to the harness (in that order), then any other thread the
    /// store lists (created by an operation still in flight), by (created_at, id).
    pub fn threads_sorted(&self, store: &ContinuityStore) -> Vec<String> {
        let mut out: Vec<String> = self.reg.lock().unwrap().threads.clone();
        let mut rest: Vec<(u64, String)> = store
            .list()
            .into_iter()
            .filter(|m| !out.contains(&m.continuity_id))
            .map(|m| (m.created_at_ms, m.continuity_id))
            .collect();
        rest.sort();
        out.extend(rest.into_iter().map(|(_, id)| id));
        out
    }

    fn pick_thread(&self, store: &ContinuityStore, idx: u32) -> Option<String> {
        let t = self.threads_sorted(store);
        if t.is_empty() {
            None
        } else {
            Some(t[idx as usize % t.len()].clone())
        }
    }

    fn pick_message(&self, thread: &str, idx: u32) -> Option<String> {
        let reg = self.reg.lock().unwrap();
        let m = reg.messages.get(thread)?;
        if m.is_empty() {
            None
        } else {
            Some(m[idx as usize % m.len()].clone())
        }
    }

    fn pick_run(&self, thread: &str, idx: u32) -> Option<(String, String)> {
        let reg = self.reg.lock().unwrap();
        let r = reg.runs.get(thread)?;
        if r.is_empty() {
            None
        } else {
            Some(r[idx as usize % r.len()].clone())
        }
    }

    fn new_run_id(&self, actor: usize) -> String {
        let mut reg = self.reg.lock().unwrap();
        reg.run_counter += 1;
        format!("run-{actor}-{}", reg.run_counter)
    }

    pub fn ack(&self, id: &str, op: &str) {
        self.reg.lock().unwrap().acks.push((id.to_string(), op.to_string()));
    }

    pub fn record(&self, r: OpResult) {
        if let Some(t) = &r.new_thread {
            let mut reg = self.reg.lock().unwrap();
            if !reg.threads.contains(t) {
                reg.threads.push(t.clone());
            }
        }
        self.reg.lock().unwrap().results.push(r);
    }

    /// Execute one operation as `actor`; never panics on API errors.
    pub fn exec(&self, actor: usize, index: usize, op: &Op) -> OpResult {
        let r = self.exec_inner(actor, index, op);
        if let Some(t) = &r.new_thread {
            let mut reg = self.reg.lock().unwrap();
            if !reg.threads.contains(t) {
                reg.threads.push(t.clone());
            }
        }
        r
    }

    fn exec_inner(&self, actor: usize, index: usize, op: &Op) -> OpResult {
        // deterministic iteration budget for the hooked tail-window loops, per operation
        crate::sched::ticks_reset(400);
        let st = self.st();
        let store = st.store.as_ref();
        let mut res = OpResult {
            actor,
            index,
            op: op.name().to_string(),
            ..Default::default()
        };
        let who = format!("actor{actor}");
        let origin = "sim".to_string();
        macro_rules! thread_or_skip {
            ($idx:expr) => {
                match self.pick_thread(store, $idx) {
                    Some(t) => {
                        res.thread = Some(t.clone());
                        t
                    }
                    None => {
                        res.err = Some("skip:no_thread".into());
                        return res;
                    }
                }
            };
        }
        match op {
            Op::EnsureDefault => match store.ensure_default() {
                Ok(id) => {
                    res.ok = true;
                    res.new_thread = Some(id.clone());
                    res.thread = Some(id);
                }
                Err(e) => res.err = Some(e),
            },
            Op::AppendMessage { thread, size } => {
                let t = thread_or_skip!(*thread);
                let content = content_of(actor, index, *size);
                match store.append_message(&t, who, origin, content) {
                    Ok(id) => {
                        res.ok = true;
                        self.ack(&id, op.name());
res.acked_ids.push(id.clone());
                        self.reg
                            .lock()
                            .unwrap()
                            .messages
                            .entry(t)
                            .or_default()
                            .push(id);
                    }
                    Err(e) => res.err = Some(e),
                }
            }
            Op::RunSpawned { thread, msg } => {
                let t = thread_or_skip!(*thread);
                let Some(m) = self.pick_message(&t, *msg) else {
                    res.err = Some("skip:no_message".into());
                    return res;
                };
                let run = self.new_run_id(actor);
                match store.append_run_spawned(&t, &m, &run, who, origin) {
                    Ok(id) => {
                        res.ok = true;
                        self.ack(&id, op.name());
res.acked_ids.push(id);
                        self.reg
                            .lock()
                            .unwrap()
                            .runs
                            .entry(t)
                            .or_default()
                            .push((m, run));
                    }
                    Err(e) => res.err = Some(e),
                }
            }
            Op::RunEnded { thread, msg } => {
                let t = thread_or_skip!(*thread);
                let Some((m, run)) = self.pick_run(&t, *msg) else {
                    res.err = Some("skip:no_run".into());
                    return res;
                };
                match store.append_run_ended(&t, &m, &run, "completed".into(), who, origin) {
                    Ok(id) => {
                        res.ok = true;
                        self.ack(&id, op.name());
res.acked_ids.push(id);
                    }
                    Err(e) => res.err = Some(e),
                }
            }
            Op::ToolSideEffects { thread, msg, paths } => {
                let t = thread_or_skip!(*thread);
                let Some((m, run)) = self.pick_run(&t, *msg) else {
                    res.err = Some("skip:no_run".into());
                    return res;
                };
                let link = ContinuityRunLink {
                    continuity_id: t.clone(),
                    message_id: m,
                    actor_id: who,
                    origin,
                };
                let eff = ToolSideEffects {
                    tool_id: format!("tool-{actor}-{index}"),
                    tool_name: "write".into(),
                    affected_paths: if *paths == 0 {
                        None
                    } else {
                        Some((0..*paths).map(|i| format!("f{i}.txt")).collect())
                    },
                    checkpoint_id: if paths % 2 == 1 {
                        Some(format!("ckpt-{index}"))
                    } else {
                        None
                    },
                };
                match store.append_tool_side_effects(&link, &run, eff) {
                    Ok(id) => {
                        res.ok = true;
                        self.ack(&id, op.name());
res.acked_ids.push(id);
                    }
                    Err(e) => res.err = Some(e),
                }
            }
            Op::CompileForRun { thread, msg } => {
                let t = thread_or_skip!(*thread);
                let Some(m) = self.pick_message(&t, *msg) else {
                    res.err = Some("skip:no_message".into());
                    return res;
                };
                let run = self.new_run_id(actor);
                let link = ContinuityRunLink {
                    continuity_id: t.clone(),
                    message_id: m,
                    actor_id: who,
                    origin,
                };
                match verif_api::compile_context_for_run(
                    store,
                    st.log.as_ref(),
                    &self.dirs.snapshots_dir(),
                    &link,
                    &run,
                    true,
                ) {
                    Ok(v) => {
                        res.ok = true;
                        res.response = Some(v);
                    }
                    Err(e) => res.err = Some(e),
                }
            }
            Op::CursorUpdated { thread, key } => {
                let t = thread_or_skip!(*thread);
                let (provider, endpoint, model) = cursor_key(*key);
                match verif_api::append_provider_cursor_updated(
                    store,
                    &t,
                    verif_api::ProviderCursorUpdate {
                        provider,
                        endpoint,
                        model,
                        cursor: Some(json!({"previous_response_id": format!("resp-{actor}-{index}")})),
                        action: "set".into(),
                        reason: Some("run_completed".into()),
                        run_session_id: Some(format!("run-x-{actor}-{index}")),
                        actor_id: who,
                        origin,
                    },
                ) {
                    Ok(id) => {
                        res.ok = true;
                        self.ack(&id, op.name());
res.acked_ids.push(id);
                    }
                    Err(e) => res.err = Some(e),
                }
            }
            Op::CursorRotate { thread, filter } => {
                let t = thread_or_skip!(*thread);
                let (p, e, m) = cursor_key(*filter / 8);
                let req = ProviderCursorRotateV1Request {
                    provider: if filter & 1 != 0 { Some(p) } else { None },
                    endpoint: if filter & 2 != 0 { e } else { None },
                    model: if filter & 4 != 0 { m } else { None },
                    reason: Some("sim".into()),
                    actor_id: who,
                    origin,
                };
                match store.provider_cursor_rotate_v1(&t, req) {
                    Ok(r) => {
                        res.ok = true;
                        res.noop = !r.rotated;
                        if let Some(id) = r.cursor_event_id.clone() {
                            self.ack(&id, op.name());
res.acked_ids.push(id);
                        }
                        res.response = serde_json::to_value(&r).ok();
                    }
                    Err(e) => res.err = Some(e),
                }
            }
            Op::ManualCheckpoint {
                thread,
                sel,
                stride,
                summary,
            } => {
                let t = thread_or_skip!(*thread);
                let (to_message_id, to_seq) = self.resolve_sel(store, &t, sel);
                let (summary_markdown, summary_artifact_id) =
                    self.resolve_summary(store, &t, summary, to_seq, actor, index);
                let req = CompactionCheckpointCumulativeV1Request {
                    summary_markdown,
                    summary_artifact_id,
                    to_message_id,
                    to_seq,
                    stride_messages: *stride,
                    actor_id: who,
                    origin,
                };
                match store.compaction_checkpoint_cumulative_v1(&t, req) {
                    Ok((ckpt, art, to_seq, to_msg, rule)) => {
                        res.ok = true;
                        res.response = Some(json!({"checkpoint_id": ckpt, "summary_artifact_id": art, "to_seq": to_seq, "to_message_id": to_msg, "cut_rule_id": rule}));
                    }
                    Err(e) => res.err = Some(e),
                }
            }
            Op::CompactionAuto {
                thread,
                stride,
                max_new,
                dry_run,
            } => {
                let t = thread_or_skip!(*thread);
                let req = CompactionAutoV1Request {
                    stride_messages: *stride,
                    max_new_checkpoints: *max_new,
                    dry_run: *dry_run,
                    actor_id: who,
                    origin,
                };
                match store.compaction_auto_v1(&t, req) {
                    Ok(r) => {
                        res.ok = true;
                        res.noop = r.status == "noop";
                        res.response = serde_json::to_value(&r).ok();
                    }
                    Err(e) => res.err = Some(e),
                }
            }
            Op::CompactionSchedule {
                thread,
                stride,
                max_new,
                block,
                execute,
                dry_run,
            } => {
                let t = thread_or_skip!(*thread);
                let req = CompactionAutoScheduleV1Request {
                    stride_messages: *stride,
                    max_new_checkpoints: *max_new,
                    block_on_inflight: *block,
                    execute: *execute,
                    dry_run: *dry_run,
                    actor_id: who,
                    origin,
                };
                match store.compaction_auto_schedule_v1(&t, req) {
                    Ok(r) => {
                        res.ok = true;
                        res.noop = r.decision == "noop" || r.decision == "dry_run";
                        res.response = serde_json::to_value(&r).ok();
                    }
                    Err(e) => res.err = Some(e),
                }
            }
            Op::Branch { thread, sel } => {
                let t = thread_or_skip!(*thread);
                let (from_message_id, from_seq) = self.resolve_sel(store, &t, sel);
                match store.branch(&t, Some(format!("b-{actor}-{index}")), from_message_id.clone(), from_seq, who, origin) {
                    Ok((child, seq, mid)) => {
                        res.ok = true;
                        res.new_thread = Some(child.clone());
                        res.response = Some(json!({"child": child, "parent_seq": seq, "parent_message_id": mid, "req_from_seq": from_seq, "req_from_message_id": from_message_id}));
                    }
                    Err(e) => {
                        res.err = Some(e);
                        res.response = Some(json!({"req_from_seq": from_seq, "req_from_message_id": from_message_id}));
                    }
                }
            }
            Op::Handoff {
                thread,
                sel,
                summary,
            } => {
                let t = thread_or_skip!(*thread);
                let (from_message_id, from_seq) = self.resolve_sel(store, &t, sel);
                let (md, art) = self.resolve_handoff_summary(summary, actor, index);
                match store.handoff(&t, Some(format!("h-{actor}-{index}")), (md.clone(), art.clone()), from_message_id.clone(), from_seq, (who, origin)) {
                    Ok((child, seq, mid)) => {
                        res.ok = true;
                        res.new_thread = Some(child.clone());
                        res.response = Some(json!({"child": child, "from_seq": seq, "from_message_id": mid, "req_from_seq": from_seq, "req_from_message_id": from_message_id, "req_md": md, "req_art": art}));
                    }
                    Err(e) => {
                        res.err = Some(e);
                        res.response = Some(json!({"req_from_seq": from_seq, "req_from_message_id": from_message_id, "req_md": md, "req_art": art}));
                    }
                }
            }
            Op::FullRun {
                thread,
                size,
                effects,
                cursor_key: ck,
            } => {
                let t = thread_or_skip!(*thread);
                let content = content_of(actor, index, *size);
                let m = match store.append_message(&t, who.clone(), origin.clone(), content) {
                    Ok(id) => id,
                    Err(e) => {
                        res.err = Some(e);
                        return res;
                    }
                };
                self.ack(&m, op.name());
res.acked_ids.push(m.clone());
                self.reg
                    .lock()
                    .unwrap()
                    .messages
                    .entry(t.clone())
                    .or_default()
                    .push(m.clone());
                let run = self.new_run_id(actor);
                match store.append_run_spawned(&t, &m, &run, who.clone(), origin.clone()) {
                    Ok(id) => {
                        self.ack(&id, op.name());
                        res.acked_ids.push(id);
                    }
                    Err(e) => {
                        res.err = Some(e);
                        return res;
                    }
                }
                self.reg
                    .lock()
                    .unwrap()
                    .runs
                    .entry(t.clone())
                    .or_default()
                    .push((m.clone(), run.clone()));
                let link = ContinuityRunLink {
                    continuity_id: t.clone(),
                    message_id: m.clone(),
                    actor_id: who.clone(),
                    origin: origin.clone(),
                };
                match verif_api::compile_context_for_run(
                    store,
                    st.log.as_ref(),
                    &self.dirs.snapshots_dir(),
                    &link,
                    &run,
                    true,
                ) {
                    Ok(v) => res.response = Some(v),
                    Err(e) => {
                        res.err = Some(format!("compile: {e}"));
                    }
                }
                for k in 0..*effects {
                    let eff = ToolSideEffects {
                        tool_id: format!("tool-{actor}-{index}-{k}"),
                        tool_name: if k % 2 == 0 { "write" } else { "bash" }.into(),
                        affected_paths: if k % 2 == 0 {
                            Some(vec![format!("f{k}.txt")])
                        } else {
                            None
                        },
                        checkpoint_id: None,
                    };
                    match store.append_tool_side_effects(&link, &run, eff) {
                        Ok(id) => {
                            self.ack(&id, op.name());
                            res.acked_ids.push(id);
                        }
                        Err(e) => {
                            res.err = Some(e);
                            return res;
                        }
                    }
                }
                if let Some(k) = ck {
                    let (provider, endpoint, model) = cursor_key(*k);
                    match verif_api::append_provider_cursor_updated(
                        store,
                        &t,
                        verif_api::ProviderCursorUpdate {
                            provider,
                            endpoint,
                            model,
                            cursor: Some(json!({"previous_response_id": format!("resp-{run}")})),
                            action: "set".into(),
                            reason: Some("run_completed".into()),
                            run_session_id: Some(run.clone()),
                            actor_id: who.clone(),
                            origin: origin.clone(),
                        },
                    ) {
                        Ok(id) => {
                            self.ack(&id, op.name());
                            res.acked_ids.push(id);
                        }
                        Err(e) => {
                            res.err = Some(e);
                            return res;
                        }
                    }
                }
                match store.append_run_ended(&t, &m, &run, "completed".into(), who, origin) {
                    Ok(id) => {
                        self.ack(&id, op.name());
res.acked_ids.push(id);
                        res.ok = res.err.is_none();
                    }
                    Err(e) => res.err = Some(e),
                }
            }
            Op::RunWithReply { thread, size, deltas, snapshot } => {
                let t = thread_or_skip!(*thread);
                let content = content_of(actor, index, *size);
                let m = match store.append_message(&t, who.clone(), origin.clone(), content) {
                    Ok(id) => id,
                    Err(e) => {
                        res.err = Some(e);
                        return res;
                    }
                };
                self.ack(&m, op.name());
                res.acked_ids.push(m.clone());
                self.reg.lock().unwrap().messages.entry(t.clone()).or_default().push(m.clone());
                let run = self.new_run_id(actor);
                match store.append_run_spawned(&t, &m, &run, who.clone(), origin.clone()) {
                    Ok(id) => {
                        self.ack(&id, op.name());
                        res.acked_ids.push(id);
                    }
                    Err(e) => {
                        res.err = Some(e);
                        return res;
                    }
                }
                self.reg.lock().unwrap().runs.entry(t.clone()).or_default().push((m.clone(), run.clone()));
                // the run's session stream, as run_session would log it
                let mut frames: Vec<rip_kernel::Event> = Vec::new();
                let mut seq = 0u64;
                let mut push = |kind: rip_kernel::EventKind, frames: &mut Vec<rip_kernel::Event>| {
                    frames.push(rip_kernel::Event { id: format!("{run}-f{seq}"), session_id: run.clone(), timestamp_ms: 1, seq, kind });
                    seq += 1;
                };
                push(rip_kernel::EventKind::SessionStarted { input: "x".into() }, &mut frames);
                for d in 0..*deltas {
                    push(rip_kernel::EventKind::OutputTextDelta { delta: format!("reply{d}-{} ", index % 7) }, &mut frames);
                    if d % 3 == 1 {
                        push(rip_kernel::EventKind::ToolStdout { tool_id: "t".into(), chunk: "noise".into() }, &mut frames);
                    }
                }
                push(rip_kernel::EventKind::SessionEnded { reason: "completed".into() }, &mut frames);
                for f in &frames {
                    if let Err(e) = st.log.append(f) {
                        res.err = Some(e.to_string());
                        return res;
                    }
                }
                match snapshot % 4 {
                    1 => {
                        let _ = rip_log::write_snapshot(self.dirs.snapshots_dir(), &run, &frames);
                    }
                    2 => {
                        let _ = std::fs::create_dir_all(self.dirs.snapshots_dir());
                        let _ = std::fs::write(self.dirs.snapshots_dir().join(format!("{run}.json")), b"[{\"broken\":");
                    }
                    3 => {
                        // a well-formed snapshot that belongs to another session
                        let other: Vec<rip_kernel::Event> = frames
                            .iter()
                            .map(|f| rip_kernel::Event { session_id: "someone-else".into(), ..f.clone() })
                            .collect();
                        let _ = rip_log::write_snapshot(self.dirs.snapshots_dir(), &run, &other);
                    }
                    _ => {}
                }
                match store.append_run_ended(&t, &m, &run, "completed".into(), who, origin) {
                    Ok(id) => {
                        self.ack(&id, op.name());
                        res.acked_ids.push(id);
                        res.ok = true;
                    }
                    Err(e) => res.err = Some(e),
                }
            }
            Op::Replay { thread } => {
                let t = thread_or_skip!(*thread);
                match store.replay_events(&t) {
                    Ok(ev) => {
                        res.ok = true;
                        res.response = Some(json!({"n": ev.len()}));
                    }
                    Err(e) => res.err = Some(e.to_string()),
                }
            }
            Op::CutPoints {
                thread,
                stride,
                limit,
            } => {
                let t = thread_or_skip!(*thread);
                match store.compaction_cut_points_v1(
                    &t,
                    CompactionCutPointsV1Request {
                        stride_messages: *stride,
                        limit: *limit,
                    },
                ) {
                    Ok(r) => {
                        res.ok = true;
                        res.response = serde_json::to_value(&r).ok();
                    }
                    Err(e) => res.err = Some(e),
                }
            }
            Op::CompactionStatus { thread, stride } => {
                let t = thread_or_skip!(*thread);
                match store.compaction_status_v1(
                    &t,
                    CompactionStatusV1Request {
                        stride_messages: *stride,
                    },
                ) {
                    Ok(r) => {
                        res.ok = true;
                        res.response = serde_json::to_value(&r).ok();
                    }
                    Err(e) => res.err = Some(e),
                }
            }
            Op::CursorStatus { thread } => {
                let t = thread_or_skip!(*thread);
                match store.provider_cursor_status_v1(&t, ProviderCursorStatusV1Request {}) {
                    Ok(r) => {
                        res.ok = true;
                        res.response = serde_json::to_value(&r).ok();
                    }
                    Err(e) => res.err = Some(e),
                }
            }
            Op::SelectionStatus { thread, limit } => {
                let t = thread_or_skip!(*thread);
                match store
                    .context_selection_status_v1(&t, ContextSelectionStatusV1Request { limit: *limit })
                {
                    Ok(r) => {
                        res.ok = true;
                        res.response = serde_json::to_value(&r).ok();
                    }
                    Err(e) => res.err = Some(e),
                }
            }
            Op::List => {
                let l = store.list();
                res.ok = true;
                res.response = Some(json!({"n": l.len()}));
            }
            Op::Get { thread } => {
                let t = thread_or_skip!(*thread);
                res.ok = store.get(&t).is_some();
            }
            Op::UnknownThread { which } => {
                let t = unknown_thread_id(*which);
                res.thread = Some(t.clone());
                let r: Result<(), String> = match which % 9 {
                    0 => store.append_message(&t, who, origin, "x".into()).map(|_| ()),
                    1 => store.replay_events(&t).map(|_| ()).map_err(|e| e.to_string()),
                    2 => store
                        .compaction_cut_points_v1(
                            &t,
                            CompactionCutPointsV1Request {
                                stride_messages: Some(2),
                                limit: Some(3),
                            },
                        )
                        .map(|_| ()),
                    3 => store
                        .compaction_status_v1(&t, CompactionStatusV1Request { stride_messages: Some(2) })
                        .map(|_| ()),
                    4 => store
                        .provider_cursor_status_v1(&t, ProviderCursorStatusV1Request {})
                        .map(|_| ()),
                    5 => store
                        .context_selection_status_v1(&t, ContextSelectionStatusV1Request { limit: None })
                        .map(|_| ()),
                    6 => store.branch(&t, None, None, None, who, origin).map(|_| ()),
                    7 => store
                        .compaction_auto_v1(
                            &t,
                            CompactionAutoV1Request {
                                stride_messages: Some(2),
                                max_new_checkpoints: None,
                                dry_run: None,
                                actor_id: who,
                                origin,
                            },
                        )
                        .map(|_| ()),
                    _ => store
                        .handoff(&t, None, (Some("s".into()), None), None, None, (who, origin))
                        .map(|_| ()),
                };
                match r {
                    Ok(()) => res.ok = true,
                    Err(e) => res.err = Some(e),
                }
            }
            Op::RawSession { frames } => {
                // A session-stream writer sharing the log: exercises cross-stream line atomicity.
                let sid = format!("raw-session-{actor}-{index}");
                for i in 0..*frames {
                    let kind = if i == 0 {
                        rip_kernel::EventKind::SessionStarted { input: "x".into() }
                    } else if i + 1 == *frames {
                        rip_kernel::EventKind::SessionEnded { reason: "completed".into() }
                    } else {
                        rip_kernel::EventKind::OutputTextDelta { delta: format!("d{i}") }
                    };
                    let ev = rip_kernel::Event {
                        id: format!("{sid}-{i}"),
                        session_id: sid.clone(),
                        timestamp_ms: 0,
                        seq: i as u64,
                        kind,
                    };
                    if let Err(e) = st.log.append(&ev) {
                        res.err = Some(e.to_string());
                        return res;
                    }
                    self.ack(&ev.id, op.name());
res.acked_ids.push(ev.id);
                }
                res.ok = true;
            }
        }
        res
    }

    /// Resolve a cut selector against the thread as the store currently replays it.
    fn resolve_sel(&self, store: &ContinuityStore, thread: &str, sel: &CutSel) -> (Option<String>, Option<u64>) {
        match sel {
            CutSel::None => (None, None),
            CutSel::SeqAbs(s) => (None, Some(*s)),
            CutSel::SeqFrac { num, den } => {
                let head = store
                    .replay_events(thread)
                    .ok()
                    .and_then(|e| e.last().map(|e| e.seq))
                    .unwrap_or(0);
                let den = (*den).max(1) as u64;
                (None, Some(head * (*num as u64) / den + if (*num as u64) > den { 1 } else { 0 }))
            }
            CutSel::Message(k) => (self.pick_message(thread, *k), None),
            CutSel::UnknownMessage => (Some("no-such-message".into()), None),
            CutSel::NonMessageFrame(k) => {
                let ev = store.replay_events(thread).unwrap_or_default();
                let non: Vec<&rip_kernel::Event> = ev
                    .iter()
                    .filter(|e| !matches!(e.kind, rip_kernel::EventKind::ContinuityMessageAppended { .. }))
                    .collect();
                if non.is_empty() {
                    (Some("no-such-message".into()), None)
                } else {
                    (Some(non[*k as usize % non.len()].id.clone()), None)
                }
            }
            CutSel::Both => (self.pick_message(thread, 0).or(Some("x".into())), Some(0)),
        }
    }

    fn resolve_summary(
        &self,
        _store: &ContinuityStore,
        _thread: &str,
        sel: &SummarySel,
        _to_seq: Option<u64>,
        actor: usize,
        index: usize,
    ) -> (Option<String>, Option<String>) {
        match sel {
            SummarySel::Text | SummarySel::Both => (Some(format!("manual summary {actor}/{index}")), None),
            SummarySel::Neither => (None, None),
            SummarySel::Artifact | SummarySel::UnreadableArtifact => {
                (None, Some("f".repeat(64)))
            }
        }
    }

    fn resolve_handoff_summary(&self, sel: &SummarySel, actor: usize, index: usize) -> (Option<String>, Option<String>) {
        match sel {
            SummarySel::Text => (Some(format!("handoff summary {actor}/{index}")), None),
            SummarySel::Neither => (None, None),
            SummarySel::Artifact => {
                // write a blob the harness owns
                let id = format!("{:064x}", (actor as u128) << 64 | index as u128 | 1u128 << 100);
                let dir = self.dirs.blobs_dir();
                let _ = std::fs::create_dir_all(&dir);
                let _ = std::fs::write(dir.join(&id), b"{\"schema\":\"x\"}");
                (None, Some(id))
            }
            // ids that do not resolve to a readable blob: never written, empty, and ones that
            // resolve to a directory once the blob store exists
            SummarySel::UnreadableArtifact => (None, Some(match index % 5 {
                0 => "e".repeat(64),
                1 => String::new(),
                2 => ".".to_string(),
                3 => "../blobs".to_string(),
                _ => "..".to_string(),
            })),
            SummarySel::Both => (Some(format!("handoff summary {actor}/{index}")), Some("d".repeat(64))),
        }
    }
}

pub fn cursor_key(k: u32) -> (String, Option<String>, Option<String>) {
    let provider = ["openresponses", "other"][(k % 2) as usize].to_string();
    let endpoint = [None, Some("http://a/v1"), Some("http://b/v1")][((k / 2) % 3) as usize].map(|s| s.to_string());
    let model = [None, Some("m1"), Some("m2")][((k / 6) % 3) as usize].map(|s| s.to_string());
    (provider, endpoint, model)
}

/// Deterministic message content; `size` selects a size class so frames can cross the 8 KiB
/// writer buffer.
pub fn content_of(actor: usize, index: usize, size: u32) -> String {
    let base = format!("msg a{actor} i{index} alpha beta gamma delta ");
    let target = match size {
        0 => 0,
        1 => 40,
        2 => 300,
        3 => 2_000,
        4 => 9_000,
        5 => 20_000,
        n => n as usize,
    };
    let mut s = base.clone();
    let mut k = 0;
    // every third message carries multi-byte text (2-, 3- and 4-byte characters at shifting
    // offsets), so that byte-oriented readers of the log and the caches meet characters across
    // their buffer boundaries
    let wide = index % 3 == 1;
    while s.len() < target {
        if wide && k % 2 == 0 {
            s.push_str(&format!("wörd{}日本🙂 ", (k * 7 + index) % 97));
        } else {
            s.push_str(&format!("word{} ", (k * 7 + index) % 97));
        }
        k += 1;
    }
    s
}

pub fn gen_cutsel(rng: &mut Rng) -> CutSel {
    match rng.below(12) {
        0..=2 => CutSel::None,
        3 | 4 => CutSel::SeqFrac {
            num: rng.below(5) as u32,
            den: 4,
        },
        5 => CutSel::SeqAbs(rng.pick(&[0u64, 1, 2, u64::MAX, 1 << 40]).to_owned()),
        6..=8 => CutSel::Message(rng.below(64) as u32),
        9 => CutSel::UnknownMessage,
        10 => CutSel::NonMessageFrame(rng.below(64) as u32),
        _ => CutSel::Both,
    }
}

/// Weighted operation generator for mixed concurrent workloads.
pub fn gen_op(rng: &mut Rng, allow_big: bool) -> Op {
    let thread = rng.below(6) as u32;
    let stride = || -> Option<u64> { None };
    let _ = stride;
    match rng.below(100) {
        0..=21 => Op::AppendMessage {
            thread,
            size: if allow_big && rng.chance(1, 12) { rng.range(4, 5) as u32 } else { rng.range(0, 3) as u32 },
        },
        22..=31 => Op::FullRun {
            thread,
            size: rng.range(1, 3) as u32,
            effects: rng.below(3) as u32,
            cursor_key: if rng.chance(1, 2) { Some(rng.below(18) as u32) } else { None },
        },
        32..=36 => Op::RunSpawned { thread, msg: rng.below(64) as u32 },
        37..=40 => Op::RunEnded { thread, msg: rng.below(64) as u32 },
        41..=44 => Op::ToolSideEffects { thread, msg: rng.below(64) as u32, paths: rng.below(4) as u32 },
        45..=48 => Op::CompileForRun { thread, msg: rng.below(64) as u32 },
        49..=52 => Op::CursorUpdated { thread, key: rng.below(18) as u32 },
        53..=55 => Op::CursorRotate { thread, filter: rng.below(144) as u32 },
        56..=59 => Op::ManualCheckpoint {
            thread,
            sel: match rng.below(6) {
                0 => CutSel::None,
                1..=3 => CutSel::Message(rng.below(64) as u32),
                4 => CutSel::SeqFrac { num: rng.below(5) as u32, den: 4 },
                _ => gen_cutsel(rng),
            },
            stride: gen_stride(rng),
            summary: if rng.chance(9, 10) { SummarySel::Text } else { SummarySel::Neither },
        },
        60..=65 => Op::CompactionAuto {
            thread,
            stride: gen_stride(rng),
            max_new: gen_small(rng),
            dry_run: gen_bool(rng),
        },
        66..=71 => Op::CompactionSchedule {
            thread,
            stride: gen_stride(rng),
            max_new: gen_small(rng),
            block: gen_bool(rng),
            execute: gen_bool(rng),
            dry_run: gen_bool(rng),
        },
        72..=77 => Op::Branch { thread, sel: gen_cutsel(rng) },
        78..=82 => Op::Handoff {
            thread,
            sel: gen_cutsel(rng),
            summary: match rng.below(8) {
                0..=4 => SummarySel::Text,
                5 => SummarySel::Artifact,
                6 => SummarySel::Neither,
                _ => SummarySel::Both,
            },
        },
        83 => Op::EnsureDefault,
        84..=86 => Op::Replay { thread },
        87..=89 => Op::CutPoints { thread, stride: gen_stride(rng), limit: gen_small(rng) },
        90 | 91 => Op::CompactionStatus { thread, stride: gen_stride(rng) },
        92 | 93 => Op::CursorStatus { thread },
        94 | 95 => Op::SelectionStatus { thread, limit: gen_small(rng) },
        96 => Op::List,
        97 => Op::Get { thread },
        98 => Op::UnknownThread { which: rng.below(UNKNOWN_THREAD_SPACE) as u32 },
        _ => Op::RawSession { frames: rng.range(2, 5) as u32 },
    }
}

pub fn gen_stride(rng: &mut Rng) -> Option<u64> {
    match rng.below(12) {
        0 => None,
        1 => Some(0),
        2 | 3 => Some(1),
        4..=6 => Some(2),
        7 | 8 => Some(3),
        9 => Some(5),
        10 => Some(1000),
        _ => Some(u64::MAX),
    }
}
pub fn gen_small(rng: &mut Rng) -> Option<u32> {
    match rng.below(8) {
        0 => None,
        1 => Some(0),
        2 | 3 => Some(1),
        4 => Some(2),
        5 => Some(3),
        6 => Some(40),
        _ => Some(u32::MAX),
    }
}
pub fn gen_bool(rng: &mut Rng) -> Option<bool> {
    match rng.below(3) {
        0 => None,
        1 => Some(true),
        _ => Some(false),
    }
}
