//! ThreadTruth: executable reference model of every read capability over a continuity, computed
//! from the parsed truth log alone. Written from docs/03_contracts and ADR-0009/0010/0011/0013/
//! 0016/0018, not from the implementation. Response shapes mirror the public response structs so
//! they can be compared as JSON.

use std::collections::BTreeMap;

use serde_json::{json, Value};

use crate::model::{Frame, Truth};

pub const RECENT_MESSAGES_LIMIT: usize = 16;
pub const MAX_SUMMARY_REFS: usize = 3;
pub const CUMULATIVE: &str = "cumulative_v1";
pub const SUMMARIZER_JOB: &str = "compaction_summarizer_v1";

pub struct ThreadView<'a> {
    pub id: String,
    pub frames: Vec<&'a Frame>,
    pub truth: &'a Truth,
}

#[derive(Clone, Debug, PartialEq)]
pub struct Ckpt {
    pub event_seq: u64,
    pub checkpoint_id: String,
    pub summary_kind: String,
    pub summary_artifact_id: String,
    pub to_seq: u64,
    pub to_message_id: Option<String>,
    pub cut_rule_id: String,
}

impl<'a> ThreadView<'a> {
    pub fn new(truth: &'a Truth, id: &str) -> ThreadView<'a> {
        ThreadView {
            id: id.to_string(),
            frames: truth.thread(id),
            truth,
        }
    }

    /// Restrict to the prefix with seq <= head (a view of the thread "as it was").
    pub fn prefix(&self, head: u64) -> ThreadView<'a> {
        ThreadView {
            id: self.id.clone(),
            frames: self.frames.iter().copied().filter(|f| f.seq <= head).collect(),
            truth: self.truth,
        }
    }

    pub fn exists(&self) -> bool {
        !self.frames.is_empty()
    }
    pub fn head_seq(&self) -> u64 {
        self.frames.last().map(|f| f.seq).unwrap_or(0)
    }
    pub fn messages(&self) -> Vec<&'a Frame> {
        self.frames.iter().copied().filter(|f| f.is_message()).collect()
    }
    pub fn checkpoints(&self) -> Vec<Ckpt> {
        self.frames
            .iter()
            .filter(|f| f.ty == "continuity_compaction_checkpoint_created")
            .map(|f| Ckpt {
                event_seq: f.seq,
                checkpoint_id: f.s("checkpoint_id").unwrap_or("").to_string(),
                summary_kind: f.s("summary_kind").unwrap_or("").to_string(),
                summary_artifact_id: f.s("summary_artifact_id").unwrap_or("").to_string(),
                to_seq: f.u("to_seq").unwrap_or(0),
                to_message_id: f.s("to_message_id").map(|s| s.to_string()),
                cut_rule_id: f.s("cut_rule_id").unwrap_or("").to_string(),
            })
            .collect()
    }

    /// Latest checkpoint (by stream order) for exactly this to_seq.
    pub fn checkpoint_for(&self, to_seq: u64) -> Option<Ckpt> {
        self.checkpoints().into_iter().filter(|c| c.to_seq == to_seq).last()
    }

    // ---------------------------------------------------------------- compaction cut points (C09)

    /// `compaction.cut_points`: the k*stride-th messages, latest first, at most `limit` (1..=32).
    pub fn cut_points(&self, stride: Option<u64>, limit: Option<u32>) -> Result<Value, String> {
        let stride = stride.unwrap_or(10_000);
        if stride == 0 {
            return Err("invalid_stride".into());
        }
        if !self.exists() {
            return Err("thread_not_found".into());
        }
        let limit = limit.unwrap_or(1).clamp(1, 32) as u64;
        let msgs = self.messages();
        let count = msgs.len() as u64;
        let mut cps = Vec::new();
        let mut ordinal = (count / stride) * stride;
        let mut n = 0;
        while ordinal > 0 && n < limit {
            let m = msgs[(ordinal - 1) as usize];
            let ck = self.checkpoint_for(m.seq);
            cps.push(json!({
                "target_message_ordinal": ordinal,
                "to_seq": m.seq,
                "to_message_id": m.id,
                "already_checkpointed": ck.is_some(),
                "latest_checkpoint_id": ck.map(|c| c.checkpoint_id),
            }));
            n += 1;
            if ordinal < stride {
                break;
            }
            ordinal -= stride;
        }
        Ok(json!({
            "thread_id": self.id,
            "stride_messages": stride,
            "message_count": count,
            "cut_rule_id": format!("stride_messages_v1/{stride}"),
            "cut_points": cps,
        }))
    }

    /// The most recent checkpoint overall: greatest to_seq, ties broken by stream order.
    pub fn latest_checkpoint(&self, max_to_seq: u64) -> Option<Ckpt> {
        let mut best: Option<Ckpt> = None;
        for c in self.checkpoints() {
            if c.to_seq > max_to_seq {
                continue;
            }
            best = match best {
                None => Some(c),
                Some(b) => {
                    if c.to_seq > b.to_seq || (c.to_seq == b.to_seq && c.event_seq > b.event_seq) {
                        Some(c)
                    } else {
                        Some(b)
                    }
                }
            };
        }
        best
    }

    /// `compaction.status` fields that are functions of truth (inflight is documented best-effort
    /// over a bounded tail and is modelled separately).
    pub fn compaction_status(&self, stride: Option<u64>) -> Result<Value, String> {
        let stride_v = stride.unwrap_or(10_000);
        if stride_v == 0 {
            return Err("invalid_stride".into());
        }
        let cps = self.cut_points(Some(stride_v), Some(32))?;
        let next = cps["cut_points"]
            .as_array()
            .unwrap()
            .iter()
            .find(|c| c["already_checkpointed"] == json!(false))
            .map(|c| {
                json!({
                    "target_message_ordinal": c["target_message_ordinal"],
                    "to_seq": c["to_seq"],
                    "to_message_id": c["to_message_id"],
                })
            });
        let latest = self.latest_checkpoint(u64::MAX).map(|c| {
            json!({
                "checkpoint_id": c.checkpoint_id,
                "cut_rule_id": c.cut_rule_id,
                "summary_kind": c.summary_kind,
                "summary_artifact_id": c.summary_artifact_id,
                "to_seq": c.to_seq,
                "to_message_id": c.to_message_id,
            })
        });
        let last_decision = self
            .frames
            .iter()
            .rev()
            .find(|f| f.ty == "continuity_compaction_auto_schedule_decided")
            .map(|f| {
                json!({
                    "decision_id": f.v["decision_id"],
                    "policy_id": f.v["policy_id"],
                    "decision": f.v["decision"],
                    "execute": f.v["execute"],
                    "stride_messages": f.v["stride_messages"],
                    "max_new_checkpoints": f.v["max_new_checkpoints"],
                    "block_on_inflight": f.v["block_on_inflight"],
                    "message_count": f.v["message_count"],
                    "cut_rule_id": f.v["cut_rule_id"],
                    "planned": f.v["planned"],
                    "job_id": f.v.get("job_id").cloned().unwrap_or(Value::Null),
                    "job_kind": f.v.get("job_kind").cloned().unwrap_or(Value::Null),
                    "actor_id": f.v["actor_id"],
                    "origin": f.v["origin"],
                    "seq": f.seq,
                    "timestamp_ms": f.ts,
                })
            });
        let last_job = self
            .frames
            .iter()
            .rev()
            .find(|f| f.ty == "continuity_job_ended" && f.s("job_kind") == Some(SUMMARIZER_JOB))
            .map(|f| {
                let created = f
                    .v
                    .get("result")
                    .and_then(|r| r.get("created"))
                    .cloned()
                    .unwrap_or(json!([]));
                json!({
                    "job_id": f.v["job_id"],
                    "job_kind": f.v["job_kind"],
                    "status": f.v["status"],
                    "error": f.v.get("error").cloned().unwrap_or(Value::Null),
                    "created": created,
                    "actor_id": f.v["actor_id"],
                    "origin": f.v["origin"],
                    "seq": f.seq,
                    "timestamp_ms": f.ts,
                })
            });
        Ok(json!({
            "thread_id": self.id,
            "stride_messages": stride_v,
            "message_count": cps["message_count"],
            "latest_checkpoint": latest,
            "next_cut_point": next,
            "last_schedule_decision": last_decision,
            "last_job_outcome": last_job,
        }))
    }

    /// Summarizer jobs spawned and not ended, in stream order.
    pub fn inflight_jobs(&self) -> Vec<String> {
        let mut open: Vec<String> = Vec::new();
        for f in &self.frames {
            if f.s("job_kind") != Some(SUMMARIZER_JOB) {
                continue;
            }
            let id = f.s("job_id").unwrap_or("").to_string();
            if f.ty == "continuity_job_spawned" {
                open.push(id);
            } else if f.ty == "continuity_job_ended" {
                open.retain(|j| *j != id);
            }
        }
        open
    }

    // ---------------------------------------------------------------- provider cursor (ADR-0015)

    fn cursor_row(f: &Frame) -> Value {
        json!({
            "cursor_event_id": f.id,
            "provider": f.v["provider"],
            "endpoint": f.v.get("endpoint").cloned().unwrap_or(Value::Null),
            "model": f.v.get("model").cloned().unwrap_or(Value::Null),
            "cursor": f.v.get("cursor").cloned().unwrap_or(Value::Null),
            "action": f.v["action"],
            "reason": f.v.get("reason").cloned().unwrap_or(Value::Null),
            "run_session_id": f.v.get("run_session_id").cloned().unwrap_or(Value::Null),
            "actor_id": f.v["actor_id"],
            "origin": f.v["origin"],
            "seq": f.seq,
            "timestamp_ms": f.ts,
        })
    }

    pub fn cursor_frames(&self) -> Vec<&'a Frame> {
        self.frames
            .iter()
            .copied()
            .filter(|f| f.ty == "continuity_provider_cursor_updated")
            .collect()
    }

    /// active = the most recent cursor frame; cursors = most recent frame per
    /// (provider, endpoint, model), ordered by that key.
    pub fn cursor_status(&self) -> Value {
        let cf = self.cursor_frames();
        let active = cf.last().map(|f| Self::cursor_row(f));
        let mut by_key: BTreeMap<(String, String, String), &Frame> = BTreeMap::new();
        for f in &cf {
            let key = (
                f.s("provider").unwrap_or("").to_string(),
                f.s("endpoint").unwrap_or("").to_string(),
                f.s("model").unwrap_or("").to_string(),
            );
            by_key.insert(key, f);
        }
        let cursors: Vec<Value> = by_key.values().map(|f| Self::cursor_row(f)).collect();
        json!({"thread_id": self.id, "active": active, "cursors": cursors})
    }

    /// Rotation target: key of the most recent cursor frame matching the filter.
    pub fn rotate_target(&self, provider: Option<&str>, endpoint: Option<&str>, model: Option<&str>) -> Option<(String, Option<String>, Option<String>)> {
        self.cursor_frames()
            .into_iter()
            .rev()
            .find(|f| {
                provider.map(|p| f.s("provider") == Some(p)).unwrap_or(true)
                    && endpoint.map(|e| f.s("endpoint") == Some(e)).unwrap_or(true)
                    && model.map(|m| f.s("model") == Some(m)).unwrap_or(true)
            })
            .map(|f| {
                (
                    f.s("provider").unwrap_or("").to_string(),
                    f.s("endpoint").map(|s| s.to_string()),
                    f.s("model").map(|s| s.to_string()),
                )
            })
    }

    // ---------------------------------------------------------------- context selection status

    /// The most recent `limit` decisions (default 10, at most 50), latest first.
    pub fn selection_status(&self, limit: Option<u32>) -> Value {
        let limit = (limit.unwrap_or(10) as usize).min(50);
        let decisions: Vec<Value> = self
            .frames
            .iter()
            .rev()
            .filter(|f| f.ty == "continuity_context_selection_decided")
            .take(limit)
            .map(|f| {
                let mut o = json!({
                    "decision_event_id": f.id,
                    "run_session_id": f.v["run_session_id"],
                    "message_id": f.v["message_id"],
                    "compiler_id": f.v["compiler_id"],
                    "compiler_strategy": f.v["compiler_strategy"],
                    "limits": f.v["limits"],
                    "compaction_checkpoint": f.v.get("compaction_checkpoint").cloned().unwrap_or(Value::Null),
                    "resets": f.v.get("resets").cloned().unwrap_or(json!([])),
                    "reason": f.v.get("reason").cloned().unwrap_or(Value::Null),
                    "actor_id": f.v["actor_id"],
                    "origin": f.v["origin"],
                    "seq": f.seq,
                    "timestamp_ms": f.ts,
                });
                if let Some(c) = f.v.get("compaction_checkpoints") {
                    if c.as_array().map(|a| !a.is_empty()).unwrap_or(false) {
                        o["compaction_checkpoints"] = c.clone();
                    }
                }
                o
            })
            .collect();
        json!({"thread_id": self.id, "decisions": decisions})
    }

    // ---------------------------------------------------------------- context compile (C08)

    /// Cut point for a run triggered by `anchor`: the last frame before the next message after
    /// the anchor, or the head; never before the anchor itself.
    pub fn compile_cut(&self, anchor: &str) -> Option<u64> {
        let msgs = self.messages();
        let idx = msgs.iter().position(|m| m.id == anchor)?;
        let anchor_seq = msgs[idx].seq;
        let cut = match msgs.get(idx + 1) {
            Some(next) => next.seq.saturating_sub(1),
            None => self.head_seq(),
        };
        Some(cut.max(anchor_seq))
    }

    /// ADR-0018 hierarchy: eligible = cumulative checkpoints with to_seq <= from_seq, one per
    /// to_seq (latest by stream order); take the greatest, then repeatedly the greatest with
    /// to_seq <= floor(prev/2), at most MAX_SUMMARY_REFS; ascending.
    pub fn hierarchy(&self, from_seq: u64) -> Vec<Ckpt> {
        let mut uniq: BTreeMap<u64, Ckpt> = BTreeMap::new();
        for c in self.checkpoints() {
            if c.to_seq <= from_seq && c.summary_kind == CUMULATIVE {
                uniq.insert(c.to_seq, c); // later frames overwrite earlier ones
            }
        }
        let mut sel: Vec<Ckpt> = Vec::new();
        let Some((_, latest)) = uniq.iter().next_back() else {
            return sel;
        };
        sel.push(latest.clone());
        let mut cur = latest.to_seq;
        while sel.len() < MAX_SUMMARY_REFS {
            let th = cur / 2;
            if th == 0 {
                break;
            }
            let Some((_, c)) = uniq.range(..=th).next_back() else {
                break;
            };
            sel.push(c.clone());
            cur = c.to_seq;
        }
        sel.sort_by_key(|c| c.to_seq);
        sel
    }

    pub fn strategy(levels: usize) -> &'static str {
        match levels {
            0 => "recent_messages_v1",
            1 => "summaries_recent_messages_v1",
            _ => "hierarchical_summaries_recent_messages_v1",
        }
    }

    /// Reply text of the run that answered `message_id` at or before `cut`: concatenated
    /// output-text deltas of that run's session stream in truth.
    pub fn reply_text(&self, message_id: &str, cut: u64) -> Option<String> {
        let run = self
            .frames
            .iter()
            .filter(|f| f.ty == "continuity_run_ended" && f.seq <= cut && f.s("message_id") == Some(message_id))
            .last()?;
        let sid = run.s("run_session_id")?;
        let mut out = String::new();
        for f in self.truth.stream("session", sid) {
            if f.ty == "output_text_delta" {
                out.push_str(f.s("delta").unwrap_or(""));
            }
        }
        Some(out)
    }

    /// Expected bundle items (summary refs by artifact id, messages oldest first with replies).
    pub fn bundle_items(&self, anchor: &str) -> Option<(u64, Vec<Ckpt>, Vec<Value>)> {
        let cut = self.compile_cut(anchor)?;
        let hier = self.hierarchy(cut);
        let after = hier.last().map(|c| c.to_seq);
        let msgs: Vec<&Frame> = self
            .messages()
            .into_iter()
            .filter(|m| m.seq <= cut && after.map(|a| m.seq > a).unwrap_or(true))
            .collect();
        let start = msgs.len().saturating_sub(RECENT_MESSAGES_LIMIT);
        let mut items: Vec<Value> = Vec::new();
        for c in &hier {
            items.push(json!({"type": "summary_ref", "artifact_id": c.summary_artifact_id}));
        }
        for m in &msgs[start..] {
            items.push(json!({
                "type": "message", "role": "user", "content": m.v["content"],
                "actor_id": m.v["actor_id"], "origin": m.v["origin"],
                "thread_seq": m.seq, "thread_event_id": m.id,
            }));
            if let Some(text) = self.reply_text(&m.id, cut) {
                if !text.is_empty() {
                    items.push(json!({"type": "message", "role": "assistant", "content": text}));
                }
            }
        }
        Some((cut, hier, items))
    }

    // ---------------------------------------------------------------- branch / handoff cut (C10)

    /// Expected (cut seq, message id) for a branch/handoff selector; Err = must be refused.
    pub fn lineage_cut(&self, from_message_id: Option<&str>, from_seq: Option<u64>) -> Result<(u64, Option<String>), String> {
        if from_message_id.is_some() && from_seq.is_some() {
            return Err("conflicting selectors".into());
        }
        if !self.exists() {
            return Err("no such thread".into());
        }
        let head = self.head_seq();
        if let Some(s) = from_seq {
            if s > head {
                return Err("from_seq out of range".into());
            }
            let m = self.messages().into_iter().filter(|m| m.seq <= s).last().map(|m| m.id.clone());
            return Ok((s, m));
        }
        if let Some(mid) = from_message_id {
            let msg = self.messages().into_iter().find(|m| m.id == mid).ok_or("unknown message")?;
            let mut cut = msg.seq;
            for f in &self.frames {
                if (f.ty == "continuity_run_spawned" || f.ty == "continuity_run_ended") && f.s("message_id") == Some(mid) {
                    cut = cut.max(f.seq);
                }
            }
            return Ok((cut, Some(mid.to_string())));
        }
        let m = self.messages().into_iter().last().map(|m| m.id.clone());
        Ok((head, m))
    }
}
