//! Baton scheduler for synchronous actors.
//!
//! Actors are real OS threads; exactly one holds the baton. An actor gives it back to the
//! controller (the thread that called `Sim::run`) at every reported file-system effect (from the
//! libc seam, *before* the effect is applied), at every shim-mutex operation (through the hooks in
//! `rip_kernel::verif`), at named yield points, and when it starts and ends. The controller then
//! evaluates observers (invariants, crash snapshots, fault decisions) and picks the next runnable
//! actor from the schedule stream (or from a recorded decision vector on replay).

use std::panic::{catch_unwind, AssertUnwindSafe};
use std::sync::{Arc, Condvar, Mutex};
use std::time::Duration;

use crate::prng::Rng;
use crate::seam::{self, Decision, Effect};

#[derive(Clone, Debug)]
pub enum Point {
    Start,
    End,
    Fs(Effect),
    LockBefore(usize),
    LockBlocked(usize),
    Yield(&'static str),
    Tick(&'static str),
}

impl Point {
    pub fn class(&self) -> String {
        match self {
            Point::Start => "start".into(),
            Point::End => "end".into(),
            Point::Fs(e) => format!("{:?}:{}", e.kind, file_class(&e.path)),
            Point::LockBefore(_) => "lock".into(),
            Point::LockBlocked(_) => "blocked".into(),
            Point::Yield(n) => format!("yield:{n}"),
            Point::Tick(n) => format!("tick:{n}"),
        }
    }
}

/// Abstract a path to a file class (ids removed) for interleaving hashes and statistics.
pub fn file_class(path: &str) -> String {
    let name = path.rsplit('/').next().unwrap_or(path);
    if name == "events.jsonl" {
        return "truth".into();
    }
    if path.contains("/continuity_streams/") {
        // <uuid>.<suffix>
        let suffix = name.split_once('.').map(|(_, s)| s).unwrap_or("");
        return format!("cs:{suffix}");
    }
    if path.contains("/continuities/") {
        return format!("idx:{name}");
    }
    if path.contains("/snapshots/") {
        return "snapshot".into();
    }
    if path.contains("/artifacts/") {
        if name.ends_with(".tmp") || name.contains(".tmp") {
            return "artifact.tmp".into();
        }
        return "artifact".into();
    }
    if path.contains("/authority/") {
        if name.starts_with("lock.json.stale") || name.contains("stale") {
            return "auth:tombstone".into();
        }
        return format!("auth:{name}");
    }
    if path.contains("/.rip/checkpoints/") {
        return "ckpt".into();
    }
    "other".into()
}

#[derive(Clone, Copy, Debug, PartialEq, Eq)]
enum Status {
    NotStarted,
    Runnable,
    Blocked(usize),
    Finished,
}

struct ActorSlot {
    name: String,
    status: Status,
    pending: Option<Point>,
    decision: Decision,
    panic: Option<String>,
    /// Lock attempts minus releases (an attempt in progress counts as one).
    held: i64,
}

struct State {
    /// Actor currently allowed to run; None = controller's turn.
    current: Option<usize>,
    actors: Vec<ActorSlot>,
    /// Set when the run is being torn down: actors should stop yielding.
    detached: bool,
}

struct Shared {
    m: Mutex<State>,
    cv: Condvar,
}

static ACTIVE: Mutex<Option<Arc<Shared>>> = Mutex::new(None);

fn active() -> Option<Arc<Shared>> {
    ACTIVE.lock().unwrap().clone()
}

/// Called on an actor thread: hand the baton to the controller with a pending point and wait to
/// be scheduled again. Returns the controller's decision for the point.
fn yield_to_controller(point: Point) -> Decision {
    let id = seam::actor();
    if id < 0 {
        return Decision::Proceed;
    }
    let Some(shared) = active() else {
        return Decision::Proceed;
    };
    let id = id as usize;
    let mut st = shared.m.lock().unwrap();
    if st.detached || id >= st.actors.len() {
        return Decision::Proceed;
    }
    if let Point::LockBlocked(addr) = &point {
        st.actors[id].status = Status::Blocked(*addr);
    }
    if let Point::LockBefore(_) = &point {
        st.actors[id].held += 1;
    }
    if matches!(point, Point::End) {
        st.actors[id].status = Status::Finished;
    }
    st.actors[id].pending = Some(point);
    st.actors[id].decision = Decision::Proceed;
    st.current = None;
    shared.cv.notify_all();
    if st.actors[id].status == Status::Finished {
        return Decision::Proceed;
    }
    while st.current != Some(id) && !st.detached {
        st = shared.cv.wait(st).unwrap();
    }
    st.actors[id].decision
}

fn effect_handler(_actor: i32, effect: &Effect) -> Decision {
    yield_to_controller(Point::Fs(effect.clone()))
}

// hooks installed into rip_kernel::verif
fn hook_yield_point(name: &'static str) {
    yield_to_controller(Point::Yield(name));
}
fn hook_before_lock(addr: usize) {
    if YIELD_ON_LOCKS.load(std::sync::atomic::Ordering::Relaxed) {
        yield_to_controller(Point::LockBefore(addr));
    } else if let (true, Some(shared)) = (seam::actor() >= 0, active()) {
        let mut st = shared.m.lock().unwrap();
        let id = seam::actor() as usize;
        if id < st.actors.len() {
            st.actors[id].held += 1;
        }
    }
}
static YIELD_ON_LOCKS: std::sync::atomic::AtomicBool = std::sync::atomic::AtomicBool::new(true);
fn hook_lock_blocked(addr: usize) {
    if seam::actor() < 0 || active().is_none() {
        std::thread::yield_now();
        return;
    }
    yield_to_controller(Point::LockBlocked(addr));
}
fn hook_lock_released(addr: usize) {
    if let Some(shared) = active() {
        let mut st = shared.m.lock().unwrap();
        for a in st.actors.iter_mut() {
            if a.status == Status::Blocked(addr) {
                a.status = Status::Runnable;
            }
        }
        let id = seam::actor();
        if id >= 0 && (id as usize) < st.actors.len() {
            st.actors[id as usize].held -= 1;
        }
    }
}
fn hook_tick(name: &'static str) {
    TICKS.with(|t| t.set(t.get() + 1));
    let limit = TICK_LIMIT.load(std::sync::atomic::Ordering::Relaxed);
    if limit > 0 && TICKS.with(|t| t.get()) > limit {
        // Unwind out of a loop that exceeded its deterministic iteration budget.
        std::panic::panic_any(TickBudgetExceeded(name));
    }
}
fn hook_async_yields(_name: &'static str) -> u32 {
    0
}

pub struct TickBudgetExceeded(pub &'static str);

thread_local! {
    static TICKS: std::cell::Cell<u64> = const { std::cell::Cell::new(0) };
}
static TICK_LIMIT: std::sync::atomic::AtomicU64 = std::sync::atomic::AtomicU64::new(0);

pub fn ticks_reset(limit: u64) {
    TICKS.with(|t| t.set(0));
    TICK_LIMIT.store(limit, std::sync::atomic::Ordering::Relaxed);
}
pub fn ticks_used() -> u64 {
    TICKS.with(|t| t.get())
}

pub static SYNC_HOOKS: rip_kernel::verif::Hooks = rip_kernel::verif::Hooks {
    yield_point: hook_yield_point,
    before_lock: hook_before_lock,
    lock_blocked: hook_lock_blocked,
    lock_released: hook_lock_released,
    tick: hook_tick,
    async_yields: hook_async_yields,
};

// ---------------------------------------------------------------------------------------------

#[derive(Clone, Debug, serde::Serialize, serde::Deserialize, PartialEq)]
pub enum Policy {
    /// Uniform random among runnable actors at every point.
    Uniform,
    /// Keep running the current actor with probability `stay_num/stay_den`.
    Sticky { stay_num: u64, stay_den: u64 },
    /// Run the current actor until it blocks or ends, except at `preempt_at` step indices
    /// (PCT-style bounded preemption).
    Bounded { preempt_at: Vec<u64> },
    /// Never preempt: run each actor to completion / until blocked, lowest id first.
    Sequential,
}

#[derive(Clone, Debug)]
pub struct SimConfig {
    pub sched_seed: u64,
    pub policy: Policy,
    /// Recorded decisions (actor ids) to replay instead of drawing from the PRNG.
    pub replay: Option<Vec<u32>>,
    pub max_steps: u64,
    pub watchdog: Duration,
    /// Treat non-mutating opens as scheduling points.
    pub yield_on_reads: bool,
    /// Treat uncontended lock acquisitions as scheduling points.
    pub yield_on_locks: bool,
    /// Fairness bound: a runnable actor is never passed over for more than this many steps
    /// (0 = unbounded). Models "no live node stalls longer than ...".
    pub max_starvation: u64,
}

impl Default for SimConfig {
    fn default() -> Self {
        SimConfig {
            sched_seed: 1,
            policy: Policy::Uniform,
            replay: None,
            max_steps: 200_000,
            watchdog: Duration::from_secs(30),
            yield_on_reads: true,
            yield_on_locks: true,
            max_starvation: 0,
        }
    }
}

#[derive(Clone, Debug)]
pub struct Event {
    pub step: u64,
    pub actor: usize,
    pub point: Point,
}

#[derive(Debug, Default)]
pub struct RunReport {
    pub steps: u64,
    pub context_switches: u64,
    pub decisions: Vec<u32>,
    pub deadlock: bool,
    pub step_budget_exhausted: bool,
    pub watchdog_fired: bool,
    pub replay_diverged: bool,
    pub panics: Vec<(String, String)>,
    pub trace_hash: u64,
    pub preempted_in_lock: u64,
    pub blocked_events: u64,
    pub fs_effects: u64,
}

pub type ActorFn = Box<dyn FnOnce() + Send + 'static>;

pub struct Sim {
    cfg: SimConfig,
    actors: Vec<(String, ActorFn)>,
}

/// What the observer tells the controller to do with the pending point.
pub struct Verdict {
    pub decision: Decision,
    /// Stop the run now (e.g. a crash point was reached and the rest is irrelevant).
    pub stop: bool,
}

impl Verdict {
    pub fn proceed() -> Self {
        Verdict {
            decision: Decision::Proceed,
            stop: false,
        }
    }
}

impl Sim {
    pub fn new(cfg: SimConfig) -> Self {
        Sim {
            cfg,
            actors: Vec::new(),
        }
    }

    pub fn actor(&mut self, name: &str, f: impl FnOnce() + Send + 'static) -> usize {
        self.actors.push((name.to_string(), Box::new(f)));
        self.actors.len() - 1
    }

    /// Run all actors to completion under the scheduler. `observer` is called on the controller
    /// thread for every point, in the global order, before the point's effect is applied.
    pub fn run(self, mut observer: impl FnMut(&Event) -> Verdict) -> RunReport {
        let n = self.actors.len();
        let shared = Arc::new(Shared {
            m: Mutex::new(State {
                current: None,
                actors: self
                    .actors
                    .iter()
                    .map(|(name, _)| ActorSlot {
                        name: name.clone(),
                        status: Status::NotStarted,
                        pending: None,
                        decision: Decision::Proceed,
                        panic: None,
                        held: 0,
                    })
                    .collect(),
                detached: false,
            }),
            cv: Condvar::new(),
        });
        *ACTIVE.lock().unwrap() = Some(shared.clone());
        seam::set_effect_handler(Some(effect_handler));
        seam::set_report_reads(self.cfg.yield_on_reads);
        YIELD_ON_LOCKS.store(self.cfg.yield_on_locks, std::sync::atomic::Ordering::SeqCst);
        rip_kernel::verif::set_hooks(&SYNC_HOOKS);

        let mut handles = Vec::new();
        for (id, (name, f)) in self.actors.into_iter().enumerate() {
            let shared2 = shared.clone();
            let h = std::thread::Builder::new()
                .name(format!("actor-{id}-{name}"))
                .stack_size(8 << 20)
                .spawn(move || {
                    seam::set_actor(id as i32);
                    // Wait for the first turn.
                    {
                        let mut st = shared2.m.lock().unwrap();
                        st.actors[id].status = Status::Runnable;
                        st.actors[id].pending = Some(Point::Start);
                        shared2.cv.notify_all();
                        while st.current != Some(id) && !st.detached {
                            st = shared2.cv.wait(st).unwrap();
                        }
                    }
                    let result = catch_unwind(AssertUnwindSafe(f));
                    if let Err(p) = result {
                        let msg = if let Some(s) = p.downcast_ref::<&str>() {
                            s.to_string()
                        } else if let Some(s) = p.downcast_ref::<String>() {
                            s.clone()
                        } else if let Some(t) = p.downcast_ref::<TickBudgetExceeded>() {
                            format!("tick budget exceeded in {}", t.0)
                        } else {
                            "panic".to_string()
                        };
                        let mut st = shared2.m.lock().unwrap();
                        st.actors[id].panic = Some(msg);
                    }
                    yield_to_controller(Point::End);
                    seam::set_actor(-1);
                })
                .expect("spawn actor");
            handles.push(h);
        }

        let mut report = RunReport::default();
        let mut rng = Rng::derive(self.cfg.sched_seed, "sched");
        let mut last: Option<usize> = None;
        let mut hash: u64 = 0xcbf2_9ce4_8422_2325;
        let mut replay_pos = 0usize;
        let mut stop = false;
        let mut waiting_since: Vec<u64> = vec![0; n];

        // Wait until every actor has registered its Start point.
        {
            let mut st = shared.m.lock().unwrap();
            loop {
                if st.actors.iter().all(|a| a.status != Status::NotStarted) {
                    break;
                }
                let (g, to) = shared.cv.wait_timeout(st, self.cfg.watchdog).unwrap();
                st = g;
                if to.timed_out() {
                    report.watchdog_fired = true;
                    break;
                }
            }
        }

        'outer: while !report.watchdog_fired {
            let mut st = shared.m.lock().unwrap();
            // Wait for our turn.
            while st.current.is_some() {
                let (g, to) = shared.cv.wait_timeout(st, self.cfg.watchdog).unwrap();
                st = g;
                if to.timed_out() && st.current.is_some() {
                    report.watchdog_fired = true;
                    break 'outer;
                }
            }

            // Collect panics.
            for a in st.actors.iter_mut() {
                if let Some(p) = a.panic.take() {
                    report.panics.push((a.name.clone(), p));
                }
            }

            if stop {
                break;
            }

            // Runnable set.
            let runnable: Vec<usize> = (0..n)
                .filter(|&i| st.actors[i].status == Status::Runnable)
                .collect();
            if runnable.is_empty() {
                if st.actors.iter().any(|a| a.status != Status::Finished) {
                    report.deadlock = true;
                }
                break;
            }
            if report.steps >= self.cfg.max_steps {
                report.step_budget_exhausted = true;
                break;
            }

            // Choose.
            let choice = if let Some(rec) = self.cfg.replay.as_ref() {
                let c = rec.get(replay_pos).copied();
                replay_pos += 1;
                match c {
                    Some(c) if runnable.contains(&(c as usize)) => c as usize,
                    Some(_) => {
                        report.replay_diverged = true;
                        runnable[0]
                    }
                    None => match last {
                        Some(l) if runnable.contains(&l) => l,
                        _ => runnable[0],
                    },
                }
            } else {
                let stay = last.filter(|l| runnable.contains(l));
                match &self.cfg.policy {
                    Policy::Uniform => runnable[rng.usize_below(runnable.len())],
                    Policy::Sticky { stay_num, stay_den } => match stay {
                        Some(l) if rng.chance(*stay_num, *stay_den) => l,
                        _ => runnable[rng.usize_below(runnable.len())],
                    },
                    Policy::Bounded { preempt_at } => match stay {
                        Some(l) if !preempt_at.contains(&report.steps) => l,
                        Some(l) => {
                            let others: Vec<usize> =
                                runnable.iter().copied().filter(|&r| r != l).collect();
                            if others.is_empty() {
                                l
                            } else {
                                others[rng.usize_below(others.len())]
                            }
                        }
                        None => runnable[rng.usize_below(runnable.len())],
                    },
                    Policy::Sequential => match stay {
                        Some(l) => l,
                        None => runnable[0],
                    },
                }
            };
            // fairness bound (not applied when replaying a recorded vector)
            let choice = if self.cfg.replay.is_none() && self.cfg.max_starvation > 0 {
                match runnable.iter().copied().filter(|&r| report.steps.saturating_sub(waiting_since[r]) > self.cfg.max_starvation).min_by_key(|&r| waiting_since[r]) {
                    Some(starved) => starved,
                    None => choice,
                }
            } else {
                choice
            };
            waiting_since[choice] = report.steps;
            report.decisions.push(choice as u32);
            if let Some(l) = last {
                if l != choice {
                    report.context_switches += 1;
                    let attempting = matches!(
                        st.actors[l].pending,
                        Some(Point::LockBefore(_)) | Some(Point::LockBlocked(_))
                    );
                    let held = st.actors[l].held - if attempting { 1 } else { 0 };
                    if held > 0 && st.actors[l].status != Status::Finished {
                        report.preempted_in_lock += 1;
                    }
                }
            }

            // The chosen actor's pending point is about to be applied: observe it.
            let point = st.actors[choice].pending.take().unwrap_or(Point::Start);
            // Skip-yield filtering: uncontended lock points can be made non-preemptive by policy,
            // but they are still observed for statistics.
            match &point {
                Point::LockBlocked(_) => report.blocked_events += 1,
                Point::Fs(e) => {
                    if e.kind.is_mutating() {
                        report.fs_effects += 1;
                    }
                }
                _ => {}
            }
            let class = point.class();
            for b in class.as_bytes().iter().chain(&[choice as u8, 0xff]) {
                hash ^= *b as u64;
                hash = hash.wrapping_mul(0x0000_0100_0000_01B3);
            }
            let ev = Event {
                step: report.steps,
                actor: choice,
                point,
            };
            drop(st);
            let verdict = observer(&ev);
            let mut st = shared.m.lock().unwrap();
            report.steps += 1;
            if verdict.stop {
                stop = true;
                // Do not let the actor continue; detach everything below.
                drop(st);
                break;
            }
            st.actors[choice].decision = verdict.decision;
            st.current = Some(choice);
            last = Some(choice);
            shared.cv.notify_all();
        }

        // Tear down: release every parked actor without further scheduling.
        {
            let mut st = shared.m.lock().unwrap();
            st.detached = true;
            for a in st.actors.iter_mut() {
                if let Some(p) = a.panic.take() {
                    report.panics.push((a.name.clone(), p));
                }
            }
            shared.cv.notify_all();
        }
        let clean = !report.watchdog_fired && !report.deadlock;
        if clean {
            for h in handles {
                let _ = h.join();
            }
        } else {
            // Leave stuck threads behind; the process is about to report a harness error or a
            // deadlock finding and exit.
            std::mem::forget(handles);
        }
        {
            let mut st = shared.m.lock().unwrap();
            for a in st.actors.iter_mut() {
                if let Some(p) = a.panic.take() {
                    report.panics.push((a.name.clone(), p));
                }
            }
        }
        report.trace_hash = hash;

        seam::set_effect_handler(None);
        rip_kernel::verif::clear_hooks();
        *ACTIVE.lock().unwrap() = None;
        report
    }
}
