//! Seeded generator of every frame type the system can emit, with optional fields absent or
//! present, empty collections, unicode, large strings, nested JSON and extreme numbers.

use rip_kernel::{
    CheckpointAction, CompactionPlannedCutPoint, ContextSelectionCompactionCheckpointV1, ContextSelectionResetV1, EventKind, ProviderEventStatus, ToolTaskExecutionMode, ToolTaskStatus,
    ToolTaskStream,
};
use serde_json::{json, Value};

use crate::prng::Rng;

pub fn s(rng: &mut Rng) -> String {
    match rng.below(12) {
        0 => String::new(),
        1 => "plain".into(),
        2 => "ünï cødé 日本語 🙂".into(),
        3 => "line\nbreak\ttab \"quoted\" \\ back".into(),
        4 => "\u{2028}\u{2029}\u{0}\u{7f}".into(),
        5 => "x".repeat(rng.range(1_000, 100_000) as usize),
        6 => " leading and trailing ".into(),
        7 => "null".into(),
        8 => "{\"looks\":\"like json\"}".into(),
        _ => format!("v{}", rng.below(1000)),
    }
}
pub fn os(rng: &mut Rng) -> Option<String> {
    if rng.chance(1, 2) {
        Some(s(rng))
    } else {
        None
    }
}
pub fn n(rng: &mut Rng) -> u64 {
    match rng.below(6) {
        0 => 0,
        1 => u64::MAX,
        2 => 1 << 53,
        3 => (1 << 53) + 1,
        _ => rng.below(10_000),
    }
}
pub fn v(rng: &mut Rng, depth: u32) -> Value {
    match rng.below(if depth > 2 { 6 } else { 9 }) {
        0 => Value::Null,
        1 => json!(rng.chance(1, 2)),
        2 => json!(n(rng)),
        3 => json!(-(rng.below(1 << 40) as i64)),
        4 => json!(s(rng)),
        5 => json!(1.5),
        6 => Value::Array((0..rng.below(4)).map(|_| v(rng, depth + 1)).collect()),
        7 => json!({}),
        _ => {
            let mut m = serde_json::Map::new();
            for k in 0..rng.below(4) {
                m.insert(format!("k{k}{}", if rng.chance(1, 4) { "ü" } else { "" }), v(rng, depth + 1));
            }
            Value::Object(m)
        }
    }
}
/// Optional JSON payload. `Some(null)` is not generated: an optional JSON field holding JSON null
/// is the same wire form as an absent one, and nothing in the system produces it.
pub fn ov(rng: &mut Rng) -> Option<Value> {
    if rng.chance(1, 2) {
        let mut x = v(rng, 0);
        if x.is_null() {
            x = json!({"was": "null"});
        }
        Some(x)
    } else {
        None
    }
}
fn vs(rng: &mut Rng) -> Vec<String> {
    (0..rng.below(3)).map(|_| s(rng)).collect()
}
fn ckpt(rng: &mut Rng) -> ContextSelectionCompactionCheckpointV1 {
    ContextSelectionCompactionCheckpointV1 { checkpoint_id: s(rng), summary_kind: s(rng), summary_artifact_id: s(rng), to_seq: n(rng) }
}

pub const CONTINUITY_VARIANTS: u64 = 14;
pub const ALL_VARIANTS: u64 = 44;

/// `which` selects the variant (modulo the number of variants of that family).
pub fn continuity_kind(rng: &mut Rng, which: u64) -> EventKind {
    match which % CONTINUITY_VARIANTS {
        0 => EventKind::ContinuityCreated { workspace: s(rng), title: os(rng) },
        1 => EventKind::ContinuityMessageAppended { actor_id: s(rng), origin: s(rng), content: s(rng) },
        2 => EventKind::ContinuityRunSpawned { run_session_id: s(rng), message_id: s(rng), actor_id: os(rng), origin: os(rng) },
        3 => EventKind::ContinuityContextSelectionDecided {
            run_session_id: s(rng),
            message_id: s(rng),
            compiler_id: s(rng),
            compiler_strategy: s(rng),
            limits: v(rng, 0),
            compaction_checkpoint: if rng.chance(1, 2) { Some(ckpt(rng)) } else { None },
            compaction_checkpoints: (0..rng.below(3)).map(|_| ckpt(rng)).collect(),
            resets: (0..rng.below(3)).map(|_| ContextSelectionResetV1 { input: s(rng), action: s(rng), reason: s(rng), ref_: ov(rng) }).collect(),
            reason: ov(rng),
            actor_id: s(rng),
            origin: s(rng),
        },
        4 => EventKind::ContinuityContextCompiled { run_session_id: s(rng), bundle_artifact_id: s(rng), compiler_id: s(rng), compiler_strategy: s(rng), from_seq: n(rng), from_message_id: os(rng), actor_id: s(rng), origin: s(rng) },
        5 => EventKind::ContinuityProviderCursorUpdated { provider: s(rng), endpoint: os(rng), model: os(rng), cursor: ov(rng), action: s(rng), reason: os(rng), run_session_id: os(rng), actor_id: s(rng), origin: s(rng) },
        6 => EventKind::ContinuityCompactionCheckpointCreated { checkpoint_id: s(rng), cut_rule_id: s(rng), summary_kind: s(rng), summary_artifact_id: s(rng), from_seq: n(rng), from_message_id: os(rng), to_seq: n(rng), to_message_id: os(rng), actor_id: s(rng), origin: s(rng) },
        7 => EventKind::ContinuityCompactionAutoScheduleDecided {
            decision_id: s(rng),
            policy_id: s(rng),
            decision: s(rng),
            execute: rng.chance(1, 2),
            stride_messages: n(rng),
            max_new_checkpoints: rng.below(u32::MAX as u64 + 1) as u32,
            block_on_inflight: rng.chance(1, 2),
            message_count: n(rng),
            cut_rule_id: s(rng),
            planned: (0..rng.below(3)).map(|_| CompactionPlannedCutPoint { target_message_ordinal: n(rng), to_seq: n(rng), to_message_id: s(rng) }).collect(),
            job_id: os(rng),
            job_kind: os(rng),
            reason: ov(rng),
            actor_id: s(rng),
            origin: s(rng),
        },
        8 => EventKind::ContinuityJobSpawned { job_id: s(rng), job_kind: s(rng), details: ov(rng), actor_id: s(rng), origin: s(rng) },
        9 => EventKind::ContinuityJobEnded { job_id: s(rng), job_kind: s(rng), status: s(rng), result: ov(rng), error: os(rng), actor_id: s(rng), origin: s(rng) },
        10 => EventKind::ContinuityRunEnded { run_session_id: s(rng), message_id: s(rng), reason: s(rng), actor_id: os(rng), origin: os(rng) },
        11 => EventKind::ContinuityToolSideEffects { run_session_id: s(rng), tool_id: s(rng), tool_name: s(rng), affected_paths: if rng.chance(1, 3) { None } else { Some(vs(rng)) }, checkpoint_id: os(rng), actor_id: s(rng), origin: s(rng) },
        12 => EventKind::ContinuityBranched { parent_thread_id: s(rng), parent_seq: n(rng), parent_message_id: os(rng), actor_id: s(rng), origin: s(rng) },
        _ => EventKind::ContinuityHandoffCreated { from_thread_id: s(rng), from_seq: n(rng), from_message_id: os(rng), summary_artifact_id: os(rng), summary_markdown: os(rng), actor_id: s(rng), origin: s(rng) },
    }
}

pub fn task_kind(rng: &mut Rng, which: u64) -> EventKind {
    let status = [ToolTaskStatus::Queued, ToolTaskStatus::Running, ToolTaskStatus::Exited, ToolTaskStatus::Cancelled, ToolTaskStatus::Failed][rng.usize_below(5)];
    let mode = if rng.chance(1, 2) { ToolTaskExecutionMode::Pipes } else { ToolTaskExecutionMode::Pty };
    match which % 8 {
        0 => EventKind::ToolTaskSpawned { task_id: s(rng), tool_name: s(rng), args: v(rng, 0), cwd: os(rng), title: os(rng), execution_mode: mode, origin_session_id: os(rng), artifacts: ov(rng) },
        1 => EventKind::ToolTaskStatus { task_id: s(rng), status, exit_code: if rng.chance(1, 2) { Some(rng.below(512) as i32 - 256) } else { None }, started_at_ms: if rng.chance(1, 2) { Some(n(rng)) } else { None }, ended_at_ms: if rng.chance(1, 2) { Some(n(rng)) } else { None }, artifacts: ov(rng), error: os(rng) },
        2 => EventKind::ToolTaskCancelRequested { task_id: s(rng), reason: s(rng) },
        3 => EventKind::ToolTaskCancelled { task_id: s(rng), reason: s(rng), wall_time_ms: if rng.chance(1, 2) { Some(n(rng)) } else { None } },
        4 => EventKind::ToolTaskOutputDelta { task_id: s(rng), stream: [ToolTaskStream::Stdout, ToolTaskStream::Stderr, ToolTaskStream::Pty][rng.usize_below(3)], chunk: s(rng), artifacts: ov(rng) },
        5 => EventKind::ToolTaskStdinWritten { task_id: s(rng), chunk_b64: s(rng) },
        6 => EventKind::ToolTaskResized { task_id: s(rng), rows: rng.below(65_536) as u16, cols: rng.below(65_536) as u16 },
        _ => EventKind::ToolTaskSignalled { task_id: s(rng), signal: s(rng) },
    }
}

pub fn session_kind(rng: &mut Rng, which: u64) -> EventKind {
    match which % 22 {
        0 => EventKind::SessionStarted { input: s(rng) },
        1 => EventKind::OutputTextDelta { delta: s(rng) },
        2 => EventKind::SessionEnded { reason: s(rng) },
        3 => EventKind::ToolStarted { tool_id: s(rng), name: s(rng), args: v(rng, 0), timeout_ms: if rng.chance(1, 2) { Some(n(rng)) } else { None } },
        4 => EventKind::ToolStdout { tool_id: s(rng), chunk: s(rng) },
        5 => EventKind::ToolStderr { tool_id: s(rng), chunk: s(rng) },
        6 => EventKind::ToolEnded { tool_id: s(rng), exit_code: rng.below(1 << 32) as u32 as i32, duration_ms: n(rng), artifacts: ov(rng) },
        7 => EventKind::ToolFailed { tool_id: s(rng), error: s(rng) },
        8 => EventKind::OpenResponsesRequest { endpoint: s(rng), model: os(rng), request_index: n(rng), kind: s(rng), body_artifact_id: s(rng), body_bytes: n(rng), total_bytes: n(rng), truncated: rng.chance(1, 2) },
        9 => EventKind::OpenResponsesRequestStarted { endpoint: s(rng), model: os(rng), request_index: n(rng), kind: s(rng) },
        10 => EventKind::OpenResponsesResponseHeaders { request_index: n(rng), status: rng.below(65_536) as u16, request_id: os(rng), content_type: os(rng) },
        11 => EventKind::OpenResponsesResponseFirstByte { request_index: n(rng) },
        12 | 13 => EventKind::ProviderEvent {
            provider: s(rng),
            status: [ProviderEventStatus::Event, ProviderEventStatus::Done, ProviderEventStatus::InvalidJson][rng.usize_below(3)].clone(),
            event_name: os(rng),
            // a provider payload may be the JSON literal null: it goes out live as "data":null
            data: if rng.chance(1, 10) { Some(Value::Null) } else { ov(rng) },
            raw: os(rng),
            errors: vs(rng),
            response_errors: vs(rng),
        },
        14 => EventKind::CheckpointCreated { checkpoint_id: s(rng), label: s(rng), created_at_ms: n(rng), files: vs(rng), auto: rng.chance(1, 2), tool_name: os(rng) },
        15 => EventKind::CheckpointRewound { checkpoint_id: s(rng), label: s(rng), files: vs(rng) },
        16 => EventKind::CheckpointFailed { action: if rng.chance(1, 2) { CheckpointAction::Create } else { CheckpointAction::Rewind }, error: s(rng) },
        17 => EventKind::OutputTextDelta { delta: s(rng) },
        18 => EventKind::ToolStarted { tool_id: s(rng), name: s(rng), args: json!({}), timeout_ms: None },
        19 => EventKind::ToolEnded { tool_id: s(rng), exit_code: 0, duration_ms: 0, artifacts: None },
        20 => EventKind::SessionStarted { input: String::new() },
        _ => EventKind::ProviderEvent { provider: "openresponses".into(), status: ProviderEventStatus::Done, event_name: None, data: None, raw: Some("[DONE]".into()), errors: vec![], response_errors: vec![] },
    }
}
