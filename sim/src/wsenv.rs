//! Direct-drive environment for the workspace properties (C12, C13, C14): the real tool runner with
//! the real built-in tools and the real workspace checkpoint hook on a real directory, driven from
//! one thread on a private tokio runtime, with the libc seam in monitor mode as the observer.

use std::collections::BTreeMap;
use std::path::{Path, PathBuf};
use std::sync::{Arc, Mutex};

use rip_kernel::{Event, EventKind};
use rip_tools::{register_builtin_tools, BuiltinToolConfig, ToolInvocation, ToolRegistry, ToolRunner};
use serde_json::Value;

use crate::seam::{self, Decision, Effect};

pub type Tree = BTreeMap<String, Vec<u8>>;

/// Every regular file under `dir` (relative path -> bytes), skipping the `.rip` directory.
pub fn snapshot_tree(dir: &Path, skip_rip: bool) -> Tree {
    let mut out = Tree::new();
    fn walk(base: &Path, dir: &Path, skip_rip: bool, out: &mut Tree) {
        let Ok(rd) = std::fs::read_dir(dir) else {
            return;
        };
        let mut entries: Vec<PathBuf> = rd.filter_map(|e| e.ok().map(|e| e.path())).collect();
        entries.sort();
        for p in entries {
            if skip_rip && p.file_name().map(|n| n == ".rip").unwrap_or(false) && p.parent() == Some(base) {
                continue;
            }
            let Ok(meta) = std::fs::symlink_metadata(&p) else {
                continue;
            };
            if meta.is_dir() {
                walk(base, &p, skip_rip, out);
            } else if let Ok(b) = std::fs::read(&p) {
                out.insert(p.strip_prefix(base).unwrap_or(&p).to_string_lossy().to_string(), b);
            }
        }
    }
    walk(dir, dir, skip_rip, &mut out);
    out
}

pub fn write_tree(dir: &Path, tree: &Tree) {
    for (rel, bytes) in tree {
        let p = dir.join(rel);
        if let Some(parent) = p.parent() {
            let _ = std::fs::create_dir_all(parent);
        }
        let _ = std::fs::write(p, bytes);
    }
}

pub struct ToolEnv {
    pub rt: tokio::runtime::Runtime,
    pub runner: Arc<ToolRunner>,
    pub root: PathBuf,
    pub seq: u64,
    pub session: String,
}

impl ToolEnv {
    /// Tool environment with explicit output limits (preview limit, artifact cap).
    pub fn with_limits(root: &Path, max_bytes: usize, artifact_max_bytes: usize) -> Result<ToolEnv, String> {
        let rt = tokio::runtime::Builder::new_current_thread().enable_all().build().map_err(|e| format!("runtime: {e}"))?;
        let registry = Arc::new(ToolRegistry::default());
        let cfg = BuiltinToolConfig { workspace_root: root.to_path_buf(), max_bytes, artifact_max_bytes, ..BuiltinToolConfig::default() };
        register_builtin_tools(&registry, cfg);
        let hook = ripd::verif_api::WorkspaceCheckpointHook::new(root.to_path_buf()).map_err(|e| format!("hook: {e}"))?;
        let runner = Arc::new(ToolRunner::with_checkpoint_hook(registry, 4, Arc::new(hook)));
        Ok(ToolEnv { rt, runner, root: root.to_path_buf(), seq: 0, session: "sess-1".to_string() })
    }

    pub fn new(root: &Path) -> Result<ToolEnv, String> {
        let rt = tokio::runtime::Builder::new_current_thread()
            .enable_all()
            .build()
            .map_err(|e| format!("runtime: {e}"))?;
        let registry = Arc::new(ToolRegistry::default());
        let cfg = BuiltinToolConfig {
            workspace_root: root.to_path_buf(),
            ..BuiltinToolConfig::default()
        };
        register_builtin_tools(&registry, cfg);
        let hook = ripd::verif_api::WorkspaceCheckpointHook::new(root.to_path_buf()).map_err(|e| format!("hook: {e}"))?;
        let runner = Arc::new(ToolRunner::with_checkpoint_hook(registry, 4, Arc::new(hook)));
        Ok(ToolEnv {
            rt,
            runner,
            root: root.to_path_buf(),
            seq: 0,
            session: "sess-1".to_string(),
        })
    }

    pub fn run_tool(&mut self, name: &str, args: Value) -> Vec<Event> {
        let inv = ToolInvocation {
            name: name.to_string(),
            args,
            timeout_ms: Some(20_000),
        };
        let runner = self.runner.clone();
        let session = self.session.clone();
        let mut seq = self.seq;
        let events = self.rt.block_on(async { runner.run(&session, &mut seq, inv).await });
        self.seq = seq;
        events
    }

    pub fn create_checkpoint(&mut self, label: &str, files: Vec<PathBuf>) -> Vec<Event> {
        let mut seq = self.seq;
        let ev = self.runner.create_checkpoint(&self.session, &mut seq, label.to_string(), files);
        self.seq = seq;
        ev
    }

    pub fn rewind(&mut self, id: &str) -> Vec<Event> {
        let mut seq = self.seq;
        let ev = self.runner.rewind_checkpoint(&self.session, &mut seq, id);
        self.seq = seq;
        ev
    }
}

pub fn tool_exit(events: &[Event]) -> Option<i32> {
    events.iter().find_map(|e| match &e.kind {
        EventKind::ToolEnded { exit_code, .. } => Some(*exit_code),
        EventKind::ToolFailed { .. } => Some(-1),
        _ => None,
    })
}

pub fn tool_text(events: &[Event]) -> String {
    let mut s = String::new();
    for e in events {
        match &e.kind {
            EventKind::ToolStdout { chunk, .. } | EventKind::ToolStderr { chunk, .. } => {
                s.push_str(chunk);
                s.push('\n');
            }
            EventKind::ToolFailed { error, .. } => s.push_str(error),
            EventKind::CheckpointFailed { error, .. } => s.push_str(error),
            _ => {}
        }
    }
    s
}

// ---------------------------------------------------------------------------------------------
// effect monitor (libc seam in monitor mode)

#[derive(Clone, Debug)]
pub struct Seen {
    pub kind: seam::EffectKind,
    pub path: String,
    pub path2: Option<String>,
}

static SEEN: Mutex<Vec<Seen>> = Mutex::new(Vec::new());

/// Directories no request confined to a workspace has any business listing, and kernel message
/// files whose read blocks for ever: an open for reading of one of these is recorded and refused
/// (EACCES), so that a traversal that escaped to the file-system root is an observation instead
/// of a hang on `/proc/kmsg`.
pub fn is_system_listing(normalized: &str) -> bool {
    matches!(normalized, "/" | "/proc" | "/sys" | "/dev" | "/etc" | "/home" | "/root" | "/usr" | "/var" | "/boot" | "/opt" | "/srv" | "/mnt" | "/media" | "/proc/kmsg" | "/dev/kmsg")
}

fn monitor_handler(_actor: i32, e: &Effect) -> Decision {
    let refuse = e.kind == seam::EffectKind::OpenRead && is_system_listing(&normalize(&e.path));
    if let Ok(mut g) = SEEN.lock() {
        if g.len() < 100_000 {
            g.push(Seen {
                kind: e.kind,
                path: e.path.clone(),
                path2: e.path2.clone(),
            });
        }
    }
    if refuse {
        return Decision::Fail(libc::EACCES);
    }
    Decision::Proceed
}

/// Start observing every file-system effect (opens incl. reads, and all mutations) of the whole
/// process under `scope`.
pub fn monitor_begin(scope: &Path, sim_seed: u64) {
    seam::set_mode(seam::MODE_OFF);
    SEEN.lock().unwrap().clear();
    seam::set_root_prefix(scope.to_str().unwrap_or(""));
    seam::set_report_reads(true);
    seam::set_capture_data(false);
    seam::sim_rand_reset(sim_seed, true);
    seam::set_effect_handler(Some(monitor_handler));
    seam::set_mode(seam::MODE_MONITOR);
}

pub fn monitor_take() -> Vec<Seen> {
    std::mem::take(&mut *SEEN.lock().unwrap())
}

pub fn monitor_end() {
    seam::set_mode(seam::MODE_OFF);
    seam::set_effect_handler(None);
    seam::sim_rand_disable();
    seam::set_root_prefix("");
}

/// Lexically normalise an absolute path (resolve `.` and `..`).
pub fn normalize(path: &str) -> String {
    let mut parts: Vec<&str> = Vec::new();
    for c in path.split('/') {
        match c {
            "" | "." => {}
            ".." => {
                parts.pop();
            }
            other => parts.push(other),
        }
    }
    format!("/{}", parts.join("/"))
}
