//! libc interposition seam.
//!
//! The simulator binary defines the libc entry points Rust's std (statically linked) uses for
//! file-system effects, clocks, randomness and process identity. Every call from rip therefore
//! lands here first and is forwarded with a raw syscall. Behaviour is selected per thread:
//!
//! * threads that are not registered actors pass straight through (the harness's own I/O);
//! * actor threads report every mutating file-system effect (and every `open`) to the scheduler
//!   *before* it is applied, read the simulated clock, draw "random" bytes from their own PRNG
//!   sub-stream and see their own fake pid;
//! * in monitor mode (whole-engine runs on a real tokio runtime) every thread reports effects to a
//!   process-wide observer without any scheduling.
//!
//! No repository change is needed for any of this.

#![allow(clippy::missing_safety_doc)]

use std::cell::Cell;
use std::ffi::CStr;
use std::sync::atomic::{AtomicBool, AtomicI64, AtomicU64, AtomicU8, AtomicUsize, Ordering};
use std::sync::Mutex;

use libc::{c_char, c_int, c_long, c_uint, c_void, mode_t, off64_t, off_t, pid_t, size_t, ssize_t};

use crate::prng::Rng;

// ---------------------------------------------------------------------------------------------
// per-thread state

thread_local! {
    /// -1 = passthrough thread; >= 0 = registered actor id.
    static ACTOR: Cell<i32> = const { Cell::new(-1) };
    /// Re-entrancy guard: set while seam code itself runs.
    static IN_SEAM: Cell<bool> = const { Cell::new(false) };
    /// Fake pid for this thread (0 = none).
    static FAKE_PID: Cell<i32> = const { Cell::new(0) };
}

pub fn set_actor(id: i32) {
    ACTOR.with(|c| c.set(id));
}
pub fn actor() -> i32 {
    ACTOR.try_with(|c| c.get()).unwrap_or(-1)
}
pub fn set_fake_pid(pid: i32) {
    FAKE_PID.with(|c| c.set(pid));
}

struct SeamGuard(bool);
impl SeamGuard {
    fn enter() -> Option<SeamGuard> {
        let was = IN_SEAM.try_with(|c| c.replace(true)).unwrap_or(true);
        if was {
            None
        } else {
            Some(SeamGuard(true))
        }
    }
}
impl Drop for SeamGuard {
    fn drop(&mut self) {
        if self.0 {
            let _ = IN_SEAM.try_with(|c| c.set(false));
        }
    }
}

// ---------------------------------------------------------------------------------------------
// global configuration

pub const MODE_OFF: u8 = 0;
pub const MODE_SIM: u8 = 1; // actors are scheduled at effects
pub const MODE_MONITOR: u8 = 2; // all threads report effects, no scheduling

static MODE: AtomicU8 = AtomicU8::new(MODE_OFF);
static SIM_CLOCK_ON: AtomicBool = AtomicBool::new(false);
static SIM_CLOCK_ALL_THREADS: AtomicBool = AtomicBool::new(false);
static SIM_RAND_ALL_THREADS: AtomicBool = AtomicBool::new(false);
/// Simulated wall clock in nanoseconds since the epoch.
static CLOCK_NS: AtomicU64 = AtomicU64::new(0);
/// Added to the clock on every read.
static CLOCK_QUANTUM_NS: AtomicU64 = AtomicU64::new(0);
/// Offset between CLOCK_REALTIME and CLOCK_MONOTONIC in the simulation.
const MONO_OFFSET_NS: u64 = 1_700_000_000_000_000_000;
pub const EPOCH_NS: u64 = 1_800_000_000_000_000_000;

pub static COUNT_CLOCK: AtomicU64 = AtomicU64::new(0);
pub static COUNT_RAND: AtomicU64 = AtomicU64::new(0);
pub static COUNT_PID: AtomicU64 = AtomicU64::new(0);
pub static COUNT_KILL: AtomicU64 = AtomicU64::new(0);
pub static COUNT_EFFECTS: AtomicU64 = AtomicU64::new(0);

pub fn set_mode(mode: u8) {
    MODE.store(mode, Ordering::SeqCst);
}
pub fn mode() -> u8 {
    MODE.load(Ordering::Relaxed)
}

pub fn sim_clock_enable(start_ns: u64, quantum_ns: u64, all_threads: bool) {
    CLOCK_NS.store(start_ns, Ordering::SeqCst);
    CLOCK_QUANTUM_NS.store(quantum_ns, Ordering::SeqCst);
    SIM_CLOCK_ALL_THREADS.store(all_threads, Ordering::SeqCst);
    SIM_CLOCK_ON.store(true, Ordering::SeqCst);
}
pub fn sim_clock_disable() {
    SIM_CLOCK_ON.store(false, Ordering::SeqCst);
    SIM_CLOCK_ALL_THREADS.store(false, Ordering::SeqCst);
}
pub fn sim_clock_advance(ns: u64) {
    CLOCK_NS.fetch_add(ns, Ordering::SeqCst);
}
pub fn sim_clock_now_ns() -> u64 {
    CLOCK_NS.load(Ordering::SeqCst)
}

// ---------------------------------------------------------------------------------------------
// randomness: one PRNG sub-stream per actor, plus a default stream

struct RandState {
    seed: u64,
    streams: Vec<Option<Rng>>,
    default: Option<Rng>,
}
static RAND: Mutex<RandState> = Mutex::new(RandState {
    seed: 0,
    streams: Vec::new(),
    default: None,
});

pub fn sim_rand_reset(seed: u64, all_threads: bool) {
    let mut r = RAND.lock().unwrap();
    r.seed = seed;
    r.streams.clear();
    r.default = Some(Rng::derive(seed, "rand:default"));
    SIM_RAND_ALL_THREADS.store(all_threads, Ordering::SeqCst);
}
pub fn sim_rand_disable() {
    let mut r = RAND.lock().unwrap();
    r.default = None;
    r.streams.clear();
    SIM_RAND_ALL_THREADS.store(false, Ordering::SeqCst);
}

fn sim_rand_fill(actor: i32, buf: &mut [u8]) -> bool {
    let mut r = RAND.lock().unwrap();
    if r.default.is_none() {
        return false;
    }
    if actor >= 0 {
        let idx = actor as usize;
        if r.streams.len() <= idx {
            r.streams.resize(idx + 1, None);
        }
        if r.streams[idx].is_none() {
            let seed = r.seed;
            r.streams[idx] = Some(Rng::derive(seed, &format!("rand:actor:{idx}")));
        }
        r.streams[idx].as_mut().unwrap().fill(buf);
        true
    } else if SIM_RAND_ALL_THREADS.load(Ordering::Relaxed) {
        r.default.as_mut().unwrap().fill(buf);
        true
    } else {
        false
    }
}

// ---------------------------------------------------------------------------------------------
// simulated pid liveness

pub const FAKE_PID_BASE: i32 = 4_200_000;
static PID_ALIVE: Mutex<Vec<(i32, bool)>> = Mutex::new(Vec::new());

pub fn pid_table_reset() {
    PID_ALIVE.lock().unwrap().clear();
}
pub fn pid_set_alive(pid: i32, alive: bool) {
    let mut t = PID_ALIVE.lock().unwrap();
    if let Some(e) = t.iter_mut().find(|e| e.0 == pid) {
        e.1 = alive;
    } else {
        t.push((pid, alive));
    }
}
fn pid_is_alive(pid: i32) -> bool {
    PID_ALIVE
        .lock()
        .unwrap()
        .iter()
        .find(|e| e.0 == pid)
        .map(|e| e.1)
        .unwrap_or(false)
}

// ---------------------------------------------------------------------------------------------
// fd table (fd -> path, flags) so writes can be attributed to files

#[derive(Clone, Debug)]
pub struct FdInfo {
    pub path: String,
    pub flags: i32,
}
static FDS: Mutex<Vec<Option<FdInfo>>> = Mutex::new(Vec::new());

fn fd_set(fd: i32, info: FdInfo) {
    if fd < 0 {
        return;
    }
    let mut t = FDS.lock().unwrap();
    let idx = fd as usize;
    if t.len() <= idx {
        t.resize(idx + 1, None);
    }
    t[idx] = Some(info);
}
fn fd_clear(fd: i32) {
    if fd < 0 {
        return;
    }
    if let Ok(mut t) = FDS.try_lock() {
        let idx = fd as usize;
        if idx < t.len() {
            t[idx] = None;
        }
    }
}
pub fn fd_info(fd: i32) -> Option<FdInfo> {
    if fd < 0 {
        return None;
    }
    {
        let t = FDS.lock().unwrap();
        if let Some(Some(info)) = t.get(fd as usize) {
            return Some(info.clone());
        }
    }
    // Unknown descriptor (opened on a passthrough thread): ask the kernel.
    let link = format!("/proc/self/fd/{fd}\0");
    let mut buf = [0u8; 4096];
    let n = unsafe {
        libc::syscall(
            libc::SYS_readlink,
            link.as_ptr(),
            buf.as_mut_ptr(),
            buf.len(),
        )
    };
    if n <= 0 {
        return None;
    }
    let path = String::from_utf8_lossy(&buf[..n as usize]).to_string();
    let flags = unsafe { libc::syscall(libc::SYS_fcntl, fd, libc::F_GETFL) } as i32;
    let info = FdInfo { path, flags };
    fd_set(fd, info.clone());
    Some(info)
}

// ---------------------------------------------------------------------------------------------
// effects

#[derive(Clone, Copy, Debug, PartialEq, Eq, Hash, serde::Serialize, serde::Deserialize)]
pub enum EffectKind {
    Write,
    OpenRead,
    OpenWrite,
    OpenCreate,
    OpenTrunc,
    Rename,
    Unlink,
    Mkdir,
    Rmdir,
    Truncate,
    Link,
    Symlink,
    Fsync,
    CopyRange,
    Chmod,
}

impl EffectKind {
    pub fn is_mutating(self) -> bool {
        !matches!(
            self,
            EffectKind::OpenRead | EffectKind::OpenWrite | EffectKind::Fsync
        )
    }
}

#[derive(Clone, Debug)]
pub struct Effect {
    pub kind: EffectKind,
    pub path: String,
    pub path2: Option<String>,
    pub fd: i32,
    pub flags: i32,
    pub len: usize,
    /// Copy of the write buffer when data capture is on.
    pub data: Option<Vec<u8>>,
}

#[derive(Clone, Copy, Debug, PartialEq, Eq)]
pub enum Decision {
    Proceed,
    /// Do not perform the call; return -1 with this errno.
    Fail(i32),
    /// Perform only the first n bytes of a write.
    Short(usize),
}

pub type EffectHandler = fn(actor: i32, effect: &Effect) -> Decision;

static HANDLER: AtomicUsize = AtomicUsize::new(0);
static CAPTURE_DATA: AtomicBool = AtomicBool::new(false);
/// Only paths with this prefix are reported in SIM mode (empty = everything).
static ROOT_PREFIX: Mutex<String> = Mutex::new(String::new());
static REPORT_READS: AtomicBool = AtomicBool::new(true);

pub fn set_effect_handler(h: Option<EffectHandler>) {
    HANDLER.store(h.map(|f| f as usize).unwrap_or(0), Ordering::SeqCst);
}
pub fn set_capture_data(on: bool) {
    CAPTURE_DATA.store(on, Ordering::SeqCst);
}
pub fn set_root_prefix(prefix: &str) {
    *ROOT_PREFIX.lock().unwrap() = prefix.to_string();
}
pub fn set_report_reads(on: bool) {
    REPORT_READS.store(on, Ordering::SeqCst);
}

fn path_in_scope(path: &str) -> bool {
    let p = ROOT_PREFIX.lock().unwrap();
    p.is_empty() || path.starts_with(p.as_str())
}

fn abs_path(p: *const c_char) -> String {
    if p.is_null() {
        return String::new();
    }
    let s = unsafe { CStr::from_ptr(p) }.to_string_lossy().to_string();
    if s.starts_with('/') {
        return s;
    }
    // Relative path: resolve against the process cwd (lexically, without touching the fs).
    let mut buf = [0u8; 4096];
    let n = unsafe { libc::syscall(libc::SYS_getcwd, buf.as_mut_ptr(), buf.len()) };
    if n <= 0 {
        return s;
    }
    let cwd = unsafe { CStr::from_ptr(buf.as_ptr() as *const c_char) }
        .to_string_lossy()
        .to_string();
    format!("{}/{}", cwd.trim_end_matches('/'), s)
}

/// Report an effect; returns the decision. `None` means "not intercepted" (proceed).
fn report(kind: EffectKind, path: String, path2: Option<String>, fd: i32, flags: i32, buf: *const c_void, len: usize) -> Decision {
    let mode = MODE.load(Ordering::Relaxed);
    if mode == MODE_OFF {
        return Decision::Proceed;
    }
    let actor = actor();
    if mode == MODE_SIM && actor < 0 {
        return Decision::Proceed;
    }
    if !kind.is_mutating() && !REPORT_READS.load(Ordering::Relaxed) {
        return Decision::Proceed;
    }
    let Some(_guard) = SeamGuard::enter() else {
        return Decision::Proceed;
    };
    if !path_in_scope(&path) && !path2.as_deref().map(path_in_scope).unwrap_or(false) {
        return Decision::Proceed;
    }
    let h = HANDLER.load(Ordering::Acquire);
    if h == 0 {
        return Decision::Proceed;
    }
    let data = if !buf.is_null() && len > 0 && CAPTURE_DATA.load(Ordering::Relaxed) {
        Some(unsafe { std::slice::from_raw_parts(buf as *const u8, len) }.to_vec())
    } else {
        None
    };
    COUNT_EFFECTS.fetch_add(1, Ordering::Relaxed);
    let effect = Effect {
        kind,
        path,
        path2,
        fd,
        flags,
        len,
        data,
    };
    let handler: EffectHandler = unsafe { std::mem::transmute(h) };
    handler(actor, &effect)
}

#[inline]
fn set_errno(e: i32) {
    unsafe { *libc::__errno_location() = e };
}

#[inline]
fn intercepting() -> bool {
    MODE.load(Ordering::Relaxed) != MODE_OFF
}

// ---------------------------------------------------------------------------------------------
// interposers: file system

#[no_mangle]
pub unsafe extern "C" fn write(fd: c_int, buf: *const c_void, count: size_t) -> ssize_t {
    if intercepting() && fd > 2 {
        let in_seam = IN_SEAM.try_with(|c| c.get()).unwrap_or(true);
        if !in_seam && (MODE.load(Ordering::Relaxed) == MODE_MONITOR || actor() >= 0) {
            let info = {
                let _g = SeamGuard::enter();
                fd_info(fd)
            };
            if let Some(info) = info {
                match report(EffectKind::Write, info.path, None, fd, info.flags, buf, count) {
                    Decision::Proceed => {}
                    Decision::Fail(e) => {
                        set_errno(e);
                        return -1;
                    }
                    Decision::Short(n) => {
                        return libc::syscall(libc::SYS_write, fd, buf, n.min(count)) as ssize_t;
                    }
                }
            }
        }
    }
    libc::syscall(libc::SYS_write, fd, buf, count) as ssize_t
}

#[no_mangle]
pub unsafe extern "C" fn writev(fd: c_int, iov: *const libc::iovec, iovcnt: c_int) -> ssize_t {
    if intercepting() && fd > 2 {
        let in_seam = IN_SEAM.try_with(|c| c.get()).unwrap_or(true);
        if !in_seam && (MODE.load(Ordering::Relaxed) == MODE_MONITOR || actor() >= 0) {
            let info = {
                let _g = SeamGuard::enter();
                fd_info(fd)
            };
            if let Some(info) = info {
                // Flatten for observers.
                let mut flat: Vec<u8> = Vec::new();
                {
                    let _g = SeamGuard::enter();
                    for i in 0..iovcnt.max(0) as usize {
                        let v = &*iov.add(i);
                        if !v.iov_base.is_null() && v.iov_len > 0 {
                            flat.extend_from_slice(std::slice::from_raw_parts(
                                v.iov_base as *const u8,
                                v.iov_len,
                            ));
                        }
                    }
                }
                match report(
                    EffectKind::Write,
                    info.path,
                    None,
                    fd,
                    info.flags,
                    flat.as_ptr() as *const c_void,
                    flat.len(),
                ) {
                    Decision::Proceed | Decision::Short(_) => {}
                    Decision::Fail(e) => {
                        set_errno(e);
                        return -1;
                    }
                }
            }
        }
    }
    libc::syscall(libc::SYS_writev, fd, iov, iovcnt) as ssize_t
}

#[no_mangle]
pub unsafe extern "C" fn pwrite64(fd: c_int, buf: *const c_void, count: size_t, offset: off64_t) -> ssize_t {
    if intercepting() && fd > 2 {
        let in_seam = IN_SEAM.try_with(|c| c.get()).unwrap_or(true);
        if !in_seam && (MODE.load(Ordering::Relaxed) == MODE_MONITOR || actor() >= 0) {
            let info = {
                let _g = SeamGuard::enter();
                fd_info(fd)
            };
            if let Some(info) = info {
                if let Decision::Fail(e) = report(EffectKind::Write, info.path, None, fd, info.flags | 0x4000_0000, buf, count) {
                    set_errno(e);
                    return -1;
                }
            }
        }
    }
    libc::syscall(libc::SYS_pwrite64, fd, buf, count, offset) as ssize_t
}

#[no_mangle]
pub unsafe extern "C" fn pwrite(fd: c_int, buf: *const c_void, count: size_t, offset: off_t) -> ssize_t {
    pwrite64(fd, buf, count, offset as off64_t)
}

unsafe fn open_common(dirfd: c_int, path: *const c_char, flags: c_int, mode: mode_t) -> c_int {
    let mut reported_path: Option<String> = None;
    if intercepting() {
        let in_seam = IN_SEAM.try_with(|c| c.get()).unwrap_or(true);
        if !in_seam && (MODE.load(Ordering::Relaxed) == MODE_MONITOR || actor() >= 0) {
            let p = {
                let _g = SeamGuard::enter();
                if dirfd == libc::AT_FDCWD || (!path.is_null() && *path == b'/' as c_char) {
                    abs_path(path)
                } else {
                    let base = fd_info(dirfd).map(|i| i.path).unwrap_or_default();
                    let rel = CStr::from_ptr(path).to_string_lossy().to_string();
                    format!("{}/{}", base.trim_end_matches('/'), rel)
                }
            };
            let acc = flags & libc::O_ACCMODE;
            // Classify by what the call will actually do to the file system.
            let mut st: libc::stat = std::mem::zeroed();
            let exists = libc::syscall(libc::SYS_newfstatat, dirfd, path, &mut st as *mut libc::stat, 0) == 0;
            let kind = if !exists && flags & libc::O_CREAT != 0 {
                EffectKind::OpenCreate
            } else if exists && flags & libc::O_TRUNC != 0 && acc != libc::O_RDONLY && st.st_size > 0 {
                EffectKind::OpenTrunc
            } else if acc != libc::O_RDONLY {
                EffectKind::OpenWrite
            } else {
                EffectKind::OpenRead
            };
            if let Decision::Fail(e) = report(kind, p.clone(), None, -1, flags, std::ptr::null(), 0) {
                set_errno(e);
                return -1;
            }
            reported_path = Some(p);
        }
    }
    let fd = libc::syscall(libc::SYS_openat, dirfd, path, flags, mode as c_uint) as c_int;
    if fd >= 0 {
        if let Some(p) = reported_path {
            if let Some(_g) = SeamGuard::enter() {
                fd_set(fd, FdInfo { path: p, flags });
            }
        } else {
            fd_clear(fd);
        }
    }
    fd
}

#[no_mangle]
pub unsafe extern "C" fn open64(path: *const c_char, flags: c_int, mode: mode_t) -> c_int {
    open_common(libc::AT_FDCWD, path, flags, mode)
}

#[no_mangle]
pub unsafe extern "C" fn open(path: *const c_char, flags: c_int, mode: mode_t) -> c_int {
    open_common(libc::AT_FDCWD, path, flags, mode)
}

#[no_mangle]
pub unsafe extern "C" fn openat64(dirfd: c_int, path: *const c_char, flags: c_int, mode: mode_t) -> c_int {
    open_common(dirfd, path, flags, mode)
}

#[no_mangle]
pub unsafe extern "C" fn openat(dirfd: c_int, path: *const c_char, flags: c_int, mode: mode_t) -> c_int {
    open_common(dirfd, path, flags, mode)
}

#[no_mangle]
pub unsafe extern "C" fn close(fd: c_int) -> c_int {
    if intercepting() {
        fd_clear(fd);
    }
    libc::syscall(libc::SYS_close, fd) as c_int
}

#[no_mangle]
pub unsafe extern "C" fn rename(old: *const c_char, new: *const c_char) -> c_int {
    if intercepting() {
        let (a, b) = {
            let _g = SeamGuard::enter();
            (abs_path(old), abs_path(new))
        };
        if let Decision::Fail(e) = report(EffectKind::Rename, a, Some(b), -1, 0, std::ptr::null(), 0) {
            set_errno(e);
            return -1;
        }
    }
    libc::syscall(libc::SYS_rename, old, new) as c_int
}

#[no_mangle]
pub unsafe extern "C" fn renameat(olddirfd: c_int, old: *const c_char, newdirfd: c_int, new: *const c_char) -> c_int {
    if intercepting() && olddirfd == libc::AT_FDCWD && newdirfd == libc::AT_FDCWD {
        let (a, b) = {
            let _g = SeamGuard::enter();
            (abs_path(old), abs_path(new))
        };
        if let Decision::Fail(e) = report(EffectKind::Rename, a, Some(b), -1, 0, std::ptr::null(), 0) {
            set_errno(e);
            return -1;
        }
    }
    libc::syscall(libc::SYS_renameat, olddirfd, old, newdirfd, new) as c_int
}

#[no_mangle]
pub unsafe extern "C" fn unlink(path: *const c_char) -> c_int {
    if intercepting() {
        let a = {
            let _g = SeamGuard::enter();
            abs_path(path)
        };
        if let Decision::Fail(e) = report(EffectKind::Unlink, a, None, -1, 0, std::ptr::null(), 0) {
            set_errno(e);
            return -1;
        }
    }
    libc::syscall(libc::SYS_unlink, path) as c_int
}

#[no_mangle]
pub unsafe extern "C" fn unlinkat(dirfd: c_int, path: *const c_char, flags: c_int) -> c_int {
    if intercepting() {
        let in_seam = IN_SEAM.try_with(|c| c.get()).unwrap_or(true);
        if !in_seam {
            let a = {
                let _g = SeamGuard::enter();
                if dirfd == libc::AT_FDCWD || (!path.is_null() && *path == b'/' as c_char) {
                    abs_path(path)
                } else {
                    let base = fd_info(dirfd).map(|i| i.path).unwrap_or_default();
                    let rel = CStr::from_ptr(path).to_string_lossy().to_string();
                    format!("{}/{}", base.trim_end_matches('/'), rel)
                }
            };
            let kind = if flags & libc::AT_REMOVEDIR != 0 {
                EffectKind::Rmdir
            } else {
                EffectKind::Unlink
            };
            if let Decision::Fail(e) = report(kind, a, None, -1, flags, std::ptr::null(), 0) {
                set_errno(e);
                return -1;
            }
        }
    }
    libc::syscall(libc::SYS_unlinkat, dirfd, path, flags) as c_int
}

#[no_mangle]
pub unsafe extern "C" fn rmdir(path: *const c_char) -> c_int {
    if intercepting() {
        let a = {
            let _g = SeamGuard::enter();
            abs_path(path)
        };
        if let Decision::Fail(e) = report(EffectKind::Rmdir, a, None, -1, 0, std::ptr::null(), 0) {
            set_errno(e);
            return -1;
        }
    }
    libc::syscall(libc::SYS_rmdir, path) as c_int
}

#[no_mangle]
pub unsafe extern "C" fn mkdir(path: *const c_char, mode: mode_t) -> c_int {
    if intercepting() {
        let a = {
            let _g = SeamGuard::enter();
            abs_path(path)
        };
        // A mkdir of an existing directory is not an effect (create_dir_all probes this way).
        let mut st: libc::stat = std::mem::zeroed();
        let exists = libc::syscall(libc::SYS_newfstatat, libc::AT_FDCWD, path, &mut st as *mut libc::stat, 0) == 0;
        if !exists {
            if let Decision::Fail(e) = report(EffectKind::Mkdir, a, None, -1, 0, std::ptr::null(), 0) {
                set_errno(e);
                return -1;
            }
        }
    }
    libc::syscall(libc::SYS_mkdir, path, mode as c_uint) as c_int
}

#[no_mangle]
pub unsafe extern "C" fn ftruncate64(fd: c_int, length: off64_t) -> c_int {
    if intercepting() && (MODE.load(Ordering::Relaxed) == MODE_MONITOR || actor() >= 0) {
        let info = {
            let _g = SeamGuard::enter();
            fd_info(fd)
        };
        if let Some(info) = info {
            if let Decision::Fail(e) = report(EffectKind::Truncate, info.path, None, fd, 0, std::ptr::null(), length as usize) {
                set_errno(e);
                return -1;
            }
        }
    }
    libc::syscall(libc::SYS_ftruncate, fd, length) as c_int
}

#[no_mangle]
pub unsafe extern "C" fn ftruncate(fd: c_int, length: off_t) -> c_int {
    ftruncate64(fd, length as off64_t)
}

#[no_mangle]
pub unsafe extern "C" fn truncate64(path: *const c_char, length: off64_t) -> c_int {
    if intercepting() {
        let a = {
            let _g = SeamGuard::enter();
            abs_path(path)
        };
        if let Decision::Fail(e) = report(EffectKind::Truncate, a, None, -1, 0, std::ptr::null(), length as usize) {
            set_errno(e);
            return -1;
        }
    }
    libc::syscall(libc::SYS_truncate, path, length) as c_int
}

#[no_mangle]
pub unsafe extern "C" fn linkat(olddirfd: c_int, old: *const c_char, newdirfd: c_int, new: *const c_char, flags: c_int) -> c_int {
    if intercepting() {
        let (a, b) = {
            let _g = SeamGuard::enter();
            (abs_path(old), abs_path(new))
        };
        if let Decision::Fail(e) = report(EffectKind::Link, b, Some(a), -1, 0, std::ptr::null(), 0) {
            set_errno(e);
            return -1;
        }
    }
    libc::syscall(libc::SYS_linkat, olddirfd, old, newdirfd, new, flags) as c_int
}

#[no_mangle]
pub unsafe extern "C" fn link(old: *const c_char, new: *const c_char) -> c_int {
    linkat(libc::AT_FDCWD, old, libc::AT_FDCWD, new, 0)
}

#[no_mangle]
pub unsafe extern "C" fn symlink(target: *const c_char, linkpath: *const c_char) -> c_int {
    if intercepting() {
        let (a, b) = {
            let _g = SeamGuard::enter();
            (abs_path(linkpath), CStr::from_ptr(target).to_string_lossy().to_string())
        };
        if let Decision::Fail(e) = report(EffectKind::Symlink, a, Some(b), -1, 0, std::ptr::null(), 0) {
            set_errno(e);
            return -1;
        }
    }
    libc::syscall(libc::SYS_symlink, target, linkpath) as c_int
}

#[no_mangle]
pub unsafe extern "C" fn fsync(fd: c_int) -> c_int {
    if intercepting() && (MODE.load(Ordering::Relaxed) == MODE_MONITOR || actor() >= 0) {
        let info = {
            let _g = SeamGuard::enter();
            fd_info(fd)
        };
        if let Some(info) = info {
            let _ = report(EffectKind::Fsync, info.path, None, fd, 0, std::ptr::null(), 0);
        }
    }
    libc::syscall(libc::SYS_fsync, fd) as c_int
}

#[no_mangle]
pub unsafe extern "C" fn fdatasync(fd: c_int) -> c_int {
    if intercepting() && (MODE.load(Ordering::Relaxed) == MODE_MONITOR || actor() >= 0) {
        let info = {
            let _g = SeamGuard::enter();
            fd_info(fd)
        };
        if let Some(info) = info {
            let _ = report(EffectKind::Fsync, info.path, None, fd, 0, std::ptr::null(), 0);
        }
    }
    libc::syscall(libc::SYS_fdatasync, fd) as c_int
}

#[no_mangle]
pub unsafe extern "C" fn copy_file_range(fd_in: c_int, off_in: *mut off64_t, fd_out: c_int, off_out: *mut off64_t, len: size_t, flags: c_uint) -> ssize_t {
    if intercepting() && (MODE.load(Ordering::Relaxed) == MODE_MONITOR || actor() >= 0) {
        let info = {
            let _g = SeamGuard::enter();
            (fd_info(fd_out), fd_info(fd_in))
        };
        if let (Some(out), inp) = info {
            if let Decision::Fail(e) = report(EffectKind::CopyRange, out.path, inp.map(|i| i.path), fd_out, 0, std::ptr::null(), len) {
                set_errno(e);
                return -1;
            }
        }
    }
    libc::syscall(libc::SYS_copy_file_range, fd_in, off_in, fd_out, off_out, len, flags) as ssize_t
}

#[no_mangle]
pub unsafe extern "C" fn sendfile64(out_fd: c_int, in_fd: c_int, offset: *mut off64_t, count: size_t) -> ssize_t {
    if intercepting() && (MODE.load(Ordering::Relaxed) == MODE_MONITOR || actor() >= 0) {
        let info = {
            let _g = SeamGuard::enter();
            (fd_info(out_fd), fd_info(in_fd))
        };
        if let (Some(out), inp) = info {
            if let Decision::Fail(e) = report(EffectKind::CopyRange, out.path, inp.map(|i| i.path), out_fd, 0, std::ptr::null(), count) {
                set_errno(e);
                return -1;
            }
        }
    }
    libc::syscall(libc::SYS_sendfile, out_fd, in_fd, offset, count) as ssize_t
}

#[no_mangle]
pub unsafe extern "C" fn chmod(path: *const c_char, mode: mode_t) -> c_int {
    if intercepting() {
        let a = {
            let _g = SeamGuard::enter();
            abs_path(path)
        };
        let _ = report(EffectKind::Chmod, a, None, -1, 0, std::ptr::null(), 0);
    }
    libc::syscall(libc::SYS_chmod, path, mode as c_uint) as c_int
}

#[no_mangle]
pub unsafe extern "C" fn fchmod(fd: c_int, mode: mode_t) -> c_int {
    if intercepting() && (MODE.load(Ordering::Relaxed) == MODE_MONITOR || actor() >= 0) {
        let info = {
            let _g = SeamGuard::enter();
            fd_info(fd)
        };
        if let Some(info) = info {
            let _ = report(EffectKind::Chmod, info.path, None, fd, 0, std::ptr::null(), 0);
        }
    }
    libc::syscall(libc::SYS_fchmod, fd, mode as c_uint) as c_int
}

// ---------------------------------------------------------------------------------------------
// interposers: clock, randomness, pids

#[no_mangle]
pub unsafe extern "C" fn clock_gettime(clk: libc::clockid_t, ts: *mut libc::timespec) -> c_int {
    if SIM_CLOCK_ON.load(Ordering::Relaxed)
        && (SIM_CLOCK_ALL_THREADS.load(Ordering::Relaxed) || actor() >= 0)
        && !ts.is_null()
        && matches!(
            clk,
            libc::CLOCK_REALTIME
                | libc::CLOCK_MONOTONIC
                | libc::CLOCK_BOOTTIME
                | libc::CLOCK_MONOTONIC_RAW
                | libc::CLOCK_MONOTONIC_COARSE
                | libc::CLOCK_REALTIME_COARSE
        )
    {
        COUNT_CLOCK.fetch_add(1, Ordering::Relaxed);
        let q = CLOCK_QUANTUM_NS.load(Ordering::Relaxed);
        let now = CLOCK_NS.fetch_add(q, Ordering::SeqCst) + q;
        let v = if clk == libc::CLOCK_REALTIME || clk == libc::CLOCK_REALTIME_COARSE {
            now
        } else {
            now - MONO_OFFSET_NS
        };
        (*ts).tv_sec = (v / 1_000_000_000) as libc::time_t;
        (*ts).tv_nsec = (v % 1_000_000_000) as c_long;
        return 0;
    }
    libc::syscall(libc::SYS_clock_gettime, clk, ts) as c_int
}

#[no_mangle]
pub unsafe extern "C" fn getrandom(buf: *mut c_void, buflen: size_t, flags: c_uint) -> ssize_t {
    if !buf.is_null() && buflen > 0 {
        let in_seam = IN_SEAM.try_with(|c| c.get()).unwrap_or(true);
        if !in_seam {
            let _g = SeamGuard::enter();
            let slice = std::slice::from_raw_parts_mut(buf as *mut u8, buflen);
            if sim_rand_fill(actor(), slice) {
                COUNT_RAND.fetch_add(1, Ordering::Relaxed);
                return buflen as ssize_t;
            }
        }
    }
    libc::syscall(libc::SYS_getrandom, buf, buflen, flags) as ssize_t
}

#[no_mangle]
pub unsafe extern "C" fn getpid() -> pid_t {
    let fake = FAKE_PID.try_with(|c| c.get()).unwrap_or(0);
    if fake != 0 {
        COUNT_PID.fetch_add(1, Ordering::Relaxed);
        return fake;
    }
    libc::syscall(libc::SYS_getpid) as pid_t
}

#[no_mangle]
pub unsafe extern "C" fn kill(pid: pid_t, sig: c_int) -> c_int {
    if pid >= FAKE_PID_BASE {
        COUNT_KILL.fetch_add(1, Ordering::Relaxed);
        if pid_is_alive(pid) {
            return 0;
        }
        set_errno(libc::ESRCH);
        return -1;
    }
    libc::syscall(libc::SYS_kill, pid, sig) as c_int
}

static _UNUSED: AtomicI64 = AtomicI64::new(0);

/// Run `f` with this thread temporarily treated as a passthrough (harness) thread.
pub fn passthrough<R>(f: impl FnOnce() -> R) -> R {
    let prev = ACTOR.with(|c| c.replace(-1));
    let r = f();
    ACTOR.with(|c| c.set(prev));
    r
}
