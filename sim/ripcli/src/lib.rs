//! rip-cli's sources compiled as a library (see Cargo.toml). Everything above the accessor module is
//! the repository's own `main.rs`, included textually; its `mod` declarations resolve next to it.
#![allow(dead_code, unused_imports)]
include!("/repo/crates/rip-cli/src/main.rs");

/// Public accessors for the simulator (harness code).
pub mod access {
    use std::io::Write;

    #[derive(Clone, Copy, Debug, PartialEq, Eq)]
    pub enum View {
        Raw,
        Output,
        Metrics,
    }

    /// One headless rendering fold: state carried between frames by `super::render_message`.
    pub struct Headless {
        view: super::OutputView,
        state: super::OutputState,
    }

    impl Headless {
        pub fn new(view: View) -> Self {
            let view = match view {
                View::Raw => super::OutputView::Raw,
                View::Output => super::OutputView::Output,
                View::Metrics => super::OutputView::Metrics,
            };
            Headless { view, state: super::OutputState::default() }
        }
        /// Feeds one SSE payload; returns (should_stop) or the renderer's error text.
        pub fn feed(&mut self, payload: &str, out: &mut dyn Write) -> Result<bool, String> {
            super::render_message(self.view, payload, out, &mut self.state).map_err(|e| e.to_string())
        }
    }

    /// The whole headless loop of `rip run --headless` (`stream_events_with_writer`) over an in-memory
    /// server-sent-event stream that is always ready: returns what was written, and how many messages
    /// the loop consumed before it stopped.
    pub fn run_stream(view: View, payloads: &[String]) -> Result<(Vec<u8>, usize), String> {
        use futures_util::{FutureExt, StreamExt};
        let view = match view {
            View::Raw => super::OutputView::Raw,
            View::Output => super::OutputView::Output,
            View::Metrics => super::OutputView::Metrics,
        };
        let consumed = std::sync::Arc::new(std::sync::atomic::AtomicUsize::new(0));
        let c2 = consumed.clone();
        let items: Vec<Result<super::Event, super::EventSourceError>> = std::iter::once(Ok(super::Event::Open))
            .chain(payloads.iter().map(|p| {
                Ok(super::Event::Message(eventsource_stream::Event { event: "message".into(), data: p.clone(), id: String::new(), retry: None }))
            }))
            .collect();
        let mut stream = futures_util::stream::iter(items).inspect(move |it| {
            if matches!(it, Ok(super::Event::Message(_))) {
                c2.fetch_add(1, std::sync::atomic::Ordering::SeqCst);
            }
        });
        let mut out: Vec<u8> = Vec::new();
        let r = super::stream_events_with_writer(&mut stream, view, &mut out).now_or_never();
        match r {
            Some(Ok(())) => Ok((out, consumed.load(std::sync::atomic::Ordering::SeqCst))),
            Some(Err(e)) => Err(e.to_string()),
            None => Err("headless loop did not finish on a finished stream".into()),
        }
    }
}
