#!/bin/bash
# tools/detect_all.sh [ID-n ...] : run each kept seeded change against its property's quick check
# (and, if that misses, against the fallback checks named in tools/detect_fallback.txt), always
# restoring /repo. One summary line per change in seeded/DETECT_SUMMARY.txt.
cd /verif
sum=seeded/DETECT_SUMMARY.txt
names="$@"; [ -z "$names" ] && names=$(ls seeded | grep -E '^C[0-9]+b?-[0-9]+$')
for name in $names; do
  id=${name%%-*}; n=${name##*-}; prop=${id%b}
  p=seeded/$name/patch.diff
  [ -f "$p" ] || p=seeded_incoming/$id/$n/patch.diff
  [ -f "$p" ] || { echo "$name NO-PATCH" >> $sum; continue; }
  fb=$(grep -E "^$name " tools/detect_fallback.txt 2>/dev/null | cut -d' ' -f2-)
  result="MISSED"
  for chk in $prop $fb; do
    out=seeded/$name/detect_$chk.log
    ./tools/try_mutation.sh /verif/$p $chk quick > $out 2>&1
    code=$(grep -o "check exit=[0-9]*" $out | tail -1 | cut -d= -f2)
    if grep -q "PATCH DOES NOT APPLY\|PATCH CONFLICTS" $out; then result="NOT-APPLY"; break; fi
    if grep -q "build failed" $out; then result="NOT-BUILD"; break; fi
    if [ "$code" = "1" ]; then
      sig=$(grep -m1 "signature=" $out | sed 's/.*signature=//')
      result="CAUGHT by $chk: $sig"; break
    fi
  done
  sed -i "/^$name /d" $sum 2>/dev/null
  echo "$name $result" >> $sum
done
