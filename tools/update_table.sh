#!/bin/bash
# tools/update_table.sh : regenerate seeded/*/meta.json and the table in DESIGN.md §7.1 from seeded/DETECT_SUMMARY.txt
cd /verif && python3 tools/make_meta.py --table > /tmp/seeded_table.md && python3 - <<'P'
s=open('/verif/DESIGN.md').read()
t=open('/tmp/seeded_table.md').read()
a=s.index('<!-- SEEDED-TABLE-BEGIN -->')+len('<!-- SEEDED-TABLE-BEGIN -->')
b=s.index('<!-- SEEDED-TABLE-END -->')
open('/verif/DESIGN.md','w').write(s[:a]+'\n'+t+s[b:])
P
