#!/bin/bash
# tools/try_mutation.sh <patch.diff> <check-id> [tier] [extra ripsim args]
# Applies a seeded change to /repo, runs one check against it, and always restores /repo.
set -u
patch="$1"; id="$2"; tier="${3:-quick}"; shift; shift; shift || true
cd /repo || exit 2
if [ -n "$(git status --porcelain --untracked-files=no)" ]; then echo "repo not clean"; exit 2; fi
restore() { git -C /repo reset -q --hard HEAD; git -C /repo clean -fdq -e target >/dev/null 2>&1; }
trap restore EXIT
if ! git apply --3way "$patch" >/tmp/try_mut_apply.log 2>&1; then
  if ! git apply "$patch" >>/tmp/try_mut_apply.log 2>&1; then
    echo "PATCH DOES NOT APPLY"; cat /tmp/try_mut_apply.log | tail -5; exit 3
  fi
fi
if git diff --name-only --diff-filter=U | grep -q .; then echo "PATCH CONFLICTS"; git diff --name-only --diff-filter=U; exit 3; fi
cd /verif && ./check "$id" "$tier" "$@"
code=$?
echo "check exit=$code"
exit $code
