#!/bin/bash
# tools/wave_intake.sh <wave-letter> <lane> <ID>... : take the deliveries of a sub-agent wave from
# ${MUTDIR:-/tmp/mut3}/<ID>/MUTATION/<n>, archive them under seeded_incoming/<ID><letter>/<n>, confirm each in a scratch
# worktree (tools/verify_mutation.sh), keep confirmed ones as seeded/<ID><letter>-<n>/, remove the
# sub-agent's worktree, and run the property's quick check against each kept change in the given lane.
w="$1"; lane="$2"; shift; shift
for id in "$@"; do
  src=${MUTDIR:-/tmp/mut3}/$id/MUTATION
  [ -d "$src" ] || { echo "$id: no deliveries"; continue; }
  git -C /repo worktree remove --force ${MUTDIR:-/tmp/mut3}/$id/wt >/dev/null 2>&1; rm -rf ${MUTDIR:-/tmp/mut3}/$id/wt
  for d in $src/[0-9]*; do
    n=$(basename $d); name="$id$w-$n"
    [ -f $d/patch.diff ] && [ -f $d/demo.diff ] || { echo "$name: incomplete delivery"; continue; }
    mkdir -p /verif/seeded_incoming/$id$w/$n && cp $d/patch.diff $d/demo.diff /verif/seeded_incoming/$id$w/$n/ && cp $d/README.md /verif/seeded_incoming/$id$w/$n/ 2>/dev/null
    /verif/tools/verify_mutation.sh "$name" $d/patch.diff $d/demo.diff yes
    if grep -q "CONFIRMED" /verif/seeded/$name/verify.log; then
      cp $d/patch.diff $d/demo.diff /verif/seeded/$name/; cp $d/README.md /verif/seeded/$name/ 2>/dev/null
      /verif/tools/lane.sh sweep $lane $name
      grep "^$name " /verif/seeded/DETECT_SUMMARY.txt
    fi
  done
done
