#!/bin/bash
# tools/wave_setup.sh <ID>... : scratch worktree of /repo's HEAD per property for a sub-agent (outside /repo and /verif),
# with third-party build output pre-seeded, and the property's record as the only text from /verif.
for id in "$@"; do
  d=${MUTDIR:-/tmp/mut3}/$id; rm -rf $d; mkdir -p $d/MUTATION
  git -C /repo worktree add -q --detach $d/wt HEAD || exit 2
  mkdir -p $d/wt/target && cp -a /repo/target/debug $d/wt/target/ 2>/dev/null
  grep "\"id\": *\"$id\"" /verif/properties.jsonl > $d/property.json
done
