#!/bin/bash
# tools/verify_queue.sh <ID>... : verify every mutation delivered under /tmp/mut/<ID>/MUTATION/<n>
for id in "$@"; do
  for d in /verif/seeded_incoming/$id/[0-9]*; do
    n=$(basename "$d"); name="$id-$n"
    [ -f /verif/seeded/$name/verify.log ] && grep -q -E "CONFIRMED|BAD|NOT-APPLY|CONFLICT|NOT-BUILD" /verif/seeded/$name/verify.log && continue
    p="$d/patch.diff"; [ -f /verif/seeded/$name/patch.diff ] && p=/verif/seeded/$name/patch.diff
    demo="$d/demo.diff"
    [ -f "$demo" ] || { echo "$name: no demo.diff"; continue; }
    /verif/tools/verify_mutation.sh "$name" "$p" "$demo" yes
  done
done
