#!/bin/bash
# tools/verify_mutation.sh <name> <patch.diff> <demo.diff> [suite=yes|no]
# Confirms a seeded change in a scratch worktree of /repo's HEAD (outside /repo and /verif):
#   1. the change applies and the workspace builds,
#   2. the existing suite (minus the pty tests that hang in this sandbox) still passes with it,
#   3. the demonstration fails with the change and passes without it.
# Writes /verif/seeded/<name>/verify.log and prints a one-line verdict. Removes the worktree.
set -u
name="$1"; patch="$(readlink -f "$2")"; demo="$(readlink -f "$3")"; suite="${4:-yes}"
wt=/tmp/ver/$name
out=/verif/seeded/$name; mkdir -p "$out"; log=$out/verify.log; : > "$log"
rm -rf "$wt"; mkdir -p /tmp/ver
git -C /repo worktree add -q --detach "$wt" HEAD >>"$log" 2>&1 || { echo "$name: worktree failed"; exit 2; }
cleanup() { git -C /repo worktree remove --force "$wt" >/dev/null 2>&1; rm -rf "$wt"; }
trap cleanup EXIT
mkdir -p "$wt/target" && cp -a /repo/target/debug "$wt/target/" 2>/dev/null
cd "$wt"
export CARGO_NET_OFFLINE=true
apply() { git apply --3way "$1" >>"$log" 2>&1 || git apply "$1" >>"$log" 2>&1; }
if ! apply "$patch"; then echo "$name: PATCH-DOES-NOT-APPLY" | tee -a "$log"; exit 3; fi
if git diff --name-only --diff-filter=U | grep -q .; then echo "$name: PATCH-CONFLICT" | tee -a "$log"; exit 3; fi
git diff HEAD > "$out/patch.applied.diff"
echo "== build with change" >>"$log"
if ! cargo build --workspace --tests --offline >>"$log" 2>&1; then echo "$name: DOES-NOT-BUILD" | tee -a "$log"; exit 4; fi
suite_result="skipped"
if [ "$suite" = yes ]; then
  echo "== suite with change" >>"$log"
  timeout 1500 cargo nextest run --workspace --no-fail-fast --offline -E 'not test(pty_task) and not test(pty_control)' > "$out/suite.log" 2>&1
  fails=$(grep -E "^\s+(FAIL|TIMEOUT|SIGABRT|SIGSEGV)" "$out/suite.log" | awk '{print $NF}' | sort -u | grep -v -E "grep_reports_unreadable|ls_reports_unreadable|local_authority_recovers_from_stale_lock|pipes_task_applies_cwd_and_env|list_checkpoints_sorted|run_task_writes_stdout_and_stderr_logs" | tr '\n' ' ')
  summ=$(grep -E "Summary" "$out/suite.log" | tail -1)
  echo "suite: $summ unexpected_failures=[$fails]" >>"$log"
  if [ -n "$fails" ]; then suite_result="UNEXPECTED-FAILURES: $fails"; else suite_result="ok"; fi
fi
echo "== demo with change" >>"$log"
git add -A >>"$log" 2>&1; git -c user.email=v@v -c user.name=v commit -q -m change >>"$log" 2>&1
if ! apply "$demo"; then echo "$name: DEMO-DOES-NOT-APPLY suite=$suite_result" | tee -a "$log"; exit 5; fi
git add -A >>"$log" 2>&1
tests=$(git diff --cached -U0 | grep -E "^\+\s*(pub )?(async )?fn [a-zA-Z0-9_]+\(" | sed -E 's/.*fn ([a-zA-Z0-9_]+)\(.*/\1/' | sort -u | tr '\n' ' ')
[ -n "${DEMO_TESTS:-}" ] && tests="$DEMO_TESTS"
filter=""; for t in $tests; do [ -n "$filter" ] && filter="$filter or "; filter="${filter}test(/(^|::)$t\$/)"; done
echo "demo tests: $tests" >>"$log"
[ -z "$filter" ] && { echo "$name: NO-DEMO-TESTS-FOUND suite=$suite_result" | tee -a "$log"; exit 5; }
git -c user.email=v@v -c user.name=v commit -q -m demo >>"$log" 2>&1
timeout 900 cargo nextest run --workspace --no-fail-fast --offline -E "$filter" > "$out/demo_changed.log" 2>&1; changed_code=$?
# now take the change out again (revert the first commit), keep the demo
if ! git -c user.email=v@v -c user.name=v revert --no-edit HEAD~1 >>"$log" 2>&1; then echo "$name: REVERT-CONFLICT suite=$suite_result demo_changed=$changed_code" | tee -a "$log"; exit 5; fi
timeout 900 cargo nextest run --workspace --no-fail-fast --offline -E "$filter" > "$out/demo_clean.log" 2>&1; clean_code=$?
echo "demo clean exit=$clean_code changed exit=$changed_code" >>"$log"
verdict="BAD"
if [ $clean_code -eq 0 ] && [ $changed_code -ne 0 ] && [ "$suite_result" != "${suite_result#ok}" -o "$suite_result" = skipped ]; then verdict="CONFIRMED"; fi
echo "$name: $verdict suite=$suite_result demo_clean=$clean_code demo_changed=$changed_code" | tee -a "$log"
