#!/bin/bash
# tools/wave_redo.sh <lane> <name>... : confirm again (tools/verify_mutation.sh) and sweep single archived
# deliveries, e.g. C09c-2 (patch and demo are taken from seeded_incoming/<ID><letter>/<n>/).
lane="$1"; shift
for name in "$@"; do
  idw=${name%%-*}; n=${name##*-}; d=/verif/seeded_incoming/$idw/$n
  [ -f $d/patch.diff ] && [ -f $d/demo.diff ] || { echo "$name: no archived delivery"; continue; }
  /verif/tools/verify_mutation.sh "$name" $d/patch.diff $d/demo.diff yes
  if grep -q "CONFIRMED" /verif/seeded/$name/verify.log; then
    cp $d/patch.diff $d/demo.diff /verif/seeded/$name/; cp $d/README.md /verif/seeded/$name/ 2>/dev/null
    /verif/tools/lane.sh sync $lane >/dev/null 2>&1
    /verif/tools/lane.sh sweep $lane $name
    grep "^$name " /verif/seeded/DETECT_SUMMARY.txt
  fi
done
