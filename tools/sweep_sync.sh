#!/bin/bash
# tools/sweep_sync.sh : (re)create the scratch copy used for mutation sweeps while /verif and /repo stay free:
# /tmp/sweep/repo = git worktree of /repo HEAD, /tmp/sweep/verif = copy of /verif with paths rewritten.
set -e
mkdir -p /tmp/sweep
if [ ! -d /tmp/sweep/repo ]; then git -C /repo worktree add --detach /tmp/sweep/repo HEAD >/dev/null; fi
git -C /tmp/sweep/repo checkout -q --detach "$(git -C /repo rev-parse HEAD)"
rsync -a --delete --exclude replays --exclude sim/target --exclude seeded/DETECT_SUMMARY.txt /verif/ /tmp/sweep/verif/
cd /tmp/sweep/verif
sed -i 's#/repo/crates#/tmp/sweep/repo/crates#g' sim/Cargo.toml
sed -i 's#"/repo/crates/rip-cli/src/local_authority.rs"#"/tmp/sweep/repo/crates/rip-cli/src/local_authority.rs"#' sim/src/main.rs
sed -i 's#/repo#/tmp/sweep/repo#g; s#cd /verif#cd /tmp/sweep/verif#' tools/try_mutation.sh
sed -i 's#cd /verif#cd /tmp/sweep/verif#; s#/verif/\$p#/tmp/sweep/verif/$p#' tools/detect_all.sh
(cd sim && CARGO_NET_OFFLINE=true cargo build --release --offline 2>&1 | tail -1)
