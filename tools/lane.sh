#!/bin/bash
# tools/lane.sh — run checks against seeded changes in a scratch "lane" so that /repo and /verif
# stay free for other work.
#
#   lane.sh setup <k>                 create /tmp/lane<k>/{repo,verif}: a git worktree of /repo's HEAD and a
#                                     copy of /verif's machinery whose path dependencies point at that worktree
#   lane.sh sync <k>                  refresh the lane's copy of /verif/sim, known findings and the worktree (HEAD)
#   lane.sh sweep <k> [ID-n ...]      for each kept seeded change: apply it in the lane's worktree, run its
#                                     property's quick check there (then the fallback checks named in
#                                     tools/detect_fallback.txt), restore; one line per change is written to
#                                     /verif/seeded/DETECT_SUMMARY.txt
#   lane.sh try <k> <patch> <ID> [tier] [ripsim args]   one check against one patch in the lane
#   lane.sh base <k> <ID> [tier] [ripsim args]          one check on the lane's unchanged worktree
#   lane.sh drop <k>                  remove the lane with its build output
#
# Nothing registered in MANIFEST.json uses a lane; evidence written by lane runs stays in the lane.
set -u
cmd="${1:?cmd}"; k="${2:?lane}"; shift; shift
L=/tmp/lane$k
sync_lane() {
  mkdir -p $L/verif
  rsync -a --delete --exclude 'sim/target' --exclude '.git' --exclude 'replays' --exclude 'evidence' \
        --exclude 'seeded' --exclude 'seeded_incoming' /verif/ $L/verif/
  mkdir -p $L/verif/evidence $L/verif/replays
  sed -i "s#/repo/#$L/repo/#g" $L/verif/sim/Cargo.toml $L/verif/sim/src/main.rs $L/verif/sim/ripcli/Cargo.toml $L/verif/sim/ripcli/src/lib.rs
  git -C $L/repo reset -q --hard "$(git -C /repo rev-parse HEAD)"
  git -C $L/repo clean -fdq -e target >/dev/null 2>&1
}
restore() { git -C $L/repo reset -q --hard HEAD; git -C $L/repo clean -fdq -e target >/dev/null 2>&1; }
apply() { # <patch>
  if ! git -C $L/repo apply --3way "$1" >$L/apply.log 2>&1; then
    if ! git -C $L/repo apply "$1" >>$L/apply.log 2>&1; then echo "PATCH DOES NOT APPLY"; tail -5 $L/apply.log; return 3; fi
  fi
  if git -C $L/repo diff --name-only --diff-filter=U | grep -q .; then echo "PATCH CONFLICTS"; return 3; fi
  return 0
}
case "$cmd" in
  setup)
    rm -rf $L; mkdir -p $L
    git -C /repo worktree prune
    git -C /repo worktree add -q --detach $L/repo HEAD || exit 2
    sync_lane
    ;;
  sync) sync_lane ;;
  drop)
    git -C /repo worktree remove --force $L/repo 2>/dev/null
    rm -rf $L; git -C /repo worktree prune
    ;;
  base)
    id="$1"; tier="${2:-quick}"; shift; shift || true
    restore
    (cd $L/verif && VERIF_DIR=$L/verif ./check "$id" "$tier" "$@"); echo "check exit=$?"
    ;;
  try)
    patch="$1"; id="$2"; tier="${3:-quick}"; shift; shift; shift || true
    restore
    apply "$patch" || { restore; exit 3; }
    (cd $L/verif && VERIF_DIR=$L/verif ./check "$id" "$tier" "$@"); code=$?
    restore
    echo "check exit=$code"; exit $code
    ;;
  sweep)
    sum=/verif/seeded/DETECT_SUMMARY.txt
    names="$*"; [ -z "$names" ] && names=$(ls /verif/seeded | grep -E '^C[0-9]+[a-z]?-[0-9]+$')
    for name in $names; do
      id=${name%%-*}; n=${name##*-}; prop=$(echo $id | sed 's/[a-z]$//')
      p=/verif/seeded/$name/patch.diff
      [ -f "$p" ] || p=/verif/seeded_incoming/$id/$n/patch.diff
      [ -f "$p" ] || { echo "$name NO-PATCH" >> $sum; continue; }
      fb=$(grep -E "^$name " /verif/tools/detect_fallback.txt 2>/dev/null | cut -d' ' -f2-)
      result="MISSED"
      for chk in $prop $fb; do
        out=$L/detect_${name}_$chk.log
        $0 try $k $p $chk quick > $out 2>&1
        code=$(grep -o "check exit=[0-9]*" $out | tail -1 | cut -d= -f2)
        if grep -q "PATCH DOES NOT APPLY\|PATCH CONFLICTS" $out; then result="NOT-APPLY"; break; fi
        if grep -q "build failed" $out; then result="NOT-BUILD"; break; fi
        if [ "$code" = "2" ]; then result="HARNESS-ERROR in $chk"; fi
        if [ "$code" = "1" ]; then
          sig=$(grep -m1 "signature=" $out | sed 's/.*signature=//')
          result="CAUGHT by $chk: $sig"; break
        fi
      done
      # flock: several lanes may write the summary
      ( flock 9; sed -i "/^$name /d" $sum 2>/dev/null; echo "$name $result" >> $sum ) 9>/tmp/detect_summary.lock
    done
    ;;
  *) echo "unknown command"; exit 2 ;;
esac
