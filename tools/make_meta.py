#!/usr/bin/env python3
"""tools/make_meta.py: assemble /verif/seeded/<ID>-<n>/{patch.diff,demo.diff,README.md,meta.json} from the
archived deliveries (seeded_incoming), the verification logs (verify_mutation.sh) and the detection sweep
(detect_all.sh), and print the markdown table used in DESIGN.md §7.1."""
import json, os, re, shutil, sys
V='/verif'
summary={}
p=f'{V}/seeded/DETECT_SUMMARY.txt'
if os.path.exists(p):
    for l in open(p):
        name,_,rest=l.strip().partition(' ')
        summary[name]=rest
rows=[]
for name in sorted(os.listdir(f'{V}/seeded'), key=lambda s:(s.split('-')[0], s)):
    m=re.match(r'^(C\d+[a-z]?)-(\d+)$',name)
    if not m: continue
    idd,n=m.group(1),m.group(2); prop=re.sub(r'[a-z]$','',idd)
    d=f'{V}/seeded/{name}'; inc=f'{V}/seeded_incoming/{idd}/{n}'
    vl0=f'{d}/verify.log'
    if os.path.exists(vl0) and 'CONFIRMED' not in open(vl0).read() and not os.path.exists(f'{d}/meta.json'):
        continue  # delivered but not confirmed: not a kept change
    ported=os.path.exists(f'{d}/patch.diff') and os.path.exists(f'{inc}/patch.diff') and open(f'{d}/patch.diff').read()!=open(f'{inc}/patch.diff').read()
    if not os.path.exists(f'{d}/patch.diff') and os.path.exists(f'{inc}/patch.diff'):
        shutil.copy(f'{inc}/patch.diff',f'{d}/patch.diff')
    for f in ('demo.diff','README.md'):
        if os.path.exists(f'{inc}/{f}') and not os.path.exists(f'{d}/{f}'):
            shutil.copy(f'{inc}/{f}',f'{d}/{f}')
    readme=open(f'{d}/README.md').read() if os.path.exists(f'{d}/README.md') else ''
    title=(readme.strip().split('\n')[0].lstrip('# ').strip() if readme else name)
    title=re.sub(r'^(C\d+\s*/\s*)?[Mm]utation\s*\d+\s*[-—–:]*\s*','',title).strip()
    needs=''
    mm=re.search(r'##+\s*(?:What is needed|What it needs|Needs|What .*? needs?|Exactly what it needs|How to trigger|Trigger)[^\n]*\n(.*?)(\n##|\Z)',readme,re.S|re.I)
    if mm: needs=re.sub(r'\s+',' ',mm.group(1)).strip()[:900]
    verify=''
    vl=f'{d}/verify.log'
    if os.path.exists(vl):
        lines=[l.strip() for l in open(vl) if l.startswith(name+':')]
        verify=lines[-1] if lines else ''
    det=summary.get(name,'(not swept)')
    meta={
      'id':name,'breaks_property':prop,'what':title,'needs_to_manifest':needs,
      'origin':'fresh sub-agent given only the property text and a scratch git worktree of /repo',
      'ported_to_current_tree':ported,
      'confirmed_by_me':{'how':'tools/verify_mutation.sh in a scratch worktree outside /repo and /verif: commit the change, run the existing suite (nextest, pty tests excluded, known pre-existing failures tolerated), apply the demonstration, run it with the change (must fail) and with the change reverted (must pass)','result':verify},
      'detection':{'how':f'tools/try_mutation.sh seeded/{name}/patch.diff <check> quick  (git -C /repo apply, ./check, git -C /repo checkout -- .), or the same in a scratch lane (tools/lane.sh try <k> ...)','result':det},
    }
    json.dump(meta,open(f'{d}/meta.json','w'),indent=1)
    rows.append((name,title,verify,det))
if '--table' in sys.argv:
    print('| change | what it does | caught by |')
    print('|---|---|---|')
    for name,title,verify,det in rows:
        t=title.replace('|','/')
        if len(t)>110: t=t[:107]+'…'
        d=det.replace('|','/')
        print(f'| {name} | {t} | {d} |')
